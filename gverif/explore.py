"""Choice-tree explorer (stateless model checking of a harness) and a small
state-graph explorer (BFS over operation histories with canonical hashing).

A harness body is ``run(ch)``; every nondeterministic decision it takes is
``ch.choose(n, label, deviation=False)``.  ``explore`` enumerates *all*
choice vectors in lexicographic order (depth-first), optionally bounded by
the number of non-default answers at points flagged ``deviation=True``.
Replaying a prefix that meets a different arity or label than recorded is a
hard error (NondeterminismLeak): it means the harness does not own all of
its nondeterminism, and nothing found in such a run may be trusted.
"""

import collections


class NondeterminismLeak(RuntimeError):
    pass


class Chooser:
    __slots__ = ('prefix', 'trace', 'expect', 'devs')

    def __init__(self, prefix=(), expect=()):
        self.prefix = list(prefix)
        self.expect = list(expect)      # (arity, label) recorded for prefix
        self.trace = []                 # (choice, arity, deviation, label)
        self.devs = 0

    def choose(self, n, label='', deviation=False):
        assert n >= 1, (n, label)
        i = len(self.trace)
        if i < len(self.prefix):
            c = self.prefix[i]
            if c >= n:
                raise NondeterminismLeak(
                    f'choice {c} out of range {n} at point {i} ({label})')
            # all points strictly before the last prefix element were
            # executed with identical choices before: arity and label must
            # repeat exactly
            if i < len(self.expect) and self.expect[i] != (n, label):
                raise NondeterminismLeak(
                    f'point {i}: recorded {self.expect[i]}, now {(n, label)}')
        else:
            c = 0
        self.trace.append((c, n, bool(deviation), label))
        if deviation and c:
            self.devs += 1
        return c

    def pick(self, seq, label='', deviation=False):
        return seq[self.choose(len(seq), label, deviation)]

    def flag(self, label='', deviation=False):
        return bool(self.choose(2, label, deviation))

    def vector(self):
        return [t[0] for t in self.trace]

    def described(self):
        return [(t[3], t[0]) for t in self.trace]


def explore(run, bound=None, prefix0=()):
    """Yield (chooser, result) for every execution of ``run``."""
    prefix0 = list(prefix0)
    prefix = list(prefix0)
    expect = []
    while True:
        ch = Chooser(prefix, expect)
        result = run(ch)
        yield ch, result
        tr = ch.trace
        devs_before = [0] * (len(tr) + 1)
        for k, (c, n, d, _l) in enumerate(tr):
            devs_before[k + 1] = devs_before[k] + (1 if (d and c) else 0)
        nxt = None
        i = len(tr) - 1
        while i >= len(prefix0):
            c, n, d, _l = tr[i]
            if c + 1 < n:
                cost = devs_before[i] + (1 if d else 0)
                if bound is None or cost <= bound:
                    nxt = [t[0] for t in tr[:i]] + [c + 1]
                    break
            i -= 1
        if nxt is None:
            return
        prefix = nxt
        # the last element of the new prefix is a point reached with the
        # same choices before it, so its arity/label must repeat as well
        expect = [(t[1], t[3]) for t in tr[:len(nxt)]]


def replay(run, vector):
    ch = Chooser(vector)
    return ch, run(ch)


class StateGraph:
    """Explicit-state BFS.  ``initial`` is a list of (key, state) pairs,
    ``successors(state)`` yields (label, key, state) and ``invariant`` is
    evaluated by the caller inside successors (it knows the transition).
    States are deduplicated by key; depth-bounded."""

    def __init__(self):
        self.states = 0
        self.transitions = 0
        self.max_depth = 0

    def bfs(self, initial, successors, max_depth):
        seen = set()
        frontier = collections.deque()
        for key, st in initial:
            if key not in seen:
                seen.add(key)
                frontier.append((0, st))
        while frontier:
            depth, st = frontier.popleft()
            self.max_depth = max(self.max_depth, depth)
            if depth >= max_depth:
                continue
            for _label, key, nst in successors(st):
                self.transitions += 1
                if key not in seen:
                    seen.add(key)
                    frontier.append((depth + 1, nst))
        self.states = len(seen)
        return seen
