"""Scenario = data tree + Manifest layout (+ post-render edits).  Shared by the
update-side harnesses (C03, C10, C12, C13, C18): a menu of *prior Manifest
states* over one small tree, and a menu of tree edits."""

import os

from gverif import refmanifest as rm
from gverif.common import other_content
from gverif.treemodel import COMPS, MSpec, Tree, mname, render_layout

TOP = 'Manifest'


class Scenario:
    def __init__(self, files, specs, links=None, dirs=None, mtimes=None, raw=None):
        self.tree = Tree(files, links, dirs, mtimes)
        self.specs = specs
        self.post = []        # functions(tree) applied after rendering
        self.raw = dict(raw or {})   # extra files written verbatim after rendering

    def build(self):
        t = self.tree.clone()
        render_layout(t, self.specs)
        t.files.update(self.raw)
        for fn in self.post:
            fn(t)
        return t


# 'dx/f5' and 'd.txt' are string-prefix (not component-prefix) look-alikes of the directory 'd'
BASE_FILES = {'f0': b'zero', 'd/f1': b'one', 'd/e/f2': b'two!', 'g/f3': b'', 'dx/f5': b'five', 'd.txt': b'dtxt'}
H1 = ('SHA1',)


def _F(p, hashes=H1, tag='DATA'):
    return ('F', tag, p, hashes)


def priors():
    """Yield (name, factory) where factory() -> Scenario describing the state
    *before* the edit+update.  Names are stable identifiers used in case
    descriptors and known-finding matchers."""
    B = BASE_FILES

    def flat(extra=(), hashes=H1):
        return [MSpec(TOP, [_F(p, hashes) for p in sorted(B)] + list(extra))]

    yield 'absent', lambda: Scenario(B, [])
    yield 'flat', lambda: Scenario(B, flat())
    yield 'flat_otherhashes', lambda: Scenario(B, flat(hashes=('MD5', 'SHA512')))
    yield 'flat_rich', lambda: Scenario(B, flat(extra=[
        ('L', 'DIST foo-1.tar.gz 1234 SHA1 ' + 'a' * 40),
        ('L', 'IGNORE ign'),
        ('L', 'TIMESTAMP 2017-01-01T00:00:00Z')]), dirs=['ign'], raw={'ign/junk': b'j'})

    for cd in COMPS:
        for ce in (None, 'xz') if cd in (None, 'gz') else (None,):
            def nested(cd=cd, ce=ce):
                md, me = mname('d', cd), mname('d/e', ce)
                return Scenario(B, [
                    MSpec(TOP, [_F('f0'), _F('g/f3'), _F('dx/f5'), _F('d.txt'), ('M', md, H1),
                                ('L', 'DIST top.tar 1 SHA1 ' + 'b' * 40)]),
                    MSpec(md, [_F('d/f1'), ('M', me, H1), ('L', 'DIST sub.tar 2 SHA1 ' + 'c' * 40)]),
                    MSpec(me, [_F('d/e/f2', tag='MISC')]),
                ])
            yield f'nested_{cd}_{ce}', nested

    def wrong_size_right_digest(nested):
        # digests of the current content but a wrong size (a change-detection that only looks at digests misses it)
        def bad(p, rel):
            e = rm.file_entry('DATA', rel, B[p], H1)
            return ('E', (e[0], e[1], e[2] + 7, e[3]))
        if not nested:
            return Scenario(B, [MSpec(TOP, [_F(p) for p in sorted(B) if p != 'd/f1'] + [bad('d/f1', 'd/f1')])])
        return Scenario(B, [
            MSpec(TOP, [_F('f0'), _F('g/f3'), _F('dx/f5'), _F('d.txt'), ('M', 'd/Manifest', H1)]),
            MSpec('d/Manifest', [bad('d/f1', 'f1'), _F('d/e/f2')]),
        ])
    yield 'wrong_size_right_digest', lambda: wrong_size_right_digest(False)
    yield 'wrong_size_right_digest_nested', lambda: wrong_size_right_digest(True)

    def stale_child_accurate_parent_dup():
        # the deeper Manifest holds a stale entry (old size, old digest), the parent an accurate duplicate
        return Scenario(B, [
            MSpec(TOP, [_F('f0'), _F('g/f3'), _F('dx/f5'), _F('d.txt'), _F('d/f1'), ('M', 'd/Manifest', H1)]),
            MSpec('d/Manifest', [('E', rm.file_entry('DATA', 'f1', b'OLDER', H1)), _F('d/e/f2')]),
        ])
    yield 'stale_child_accurate_parent_dup', stale_child_accurate_parent_dup

    def stale_child_accurate_parent_dup_samesize():
        # as above, but the stale entry records the right size (content changed keeping its length)
        return Scenario(B, [
            MSpec(TOP, [_F('f0'), _F('g/f3'), _F('dx/f5'), _F('d.txt'), _F('d/f1'), ('M', 'd/Manifest', H1)]),
            MSpec('d/Manifest', [('E', rm.file_entry('DATA', 'f1', b'ONE', H1)), _F('d/e/f2')]),
        ])
    yield 'stale_child_accurate_parent_dup_samesize', stale_child_accurate_parent_dup_samesize

    def nested_stale_subentry():
        # the sub-Manifest was edited by hand (lines swapped): valid, but the parent's MANIFEST entry is stale
        sc = Scenario(B, [
            MSpec(TOP, [_F('f0'), _F('g/f3'), _F('dx/f5'), _F('d.txt'), ('M', 'd/Manifest', H1)]),
            MSpec('d/Manifest', [_F('d/f1'), _F('d/e/f2')]),
        ])

        def swap(t):
            lines = t.files['d/Manifest'].decode().splitlines()
            t.files['d/Manifest'] = ''.join(x + '\n' for x in lines[::-1]).encode()
        sc.post.append(swap)
        return sc
    yield 'nested_stale_subentry', nested_stale_subentry

    def nested_ancestor():
        # d/e/f2 is listed by the top Manifest although d/Manifest exists
        return Scenario(B, [
            MSpec(TOP, [_F('f0'), _F('g/f3'), _F('dx/f5'), _F('d.txt'), _F('d/e/f2'), ('M', 'd/Manifest', H1)]),
            MSpec('d/Manifest', [_F('d/f1')]),
        ])
    yield 'nested_ancestor', nested_ancestor

    for rel, h2 in (('equal', H1), ('sub', ()), ('super', ('MD5', 'SHA1')), ('disjoint', ('MD5',))):
        def dup(h2=h2):
            return Scenario(B, flat(extra=[_F('d/f1', h2)]))
        yield f'dup_{rel}', dup

        def dup_stale(h2=h2):
            # the duplicate carries data of an older content
            return Scenario(B, flat(extra=[('E', rm.file_entry('DATA', 'd/f1', b'OLD', h2))]))
        yield f'dup_{rel}_stale', dup_stale

    # contradicting duplicates one of which describes an EMPTY file (size 0): entries for the 3-byte d/f1, stale one
    # first / last, same hash set and another one
    for order in ('stale_last', 'stale_first'):
        for h2 in (H1, ('MD5',)):
            def dup_empty(order=order, h2=h2):
                stale = ('E', rm.file_entry('DATA', 'd/f1', b'', h2))
                items = flat(extra=[stale])
                if order == 'stale_first':
                    sp = items[0]
                    sp.items.remove(stale)
                    sp.items.insert(0, stale)
                return Scenario(B, items)
            yield f'dup_empty_{order}_{"same" if h2 == H1 else "other"}', dup_empty

    def twin_names():
        # a file of the top directory and a file of d/ with the same NAME and the same CONTENT: their entries, each
        # relative to its own Manifest, compare equal although they name different files
        files = dict(B)
        files['f1'] = B['d/f1']
        return Scenario(files, [
            MSpec(TOP, [_F('f0'), _F('f1'), _F('g/f3'), _F('dx/f5'), _F('d.txt'), ('M', 'd/Manifest', H1)]),
            MSpec('d/Manifest', [_F('d/f1'), _F('d/e/f2')]),
        ])
    yield 'twin_names', twin_names

    def dup_parent_child():
        return Scenario(B, [
            MSpec(TOP, [_F('f0'), _F('g/f3'), _F('dx/f5'), _F('d.txt'), _F('d/f1'), _F('d/e/f2'), ('M', 'd/Manifest', H1)]),
            MSpec('d/Manifest', [_F('d/f1'), _F('d/e/f2', ('MD5',))]),
        ])
    yield 'dup_parent_child', dup_parent_child

    def unreg_valid(top_lists=True, comp=None):
        md = mname('d', comp)
        tree = Tree(B)
        render_layout(tree, [MSpec(md, [_F('d/f1'), _F('d/e/f2')])])
        items = [_F('f0'), _F('g/f3'), _F('dx/f5'), _F('d.txt')] + ([_F('d/f1'), _F('d/e/f2')] if top_lists else [])
        return Scenario(B, [MSpec(TOP, items)], raw={md: tree.files[md]})
    yield 'unreg_valid_dup', lambda: unreg_valid(True)
    yield 'unreg_valid_only', lambda: unreg_valid(False)
    yield 'unreg_valid_gz', lambda: unreg_valid(False, 'gz')
    yield 'unreg_invalid', lambda: Scenario(B, flat(), raw={'d/Manifest': b'this is not a Manifest\n'})
    yield 'unreg_invalid_listed', lambda: Scenario(
        B, flat(extra=[('E', rm.file_entry('DATA', 'd/Manifest', b'this is not a Manifest\n', H1))]),
        raw={'d/Manifest': b'this is not a Manifest\n'})
    yield 'unreg_corrupt_gz', lambda: Scenario(B, flat(), raw={'d/Manifest.gz': b'\x1f\x8bgarbage'})
    yield 'unreg_beside_top', lambda: Scenario(B, flat(), raw={'Manifest.gz': __import__('gzip').compress(b'', mtime=0)})

    def two_in_dir():
        return Scenario(B, [
            MSpec(TOP, [_F('f0'), _F('g/f3'), _F('dx/f5'), _F('d.txt'), ('M', 'd/Manifest.a', H1), ('M', 'd/Manifest.b', H1)]),
            MSpec('d/Manifest.a', [_F('d/f1')]),
            MSpec('d/Manifest.b', [_F('d/e/f2')]),
        ])
    yield 'two_in_dir', two_in_dir

    for comp in (None, 'gz'):
        def samedir_chain(comp=comp):
            mf = mname('', comp, 'Manifest.files')
            return Scenario(B, [
                MSpec(TOP, [('M', mf, ('BLAKE2B', 'SHA512')), ('L', 'TIMESTAMP 2017-01-01T00:00:00Z')]),
                MSpec(mf, [_F(p) for p in sorted(B)]),
            ])
        yield f'samedir_chain_{comp}', samedir_chain

    def samedir_chain_sub():
        return Scenario(B, [
            MSpec(TOP, [_F('f0'), _F('g/f3'), _F('dx/f5'), _F('d.txt'), ('M', 'd/Manifest', H1)]),
            MSpec('d/Manifest', [('M', 'd/Manifest.files', H1)]),
            MSpec('d/Manifest.files', [_F('d/f1'), _F('d/e/f2')]),
        ])
    yield 'samedir_chain_sub', samedir_chain_sub

    def ignore_sub():
        return Scenario(B, [MSpec(TOP, [_F('f0'), _F('dx/f5'), _F('d.txt'), _F('d/f1'), _F('d/e/f2'), ('L', 'IGNORE g')])])
    yield 'ignore_dir', ignore_sub

    def entry_is_dir():
        # an entry names a path that is a directory now
        return Scenario(B, flat(extra=[('E', rm.file_entry('DATA', 'g', b'x', H1))]))
    yield 'entry_names_directory', entry_is_dir


    HOSTILE = {'b c': b'space', '\u00fc': b'umlaut', 'b\\': b'backslash', 'd \u00e9/x\ty': b'tab in name',
               'd \u00e9/\u2028sep': b'line separator', 'q.x': b'', 'a\u0085b/\U0001f600': b'emoji under NEL dir'}

    def hostile(listed):
        # names that need escaping in the Manifest (space, tab, backslash, NEL, U+2028) or are non-ASCII
        if listed == 'all':
            items = [_F(p) for p in sorted(HOSTILE)]
        elif listed == 'stale':
            items = [('E', rm.file_entry('DATA', p, b'OLD' + HOSTILE[p], H1)) for p in sorted(HOSTILE)]
        else:
            items = []
        return Scenario(HOSTILE, [MSpec(TOP, items)])
    yield 'hostile_names_listed', lambda: hostile('all')
    yield 'hostile_names_stale', lambda: hostile('stale')
    yield 'hostile_names_unlisted', lambda: hostile('none')

    # one file per Unicode whitespace code point (everything str.split() separates on) and a few other control
    # characters: the writer must escape each of them, or the written line re-parses with shifted fields
    WS = [chr(c) for c in range(1, 0x3001) if chr(c).isspace()] + ['\x01', '\x7f', '\x9f']
    HOSTILE_WS = {f'w{c}s': ('ws%04x' % ord(c)).encode() for c in WS}
    # plain neighbours that sort between a raw name ('w s') and its escaped spelling ('w\\x20s'): an ordering that
    # mixes the two spellings is not a consistent order
    HOSTILE_WS.update({'w1s': b'digit', 'w.s': b'dot', 'wZs': b'upper', 'w~s': b'tilde'})

    def hostile_ws(listed):
        items = [_F(p) for p in sorted(HOSTILE_WS)] if listed else []
        return Scenario(HOSTILE_WS, [MSpec(TOP, items)])
    yield 'hostile_ws_listed', lambda: hostile_ws(True)
    yield 'hostile_ws_unlisted', lambda: hostile_ws(False)

    # names that need escaping next to plain names sorting between the raw and the escaped spelling
    ESCN = {'a b': b'space', 'a.txt': b'dot', 'a1': b'digit', 'a~': b'tilde'}
    yield 'escaped_neighbours_unlisted', lambda: Scenario(ESCN, [MSpec(TOP, [])])
    yield 'escaped_neighbours_listed', lambda: Scenario(ESCN, [MSpec(TOP, [_F(p) for p in sorted(ESCN)])])

    def prunable_pairs():
        # two dot-directories and two IGNOREd directories that are neighbours in any sorted listing; the
        # second IGNOREd directory holds a valid Manifest and a symlink loop nobody may ever walk into
        files = dict(B)
        sub = b'DATA k 1 SHA1 ' + __import__('hashlib').sha1(b'k').hexdigest().encode() + b'\n'
        return Scenario(files, [MSpec(TOP, [_F(p) for p in sorted(B)] + [('L', 'IGNORE ign'), ('L', 'IGNORE ign2')])],
                        links={'ign2/loop': '..', 'ign/loop': '..'},
                        raw={'.a/x': b'x', '.b/y': b'y', 'ign/j': b'j', 'ign2/k': b'k', 'ign2/Manifest': sub})
    yield 'prunable_pairs', prunable_pairs

    def tags_rich():
        files = dict(B)
        files.update({'files/aux1': b'aux', 'files/fix-less.patch': b'aux whose name starts with letters of "files"',
                      'p-1.ebuild': b'eb', 'metadata.xml': b'<x/>', 'out/o1': b'outside'})
        return Scenario(files, [
            MSpec(TOP, [_F('f0'), _F('dx/f5'), _F('d.txt'), ('F', 'EBUILD', 'p-1.ebuild', H1), ('F', 'MISC', 'metadata.xml', H1),
                        ('F', 'AUX', 'files/aux1', H1), ('F', 'AUX', 'files/fix-less.patch', H1), _F('g/f3', ('MD5',)), _F('out/o1', ('MD5', 'SHA1')),
                        ('M', 'd/Manifest.gz', H1),
                        ('L', 'DIST a.tar 1 SHA1 ' + 'a' * 40), ('L', 'DIST b.tar 2 SHA1 ' + 'b' * 40),
                        ('L', 'IGNORE ign'), ('L', 'IGNORE ign2'),
                        ('L', 'TIMESTAMP 2017-01-01T00:00:00Z')]),
            MSpec('d/Manifest.gz', [('F', 'MISC', 'd/f1', H1), ('F', 'EBUILD', 'd/e/f2', H1),
                                    ('L', 'DIST c.tar 3 SHA1 ' + 'c' * 40), ('L', 'IGNORE e/ign3'),
                                    # distfile names that coincide with local paths of this Manifest
                                    ('L', 'DIST f1 3 SHA1 ' + 'd' * 40), ('L', 'DIST gone.tar 9 SHA1 ' + 'e' * 40),
                                    ('E', rm.file_entry('DATA', 'gone.tar', b'was here', H1))]),
        ], raw={'ign/junk': b'j'})
    yield 'tags_rich', tags_rich


EDITS = ['none', 'alter_same', 'alter_size', 'delete', 'add', 'add_dir', 'delete_dir', 'alter_two', 'alter_top']


def apply_edit(tree, edit):
    """Edit the data files of a rendered tree in place (Manifests untouched)."""
    if edit == 'none':
        return
    if edit == 'alter_same':
        tree.files['d/f1'] = other_content(tree.files['d/f1'], True)
    elif edit == 'alter_size':
        tree.files['d/f1'] += b'+'
    elif edit == 'delete':
        del tree.files['d/f1']
    elif edit == 'add':
        tree.files['d/new'] = b'new'
    elif edit == 'add_dir':
        tree.files['d/nd/deep'] = b'deep'
    elif edit == 'delete_dir':
        del tree.files['d/e/f2']
    elif edit == 'alter_top':
        tree.files['f0'] = b'ZERO!!'
    elif edit == 'alter_two':
        tree.files['f0'] = b'ZERO!'
        tree.files['d/e/f2'] = b'TWO'
    else:
        raise ValueError(edit)


def data_files(tree):
    """Paths of the tree that are not Manifest files."""
    return sorted(p for p in tree.files if not os.path.basename(p).startswith('Manifest'))
