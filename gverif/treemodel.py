"""Abstract tree + Manifest layout DSL; materialise / snapshot / mutate."""

import bz2
import gzip
import lzma
import os
import shutil
import stat

from gverif import refmanifest as rm

MT = 1500000000          # default mtime of every file (far from "now")
COMPS = (None, 'gz', 'bz2', 'lzma', 'xz')


def compress(data, fmt):
    if fmt is None:
        return data
    if fmt == 'gz':
        return gzip.compress(data, mtime=0)
    if fmt == 'bz2':
        return bz2.compress(data)
    if fmt == 'lzma':
        return lzma.compress(data, format=lzma.FORMAT_ALONE)
    if fmt == 'xz':
        return lzma.compress(data, format=lzma.FORMAT_XZ)
    raise ValueError(fmt)


def decompress(data, fmt):
    if fmt is None:
        return data
    if fmt == 'gz':
        return gzip.decompress(data)
    if fmt == 'bz2':
        return bz2.decompress(data)
    if fmt == 'lzma':
        return lzma.decompress(data, format=lzma.FORMAT_ALONE)
    if fmt == 'xz':
        return lzma.decompress(data, format=lzma.FORMAT_XZ)
    raise ValueError(fmt)


def comp_of(name):
    for c in ('gz', 'bz2', 'lzma', 'xz'):
        if name.endswith('.' + c):
            return c
    return None


def mname(d, comp=None, base='Manifest'):
    n = base + ('.' + comp if comp else '')
    return os.path.join(d, n) if d else n


class Tree:
    """files: path->bytes; links: path->target; dirs: explicit (possibly
    empty) directories; mtimes: path->int seconds (default MT)."""

    def __init__(self, files=None, links=None, dirs=None, mtimes=None):
        self.files = dict(files or {})
        self.links = dict(links or {})
        self.dirs = set(dirs or ())
        self.mtimes = dict(mtimes or {})

    def clone(self):
        return Tree(self.files, self.links, self.dirs, self.mtimes)

    def all_dirs(self):
        ds = set(self.dirs)
        for p in list(self.files) + list(self.links):
            d = os.path.dirname(p)
            while d:
                ds.add(d)
                d = os.path.dirname(d)
        for d in list(ds):
            d = os.path.dirname(d)
            while d:
                ds.add(d)
                d = os.path.dirname(d)
        return ds

    def write(self, root):
        os.makedirs(root, exist_ok=True)
        for d in sorted(self.all_dirs()):
            os.makedirs(os.path.join(root, d), exist_ok=True)
        for p, data in self.files.items():
            fp = os.path.join(root, p)
            with open(fp, 'wb') as f:
                f.write(data)
            mt = self.mtimes.get(p, MT)
            os.utime(fp, (mt, mt))
        for p, tgt in self.links.items():
            os.symlink(tgt, os.path.join(root, p))

    def to_json(self):
        return {'files': dict(self.files), 'links': dict(self.links),
                'dirs': sorted(self.dirs), 'mtimes': dict(self.mtimes)}

    @classmethod
    def from_json(cls, j):
        return cls(j.get('files'), j.get('links'), j.get('dirs'), j.get('mtimes'))

    def key(self):
        return (tuple(sorted(self.files.items())), tuple(sorted(self.links.items())),
                tuple(sorted(self.dirs)), tuple(sorted(self.mtimes.items())))


def wipe(root):
    """Empty the directory ``root`` (create it when missing)."""
    if os.path.lexists(root):
        for name in os.listdir(root):
            p = os.path.join(root, name)
            if os.path.isdir(p) and not os.path.islink(p):
                shutil.rmtree(p)
            else:
                os.unlink(p)
    else:
        os.makedirs(root)


def snapshot(root, with_mtime=True):
    """path -> ('f', bytes, mtime_ns) | ('l', target) | ('d',) using lstat only."""
    out = {}
    stack = ['']
    while stack:
        rel = stack.pop()
        full = os.path.join(root, rel) if rel else root
        with os.scandir(full) as it:
            ents = list(it)
        for e in ents:
            r = os.path.join(rel, e.name) if rel else e.name
            st = e.stat(follow_symlinks=False)
            if stat.S_ISLNK(st.st_mode):
                out[r] = ('l', os.readlink(e.path))
            elif stat.S_ISDIR(st.st_mode):
                out[r] = ('d',)
                stack.append(r)
            elif stat.S_ISREG(st.st_mode):
                with open(e.path, 'rb') as f:
                    data = f.read()
                out[r] = ('f', data, st.st_mtime_ns if with_mtime else 0)
            else:
                out[r] = ('o', stat.S_IFMT(st.st_mode))
    return out


# --------------------------------------------------------------------------
# Manifest layouts


class MSpec:
    """One Manifest file of a layout.

    path : path of the Manifest file relative to the root (incl. compression
           suffix); items is a list of
      ('F', tag, fullpath, hashes)          entry for the tree file ``fullpath``
      ('M', child_manifest_path, hashes)    MANIFEST entry for another MSpec
      ('E', entry_tuple)                    literal reference entry (path relative
                                            to this Manifest's directory)
      ('L', text_line)                      literal line (no newline)
    """

    def __init__(self, path, items):
        self.path = path
        self.items = list(items)

    @property
    def dir(self):
        return os.path.dirname(self.path)


def rel_to(full, d):
    if not d:
        return full
    assert full.startswith(d + '/'), (full, d)
    return full[len(d) + 1:]


def render_layout(tree, specs):
    """Write the Manifest files described by ``specs`` into ``tree.files``
    (children before parents) using the reference writer.  Returns the dict
    manifest path -> uncompressed text."""
    by_path = {s.path: s for s in specs}
    texts = {}

    def render(path, stack=()):
        if path in texts:
            return
        assert path not in stack, f'cyclic layout {stack + (path,)}'
        s = by_path[path]
        lines = []
        for it in s.items:
            if it[0] == 'F':
                _k, tag, full, hashes = it
                p = rel_to(full, s.dir)
                if tag == 'AUX':
                    p = rel_to(p, 'files')
                lines.append(rm.entry_line(rm.file_entry(tag, p, tree.files[full], hashes)))
            elif it[0] == 'M':
                _k, child, hashes = it
                if child in by_path:
                    render(child, stack + (path,))
                lines.append(rm.entry_line(rm.file_entry(
                    'MANIFEST', rel_to(child, s.dir), tree.files[child], hashes)))
            elif it[0] == 'E':
                lines.append(rm.entry_line(it[1]))
            elif it[0] == 'L':
                lines.append(it[1])
            else:
                raise ValueError(it)
        text = ''.join(x + '\n' for x in lines)
        texts[path] = text
        tree.files[path] = compress(text.encode('utf8'), comp_of(os.path.basename(path)))

    for s in specs:
        render(s.path)
    return texts


def simple_layout(tree, hashes=('SHA1',), tag='DATA', top='Manifest', extra=()):
    """Single top-level Manifest covering every file of the tree."""
    items = [('F', tag, p, hashes) for p in sorted(tree.files)
             if p != top]
    items += list(extra)
    return [MSpec(top, items)]
