"""Ebuild-repository-shaped trees (DESIGN.md section 2, "Repository shapes"); shared by C19 and C20.

A *shape* is a small JSON-able dict

    {'cats': [[pkg, pkg, ...], ...],   one list per category listed in profiles/categories;
                                       pkg = sorted list of per-package component names
     'repo': [component, ...],         sorted repository-level component names
     'odd':  [name, ...]}              optional look-alike extras (see ODD)

build(shape, seed, require_dirs=False) -> gverif.treemodel.Tree.  The *space* of shapes never
depends on the seed; the seed only rotates category/package names and file contents.

Per-package components (PKG):  e1 = <pkg>-1.ebuild, e2 = <pkg>-2.ebuild, meta = metadata.xml,
    fx = files/x, fy = files/sub/y, man = pre-existing Manifest holding one DIST line.
Repository-level components (REPO):
    eclass    eclass/e.eclass, eclass/tests/t          licenses  licenses/L
    profiles  profiles/p, profiles/sub/q   (profiles/categories itself always exists)
    layout    metadata/layout.conf                      tschk     metadata/timestamp.chk
    dtd glsa news xmlschema   metadata/{dtd/d, glsa/g, news/n, xml-schema/s}
    md5cache  metadata/md5-cache/<cat>/<pkg>-1 for every package
    distfiles distfiles/d, distfiles/sub/metadata.xml   (a directory wanting a Manifest that only
              exists inside a tree IGNOREd by default)
    local     local/c/p/p-1.ebuild                      packages  packages/k
    nd        <nd>/f        non-category top-level directory without sub-directories
    nd2       <nd2>/sub/f   non-category top-level directory with a sub-directory
    catmeta   metadata.xml in the FIRST category directory (so two-category shapes hold both kinds)
    topfiles  header.txt and skel.ebuild at the top level
A category without packages exists as an empty directory.
"""

import itertools

from gverif.treemodel import Tree

PKG = ('e1', 'e2', 'meta', 'fx', 'fy', 'man')
META = ('layout', 'tschk', 'dtd', 'glsa', 'news', 'xmlschema', 'md5cache')
OTHER = ('eclass', 'licenses', 'profiles', 'distfiles', 'local', 'packages', 'nd', 'nd2', 'catmeta', 'topfiles')
REPO = META + OTHER
IGNORED_TOP = ('distfiles', 'local', 'packages')
# what the fast generator scripts need to exist (C20)
REQUIRED_DIRS = ('eclass', 'licenses', 'profiles', 'metadata', 'metadata/dtd', 'metadata/glsa',
                 'metadata/news', 'metadata/xml-schema', 'metadata/md5-cache')

PKG_FULL = ('e1', 'meta', 'fx')          # the "fixed" package used next to a varying one
# look-alike extras outside the component lists (C19 judges them leniently: only crashes,
# placement of the regular directories and verification)
ODD = ('files_regular',        # <cat0>/<pkg0>/files is a regular file
       'manifest_in_files',    # <cat0>/<pkg0>/files/Manifest exists (empty) beside files/x
       'third_files',          # eclass/tests/files/x : third path component 'files' outside a package
       'deep_ebuild',          # <cat0>/<pkg0>/sub/q.ebuild and <cat0>/<pkg0>/files/z.ebuild
       'hidden',               # .hid/metadata.xml, <cat0>/.hid/metadata.xml, <cat0>/<pkg0>/.hid/h.ebuild
       'pkg_other')            # <cat0>/<pkg0>/ChangeLog (plain DATA in a package directory)

# names chosen so that siblings are string-prefix (not component-prefix) look-alikes of each other
CAT_NAMES = ['app-a', 'app-ab', 'app-abc', 'sys-d']
PKG_NAMES = ['foo', 'foo-doc', 'foo-doc2', 'qux']
ND_NAMES = ['scripts', 'docs', 'zz-extra', 'aa-extra']


def rot(seq, k):
    k %= len(seq)
    return list(seq[k:]) + list(seq[:k])


def names(seed):
    """-> (category names, package names, nd, nd2) for this seed."""
    nds = rot(ND_NAMES, seed)
    return rot(CAT_NAMES, seed), rot(PKG_NAMES, seed // 2 if seed else 0), nds[0], nds[1]


def _c(tag, seed):
    """Small distinct content; seed rotates it; some files are empty."""
    if tag.endswith(':empty') and seed % 2 == 0:
        return b''
    return (tag + '#' + str(seed) + '\n').encode() * (1 + (len(tag) + seed) % 3)


def powerset(items):
    items = list(items)
    for r in range(len(items) + 1):
        for c in itertools.combinations(items, r):
            yield c


def shape(cats, repo=(), odd=()):
    return {'cats': [[sorted(p) for p in c] for c in cats], 'repo': sorted(repo), 'odd': sorted(odd)}


def key(sh):
    return (tuple(tuple(tuple(p) for p in c) for c in sh['cats']), tuple(sh['repo']), tuple(sh.get('odd') or ()))


def has_all_optional(sh):
    """Every repository-level component and, in some package, every per-package component."""
    return set(sh['repo']) >= set(REPO) and any(set(p) >= set(PKG) for c in sh['cats'] for p in c)


def packages(sh, seed):
    """-> list of (cat, pkg, components) with concrete names."""
    cn, pn, _nd, _nd2 = names(seed)
    out = []
    for ci, c in enumerate(sh['cats']):
        for pi, p in enumerate(c):
            out.append((cn[ci], pn[pi], tuple(p)))
    return out


def categories(sh, seed):
    cn = names(seed)[0]
    return [cn[i] for i in range(len(sh['cats']))]


def build(sh, seed=0, require_dirs=False):
    cn, pn, nd, nd2 = names(seed)
    files, dirs = {}, set()
    repo = set(sh['repo'])
    cats = categories(sh, seed)
    files['profiles/categories'] = ''.join(c + '\n' for c in cats).encode()
    for ci, c in enumerate(sh['cats']):
        cat = cn[ci]
        dirs.add(cat)
        for pi, comps in enumerate(c):
            pkg = pn[pi]
            d = f'{cat}/{pkg}'
            dirs.add(d)
            comps = set(comps)
            if 'e1' in comps:
                files[f'{d}/{pkg}-1.ebuild'] = _c(f'ebuild1 {d}', seed)
            if 'e2' in comps:
                files[f'{d}/{pkg}-2.ebuild'] = _c(f'ebuild2 {d}:empty', seed)
            if 'meta' in comps:
                files[f'{d}/metadata.xml'] = _c(f'<pkgmetadata {d}/>', seed)
            if 'fx' in comps:
                files[f'{d}/files/x'] = _c(f'patch {d}', seed)
            if 'fy' in comps:
                files[f'{d}/files/sub/y'] = _c(f'sub {d}:empty', seed)
            if 'man' in comps:
                files[f'{d}/Manifest'] = (f'DIST {pkg}-1.tar.gz {100 + seed} SHA512 ' + 'ab' * 64 + '\n').encode()
            if 'md5cache' in repo:
                files[f'metadata/md5-cache/{cat}/{pkg}-1'] = _c(f'cache {d}', seed)
    if 'eclass' in repo:
        files['eclass/e.eclass'] = _c('eclass', seed)
        files['eclass/tests/t'] = _c('eclass test', seed)
    if 'licenses' in repo:
        files['licenses/L'] = _c('license', seed)
    if 'profiles' in repo:
        files['profiles/p'] = _c('profile p', seed)
        files['profiles/sub/q'] = _c('profile q:empty', seed)
    if 'layout' in repo:
        files['metadata/layout.conf'] = _c('masters =', seed)
    if 'tschk' in repo:
        files['metadata/timestamp.chk'] = _c('Sat, 03 Oct 2026', seed)
    for comp, p in (('dtd', 'metadata/dtd/d'), ('glsa', 'metadata/glsa/g'), ('news', 'metadata/news/n'),
                    ('xmlschema', 'metadata/xml-schema/s')):
        if comp in repo:
            files[p] = _c(p, seed)
    if 'distfiles' in repo:
        files['distfiles/d'] = _c('distfile', seed)
        files['distfiles/sub/metadata.xml'] = _c('inside ignored', seed)
    if 'local' in repo:
        files['local/c/p/p-1.ebuild'] = _c('local ebuild', seed)
    if 'packages' in repo:
        files['packages/k'] = _c('binpkg', seed)
    if 'nd' in repo:
        files[f'{nd}/f'] = _c('nd f', seed)
    if 'nd2' in repo:
        files[f'{nd2}/sub/f'] = _c('nd2 f', seed)
    if 'catmeta' in repo and sh['cats']:
        files[f'{cn[0]}/metadata.xml'] = _c('<catmetadata/>', seed)
    if 'topfiles' in repo:
        files['header.txt'] = _c('# header', seed)
        files['skel.ebuild'] = _c('# skel', seed)
    odd = set(sh.get('odd') or ())
    if odd:
        c0, p0 = cn[0], pn[0]
        d = f'{c0}/{p0}'
        if 'files_regular' in odd:
            files[f'{d}/files'] = _c('files as a file', seed)
        if 'manifest_in_files' in odd:
            files[f'{d}/files/Manifest'] = b''
            files.setdefault(f'{d}/files/x', _c(f'patch {d}', seed))
        if 'third_files' in odd:
            files['eclass/tests/files/x'] = _c('eclass tests files', seed)
        if 'deep_ebuild' in odd:
            files[f'{d}/sub/q.ebuild'] = _c('deep q', seed)
            files[f'{d}/files/z.ebuild'] = _c('deep z', seed)
        if 'dotdirs' in odd:
            # ordinary (non-dot) files inside dot-directories: never covered by the reference implementation
            files['.git/config'] = _c('dot top', seed)
            files['eclass/.cache/readme.txt'] = _c('dot eclass', seed)
            files[f'{d}/.idea/workspace.xml'] = _c('dot pkg', seed)
            files[f'{d}/files/.svn/entries'] = _c('dot files', seed)
            files['metadata/glsa/.git/x'] = _c('dot glsa', seed)
        if 'hidden' in odd:
            files['.hid/metadata.xml'] = _c('hidden top', seed)
            files[f'{c0}/.hid/metadata.xml'] = _c('hidden cat', seed)
            files[f'{d}/.hid/h.ebuild'] = _c('hidden pkg', seed)
        if 'pkg_other' in odd:
            files[f'{d}/ChangeLog'] = _c('changelog', seed)
    if require_dirs:
        dirs.update(REQUIRED_DIRS)
    return Tree(files, dirs=dirs)


# ---------------------------------------------------------------------------------------------
# enumerated families.  Every function returns a list of (family-name, shape); duplicates across
# families are removed by the caller through key().

def fam_packages(layouts, repo_settings, fixed=PKG_FULL, positions='first'):
    """One varying package (every subset of PKG), the others fixed."""
    out = []
    for (nc, npk), repo in itertools.product(layouts, repo_settings):
        if nc == 0 or npk == 0:
            continue
        if positions == 'first':
            pos = [(0, 0)]
        elif positions == 'corners':
            pos = sorted({(0, 0), (nc - 1, npk - 1)})
        else:
            pos = [(ci, pi) for ci in range(nc) for pi in range(npk)]
        for (vc, vp), sub in itertools.product(pos, powerset(PKG)):
            cats = [[(sub if (ci, pi) == (vc, vp) else fixed) for pi in range(npk)] for ci in range(nc)]
            out.append(('pkg', shape(cats, repo)))
    return out


def fam_alike(max_c, max_p, repo_settings):
    """All packages alike: every subset of PKG on every nc x np grid (incl. 0 categories and
    categories without packages)."""
    out = []
    for nc, npk, repo in itertools.product(range(max_c + 1), range(max_p + 1), repo_settings):
        subs = list(powerset(PKG)) if nc and npk else [()]
        for sub in subs:
            out.append(('alike', shape([[sub] * npk for _ in range(nc)], repo)))
    return out


def fam_meta(other_settings, cats=((PKG_FULL,),)):
    return [('meta', shape(cats, tuple(m) + tuple(o))) for m, o in itertools.product(powerset(META), other_settings)]


def fam_other(meta_settings, cats=((PKG_FULL,),)):
    return [('other', shape(cats, tuple(m) + tuple(o))) for o, m in itertools.product(powerset(OTHER), meta_settings)]


def fam_repo_full(cats=((PKG_FULL,),)):
    """Every subset of the 16 repository-level components other than topfiles (2^16), topfiles present."""
    return [('repo', shape(cats, r + ('topfiles',))) for r in powerset([x for x in REPO if x != 'topfiles'])]


def fam_odd(repo_settings):
    out = []
    for o, repo in itertools.product(ODD, repo_settings):
        for sub in (('e1',), ('e1', 'meta', 'fx'), ()):
            if o == 'files_regular' and ('fx' in sub or 'fy' in sub):
                continue
            if o == 'third_files' and sub != ('e1',):
                continue
            out.append(('odd', shape([[sub, PKG_FULL]], repo, (o,))))
    return out


def dedup(fams):
    seen, out = set(), []
    for name, sh in fams:
        k = key(sh)
        if k in seen:
            continue
        seen.add(k)
        out.append((name, sh))
    return out


NONE, ALL = (), REPO


def shapes(tier):
    """The C19 space.  quick:
         pkg   : layouts {1,2}x{1,2}, first package varies over all 64 subsets, others = (e1,meta,fx),
                 repository level in {nothing, everything}                                  -> 512
         alike : 0..2 x 0..2 grids, all packages alike over the 64 subsets, repo in {nothing, everything}
         meta  : all 128 subsets of the 7 metadata components x other components {none, all}  -> 256
         other : all 1024 subsets of the 10 other components x metadata {none, all}          -> 2048
         odd   : look-alike extras
       thorough: the quick families plus pkg on 1..4 x 1..4 with the varying package at every position of the
         4x4 grid (first/last elsewhere), alike on 0..4 x 0..4, and every one of the 2^16 subsets of the
         repository-level components other than topfiles."""
    if tier == 'quick':
        fams = (fam_packages([(1, 1), (1, 2), (2, 1), (2, 2)], [NONE, ALL])
                + fam_alike(2, 2, [NONE, ALL])
                + fam_meta([(), OTHER]) + fam_other([(), META])
                + fam_odd([NONE, ALL]))
    else:
        lay = [(a, b) for a in range(1, 5) for b in range(1, 5)]
        fams = (fam_packages([l for l in lay if l != (4, 4)], [NONE, ALL], positions='corners')
                + fam_packages([(4, 4)], [NONE, ALL], positions='all')
                + fam_alike(4, 4, [NONE, ALL])
                + fam_meta([(), OTHER]) + fam_other([(), META])
                + fam_repo_full()
                + fam_odd([NONE, ALL]))
    return dedup(fams)


def c20_eligible(sh):
    return not (set(sh['repo']) & set(IGNORED_TOP)) and not (set(sh.get('odd') or ()) - {'dotdirs'})


C20_OPT = ('md5cache', 'layout', 'tschk', 'nd', 'nd2', 'catmeta', 'profiles')
C20_BASE = ('eclass', 'licenses', 'dtd', 'glsa', 'news', 'xmlschema', 'topfiles')


def shapes_c20(tier):
    """The C20 space (built with require_dirs=True; never holds distfiles/local/packages).
       quick : pkg family on layouts {1,2}x{1,2} restricted to 16 package subsets
               ({e1,e2,meta} x {fx} x {fy}... see code) x repo in {base, base+all optional}
               + every subset of the 7 optional repository components on 1x1
               + alike grids 0..2 x 0..2 for 4 package kinds (empty categories included)
               + content components (eclass, licenses, dtd, glsa, news, xmlschema, topfiles) each absent once
       thorough: all 64 package subsets, layouts up to 4x4 (alike) and corners."""
    base = C20_BASE
    # nd2 puts step (3) of C20 outside the statement, so it only varies in the 'opt' family (and one 'all' shape)
    full = C20_BASE + tuple(x for x in C20_OPT if x != 'nd2')
    out = [('all', shape([[PKG, PKG_FULL], [PKG_FULL]], C20_BASE + C20_OPT))]
    # non-dot files inside dot-directories (package, files/, eclass, metadata/glsa, top level)
    out.append(('dot', shape([[PKG, PKG_FULL]], full, ('dotdirs',))))
    out.append(('dot', shape([[('e1', 'fx')]], base, ('dotdirs',))))
    if tier == 'quick':
        subs = [s for s in powerset(PKG) if 'e2' not in s]         # 32 subsets (e2 behaves like e1)
        for (nc, npk), repo in itertools.product([(1, 1), (2, 2)], [base, full]):
            for sub in subs:
                cats = [[(sub if (ci, pi) == (0, 0) else PKG_FULL) for pi in range(npk)] for ci in range(nc)]
                out.append(('pkg', shape(cats, repo)))
        kinds = [(), ('e1',), ('e1', 'e2', 'meta', 'fx', 'fy', 'man'), ('fx',)]
        for nc, npk in itertools.product(range(3), range(3)):
            for sub in (kinds if nc and npk else [()]):
                out.append(('alike', shape([[sub] * npk for _ in range(nc)], full)))
        for opt in powerset(C20_OPT):
            out.append(('opt', shape([[PKG_FULL]], base + tuple(opt))))
        for drop in C20_BASE:
            out.append(('drop', shape([[PKG_FULL, ('e1', 'man')]], tuple(x for x in full if x != drop))))
    else:
        for (nc, npk), repo in itertools.product([(1, 1), (1, 2), (2, 1), (2, 2)], [base, full]):
            for sub in powerset(PKG):
                cats = [[(sub if (ci, pi) == (0, 0) else PKG_FULL) for pi in range(npk)] for ci in range(nc)]
                out.append(('pkg', shape(cats, repo)))
        for nc, npk in itertools.product(range(5), range(5)):
            subs = list(powerset(PKG)) if (nc and npk and nc * npk <= 4) else (
                [(), ('e1',), ('e1', 'e2', 'meta', 'fx', 'fy', 'man'), ('fx',)] if nc and npk else [()])
            for sub in subs:
                out.append(('alike', shape([[sub] * npk for _ in range(nc)], full)))
        for opt, drop in itertools.product(powerset(C20_OPT), [None] + list(C20_BASE)):
            out.append(('opt', shape([[PKG_FULL, ('e1', 'man')]],
                                     tuple(x for x in base if x != drop) + tuple(opt))))
    return dedup(out)
