"""Statistics aggregation, evidence JSON, known-findings matching, replay files."""

import collections
import hashlib
import json
import os

VERIF = os.path.dirname(os.path.dirname(os.path.abspath(__file__)))
EVIDENCE_DIR = os.path.join(VERIF, 'evidence')
REPLAY_DIR = os.path.join(VERIF, 'replays')
KNOWN_FINDINGS = os.path.join(VERIF, 'known_findings.json')

OK = 'OK'
VIOLATION = 'VIOLATION'
DONT_CARE = 'DONT_CARE'


def digest(obj):
    """Stable 8-byte digest of a JSON-able / repr-able canonical object."""
    if not isinstance(obj, (bytes, bytearray)):
        obj = repr(obj).encode('utf8', 'surrogatepass')
    return hashlib.blake2b(obj, digest_size=8).digest()


def jsonable(x):
    if isinstance(x, (bytes, bytearray)):
        try:
            return {'__bytes__': bytes(x).decode('ascii')}
        except UnicodeDecodeError:
            return {'__hex__': bytes(x).hex()}
    if isinstance(x, dict):
        return {str(k): jsonable(v) for k, v in x.items()}
    if isinstance(x, (list, tuple, set, frozenset)):
        xs = list(x)
        if isinstance(x, (set, frozenset)):
            xs = sorted(xs, key=repr)
        return [jsonable(v) for v in xs]
    if isinstance(x, (str, int, float, bool)) or x is None:
        return x
    return repr(x)


def unjson(x):
    if isinstance(x, dict):
        if set(x) == {'__bytes__'}:
            return x['__bytes__'].encode('ascii')
        if set(x) == {'__hex__'}:
            return bytes.fromhex(x['__hex__'])
        return {k: unjson(v) for k, v in x.items()}
    if isinstance(x, list):
        return [unjson(v) for v in x]
    return x


class TooManyViolations(Exception):
    """Raised by Stats.violation once a shard has produced ABORT_AFTER violations: exploring further
    only costs time (some broken trees get slower with every call).  Carries the partial statistics."""

    def __init__(self, stats):
        super().__init__('too many violations in one shard')
        self.stats = stats


class Stats:
    """Per-shard / per-run counters; mergeable; picklable."""

    ABORT_AFTER = 100       # violations NOT covered by a known finding, per shard
    KNOWN = None            # set by the runner in worker processes: sig -> bool

    MAX_SAMPLES = 6
    PER_SIG = 2
    MAX_SIGS = 400

    def __init__(self):
        self.evaluations = 0          # executions of real code under harness
        self.transitions = 0          # real operations executed
        self.compared = 0             # executions judged against the reference (not DONT_CARE)
        self.states = set()           # digests of canonical case descriptors
        self.nontrivial = set()       # digests of non-trivial distinct cases
        self.outcomes = collections.Counter()   # outcome classes observed
        self.dontcare = collections.Counter()   # don't-care reasons
        self.counters = collections.Counter()   # free-form extra counters
        self.samples = []
        self.violations = []          # dicts: {'sig':…, 'case':…, 'message':…}
        self.notes = []
        self.capped = False

    def case(self, desc, nontrivial=False):
        d = digest(desc)
        self.states.add(d)
        if nontrivial:
            self.nontrivial.add(d)
        return d

    def sample(self, s):
        if len(self.samples) < self.MAX_SAMPLES:
            self.samples.append(jsonable(s))

    def violation(self, sig, case, message):
        """Keep at most PER_SIG examples per distinct signature (and at most
        MAX_SIGS signatures); every call is counted."""
        self.counters['violations_raw'] += 1
        sig = jsonable(sig)
        key = json.dumps(sig, sort_keys=True)
        n = sum(1 for v in self.violations if v['key'] == key)
        distinct = len({v['key'] for v in self.violations})
        if not (n >= self.PER_SIG or (n == 0 and distinct >= self.MAX_SIGS)):
            self.violations.append({'key': key, 'sig': sig, 'case': jsonable(case),
                                    'message': message})
        if Stats.KNOWN is not None and Stats.KNOWN(sig):
            self.counters['violations_known_raw'] += 1
        if (self.counters['violations_raw'] - self.counters['violations_known_raw'] >= self.ABORT_AFTER
                and not self.capped):
            self.capped = True
            self.notes.append(f'a shard stopped after {self.ABORT_AFTER} violations; the rest of it was not explored')
            raise TooManyViolations(self)

    def merge(self, o):
        self.evaluations += o.evaluations
        self.transitions += o.transitions
        self.compared += o.compared
        self.states |= o.states
        self.nontrivial |= o.nontrivial
        self.outcomes.update(o.outcomes)
        self.dontcare.update(o.dontcare)
        self.counters.update(o.counters)
        for s in o.samples:
            if len(self.samples) < self.MAX_SAMPLES:
                self.samples.append(s)
        for v in o.violations:
            n = sum(1 for w in self.violations if w['key'] == v['key'])
            distinct = len({w['key'] for w in self.violations})
            if n >= self.PER_SIG or (n == 0 and distinct >= self.MAX_SIGS):
                continue
            self.violations.append(v)
        self.notes.extend(n for n in o.notes if n not in self.notes)
        self.capped = self.capped or o.capped


def load_known_findings():
    try:
        with open(KNOWN_FINDINGS) as f:
            return json.load(f)
    except FileNotFoundError:
        return []


def _match_value(pat, val):
    if isinstance(pat, list):
        return any(_match_value(p, val) for p in pat)
    if isinstance(pat, dict) and 'contains' in pat:
        return isinstance(val, str) and pat['contains'] in val
    if isinstance(pat, dict) and 'eq' in pat:
        return pat['eq'] == val
    return pat == val


def match_known(pid, sig, findings):
    """Return the first *known* (not fixed) finding whose matcher covers sig."""
    for f in findings:
        if f.get('status') != 'known' or f.get('property') != pid:
            continue
        m = f.get('match') or {}
        if m and all(k in sig and _match_value(v, sig[k]) for k, v in m.items()):
            return f
    return None


def write_replay(pid, n, violation):
    os.makedirs(REPLAY_DIR, exist_ok=True)
    p = os.path.join(REPLAY_DIR, f'{pid}-{n}.json')
    with open(p, 'w') as f:
        json.dump({'property': pid, **violation}, f, indent=1, sort_keys=True)
    return p


def write_evidence(pid, tier, seed, level, stats, wall_s, rule, assumptions,
                   n_violations, extra=None, exhaustive=True):
    os.makedirs(EVIDENCE_DIR, exist_ok=True)
    cov = {
        'evaluations': stats.evaluations,
        'distinct_nontrivial': len(stats.nontrivial),
        'rule': rule,
        'samples': stats.samples or ['<none>'],
        'states': len(stats.states),
        'transitions': stats.transitions,
        'traces_validated_against_impl': stats.compared,
        'exhaustive': bool(exhaustive and not stats.capped),
        'outcome_classes': dict(sorted(stats.outcomes.items())),
        'distinct_outcomes': len(stats.outcomes),
        'dont_care': dict(sorted(stats.dontcare.items())),
        'counters': dict(sorted(stats.counters.items())),
        'notes': stats.notes,
    }
    if level == 'translation_validation':
        cov['programs'] = stats.counters.get('programs', 0)
        cov['disagreements_checked'] = stats.compared
    if extra:
        cov.update(extra)
    ev = {
        'property_id': pid,
        'tier': tier,
        'seed': seed,
        'level': level,
        'coverage': cov,
        'assumptions': assumptions,
        'wall_s': round(wall_s, 3),
        'violations': n_violations,
    }
    p = os.path.join(EVIDENCE_DIR, f'{pid}.json')
    tmp = p + '.tmp'
    with open(tmp, 'w') as f:
        json.dump(ev, f, indent=1, sort_keys=True)
    os.replace(tmp, p)
    return p
