"""Thin wrappers that run the real gemato (library and CLI) in-process and
turn whatever happens into a plain, comparable observation."""

import contextlib
import io
import logging
import os
import sys

import gemato.cli
import gemato.exceptions as gx
from gemato.recursiveloader import ManifestRecursiveLoader


class _Collect(logging.Handler):
    def __init__(self):
        super().__init__(level=logging.DEBUG)
        self.records = []
        self.infos = []

    def emit(self, record):
        try:
            msg = record.getMessage()
        except Exception as e:           # formatting error inside gemato's log call
            msg = f'<log formatting failed: {e!r}>'
        # gemato logs exception OBJECTS (logging.error(e)); keep what the contract exposes about them so that
        # harnesses need not parse message wording
        obj = record.msg if isinstance(record.msg, BaseException) else None
        info = None
        if obj is not None:
            info = {'exc': type(obj).__name__, 'path': getattr(obj, 'path', None),
                    'diff': [tuple(d) for d in getattr(obj, 'diff', [])] if hasattr(obj, 'diff') else None}
        self.records.append((record.levelname, msg))
        self.infos.append(info)


_handler = _Collect()
_root = logging.getLogger()
_root.addHandler(_handler)
_root.setLevel(logging.INFO)


def classify_exc(e):
    """Observation for an escaping exception."""
    o = {'kind': 'exc', 'exc': type(e).__name__}
    if isinstance(e, gx.GematoException):
        o['class'] = 'gemato'
        if isinstance(e, gx.ManifestMismatch):
            o['path'] = e.path
            o['diff'] = [tuple(d) for d in e.diff]
        elif isinstance(e, (gx.ManifestCrossDevice, gx.ManifestSymlinkLoop)):
            o['path'] = e.path
    elif isinstance(e, OSError):
        o['class'] = 'oserror'
        o['errno'] = e.errno
        o['filename'] = e.filename if isinstance(e.filename, (str, type(None))) else repr(e.filename)
    elif isinstance(e, SystemExit):
        o['class'] = 'exit'
        o['code'] = e.code
    else:
        o['class'] = 'internal'
        tb = e.__traceback__
        last = None
        while tb is not None:
            fn = tb.tb_frame.f_code.co_filename
            if '/gemato/' in fn:
                last = (os.path.basename(fn), tb.tb_frame.f_code.co_name)
            tb = tb.tb_next
        o['where'] = '%s:%s' % last if last else 'outside-gemato'
        o['msg'] = str(e)[:200]
    return o


def call(fn, *a, **kw):
    """Run fn; -> {'kind': 'ret', 'value': …} or classify_exc(…)."""
    try:
        return {'kind': 'ret', 'value': fn(*a, **kw)}
    except BaseException as e:          # noqa: BLE001 - observation, not handling
        if isinstance(e, (KeyboardInterrupt, MemoryError)):
            raise
        return classify_exc(e)


def loader(root, top='Manifest', **kw):
    return ManifestRecursiveLoader(os.path.join(root, top), **kw)


def lib_verify(root, top='Manifest', path='', init=None, **kw):
    def go():
        m = loader(root, top, **(init or {}))
        return m.assert_directory_verifies(path, **kw)
    return call(go)


def cli(argv, cwd=None):
    """Run gemato.cli.main(['gemato'] + argv) -> observation with 'log'."""
    _handler.records = []
    _handler.infos = []
    _root.setLevel(logging.INFO)
    old = os.getcwd() if cwd else None
    out, err = io.StringIO(), io.StringIO()
    try:
        if cwd:
            os.chdir(cwd)
        with contextlib.redirect_stdout(out), contextlib.redirect_stderr(err):
            o = call(gemato.cli.main, ['gemato'] + list(argv))
    finally:
        if old:
            os.chdir(old)
    o['log'] = list(_handler.records)
    o['log_info'] = list(_handler.infos)     # parallel to o['log']: None or {'exc','path','diff'} of a logged exception
    o['stdout'] = out.getvalue()
    o['stderr'] = err.getvalue()
    if o['kind'] == 'ret':
        o['exit'] = o['value']
    elif o.get('class') == 'exit':
        o['exit'] = o['code']
    else:
        o['exit'] = None
    _handler.records = []
    return o


def brief(o):
    """Short hashable outcome class."""
    if o['kind'] == 'ret':
        v = o['value']
        return f'ret:{v!r}' if isinstance(v, (bool, int, type(None))) else 'ret:obj'
    if o.get('class') == 'oserror':
        return f'exc:{o["exc"]}:{o.get("errno")}'
    return f'exc:{o["exc"]}'
