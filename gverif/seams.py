"""Environment seams (monkeypatches owned by the harness; no source hooks in /repo)."""

import builtins
import contextlib
import errno
import os
import sys


class _ScandirIter:
    def __init__(self, entries):
        self._it = iter(entries)

    def __iter__(self):
        return self

    def __next__(self):
        return next(self._it)

    def __enter__(self):
        return self

    def __exit__(self, *a):
        return False

    def close(self):
        pass


@contextlib.contextmanager
def scandir_order(order_fn):
    """order_fn(dirpath, names) -> names in the order the walk shall see them."""
    orig = os.scandir

    def wrapped(path='.'):
        with orig(path) as it:
            ents = list(it)
        by = {e.name: e for e in ents}
        names = order_fn(os.fspath(path), sorted(by))
        assert sorted(names) == sorted(by), (names, sorted(by))
        return _ScandirIter([by[n] for n in names])
    os.scandir = wrapped
    try:
        yield
    finally:
        os.scandir = orig


def order_sorted(_d, names):
    return names


def order_reversed(_d, names):
    return names[::-1]


# ---------------------------------------------------------------- write audit

_WRITE_EVENTS = {'os.remove', 'os.rename', 'os.mkdir', 'os.rmdir', 'os.truncate', 'os.utime',
                 'os.chmod', 'os.chown', 'os.symlink', 'os.link', 'shutil.move', 'shutil.copyfile',
                 'shutil.rmtree', 'os.replace', 'os.unlink'}
_audit_state = {'on': False, 'events': [], 'installed': False, 'root': None}


def _audit(event, args):
    st = _audit_state
    if not st['on']:
        return
    if event == 'open':
        path, mode, flags = args
        if not isinstance(path, (str, bytes)):
            return
        if isinstance(path, bytes):
            path = os.fsdecode(path)
        wflags = os.O_WRONLY | os.O_RDWR | os.O_CREAT | os.O_TRUNC | os.O_APPEND
        if (flags & wflags) and (st['root'] is None or path.startswith(st['root'])):
            st['events'].append(('open-write', path))
    elif event in _WRITE_EVENTS:
        p = args[0] if args else None
        if isinstance(p, bytes):
            p = os.fsdecode(p)
        if isinstance(p, str) and (st['root'] is None or p.startswith(st['root'])):
            st['events'].append((event, p))


@contextlib.contextmanager
def write_audit(root=None):
    """Collect write-type audit events (open for writing, unlink, rename, mkdir,
    utime, …) on paths beneath ``root`` while the block runs."""
    st = _audit_state
    if not st['installed']:
        sys.addaudithook(_audit)
        st['installed'] = True
    st['events'] = []
    st['root'] = root
    st['on'] = True
    try:
        yield st['events']
    finally:
        st['on'] = False


# ---------------------------------------------------------------- I/O faults

class Faults:
    """Numbers every environment call an execution makes and can fail the k-th
    one (transient) or every call touching a given object (persistent).

    Intercepted: os.open, os.stat, os.fstat, os.scandir (open + each next),
    DirEntry.is_dir / is_symlink via proxy entries, builtins.open (and the reads
    of the object it returns, through a raw proxy), os.listdir is left alone
    (gemato does not use it)."""

    def __init__(self, root, fail_at=None, err=errno.EIO, persistent_path=None, modules=()):
        self.root = root
        self.fail_at = fail_at
        self.err = err
        self.persistent = persistent_path
        self.calls = []          # (kind, relpath)
        self.fired = []
        self._orig = {}
        self._fdpath = {}
        self.enabled = True

    # -- bookkeeping
    def _rel(self, path):
        if isinstance(path, int):
            path = self._fdpath.get(path, f'<fd{path}>')
        path = os.fspath(path)
        if isinstance(path, bytes):
            path = os.fsdecode(path)
        ap = os.path.normpath(os.path.join(os.getcwd(), path))
        if ap == self.root:
            return ''
        if ap.startswith(self.root + '/'):
            return ap[len(self.root) + 1:]
        return None

    def _point(self, kind, path):
        rel = self._rel(path)
        if rel is None or not self.enabled:
            return
        idx = len(self.calls)
        self.calls.append((kind, rel))
        hit = False
        fa = self.fail_at
        if fa is not None and (idx == fa if isinstance(fa, int) else idx in fa):
            hit = True
        if self.persistent is not None and (rel == self.persistent):
            hit = True
        if hit:
            self.fired.append((idx, kind, rel))
            raise OSError(self.err, os.strerror(self.err), os.path.join(self.root, rel))

    # -- wrappers
    def __enter__(self):
        o = self._orig
        o['open'], o['stat'], o['fstat'], o['scandir'] = os.open, os.stat, os.fstat, os.scandir
        o['bopen'] = builtins.open
        F = self

        def w_open(path, flags, mode=0o777, *, dir_fd=None):
            F._point('os.open', path)
            fd = o['open'](path, flags, mode, dir_fd=dir_fd)
            if F._rel(path) is not None:
                F._fdpath[fd] = os.fspath(path)
            return fd

        def w_stat(path, *, dir_fd=None, follow_symlinks=True):
            F._point('os.stat', path)
            return o['stat'](path, dir_fd=dir_fd, follow_symlinks=follow_symlinks)

        def w_fstat(fd):
            if fd in F._fdpath:
                F._point('os.fstat', fd)
            return o['fstat'](fd)

        class Entry:
            __slots__ = ('_e',)

            def __init__(self, e):
                self._e = e

            name = property(lambda s: s._e.name)
            path = property(lambda s: s._e.path)

            def is_dir(self, *, follow_symlinks=True):
                if self._e.is_symlink():
                    F._point('DirEntry.is_dir', self._e.path)
                return self._e.is_dir(follow_symlinks=follow_symlinks)

            def is_file(self, *, follow_symlinks=True):
                return self._e.is_file(follow_symlinks=follow_symlinks)

            def is_symlink(self):
                return self._e.is_symlink()

            def stat(self, *, follow_symlinks=True):
                F._point('DirEntry.stat', self._e.path)
                return self._e.stat(follow_symlinks=follow_symlinks)

            def inode(self):
                return self._e.inode()

            def __fspath__(self):
                return self._e.path

        class Iter:
            def __init__(self, path, ents):
                self.path, self.ents, self.i = path, ents, 0

            def __iter__(self):
                return self

            def __next__(self):
                F._point('scandir.next', self.path)
                if self.i >= len(self.ents):
                    raise StopIteration
                e = self.ents[self.i]
                self.i += 1
                return Entry(e)

            def __enter__(self):
                return self

            def __exit__(self, *a):
                return False

            def close(self):
                pass

        def w_scandir(path='.'):
            F._point('os.scandir', path)
            with o['scandir'](path) as it:
                ents = sorted(it, key=lambda e: e.name)
            return Iter(path, ents)

        def w_bopen(file, mode='r', *a, **kw):
            if isinstance(file, int):
                name = F._fdpath.get(file)
            else:
                name = file
            tracked = name is not None and F._rel(name) is not None
            if tracked and not isinstance(file, int):
                F._point('open', file)
            f = o['bopen'](file, mode, *a, **kw)
            if tracked and 'w' not in mode and 'a' not in mode and '+' not in mode:
                return _wrap_reader(F, f, name, mode, kw)
            return f

        os.open, os.stat, os.fstat, os.scandir = w_open, w_stat, w_fstat, w_scandir
        builtins.open = w_bopen
        return self

    def __exit__(self, *a):
        o = self._orig
        os.open, os.stat, os.fstat, os.scandir = o['open'], o['stat'], o['fstat'], o['scandir']
        builtins.open = o['bopen']
        return False


def _wrap_reader(F, f, name, mode, kw):
    """Re-wrap an opened file so that each raw read is a fault point."""
    import io
    raw = f
    # dig out the raw FileIO
    text = isinstance(f, io.TextIOWrapper)
    buf = f.buffer if text else f
    rawio = buf.raw if isinstance(buf, io.BufferedReader) else buf

    class Raw(io.RawIOBase):
        def readable(self):
            return True

        def fileno(self):
            return rawio.fileno()

        def readinto(self, b):
            F._point('read', name)
            return rawio.readinto(b)

        def seekable(self):
            return rawio.seekable()

        def seek(self, *a):
            return rawio.seek(*a)

        def tell(self):
            return rawio.tell()

        def close(self):
            if not self.closed:
                try:
                    # detach the originals so that closing them twice is harmless
                    raw.close()
                finally:
                    super().close()

        @property
        def name(self):
            return rawio.name

        @property
        def mode(self):
            return 'rb'
    nb = io.BufferedReader(Raw())
    if text:
        return io.TextIOWrapper(nb, encoding=kw.get('encoding') or f.encoding,
                                errors=kw.get('errors'), newline=kw.get('newline'))
    return nb


# ---------------------------------------------------------------- clock

_clock_epoch = [1600000000.0]


@contextlib.contextmanager
def fake_time(step=1.0):
    """time.time() under harness control: every activation starts 1000 s after
    the previous one and every call advances by ``step`` — so anything that leaks
    the wall clock into written bytes (e.g. a gzip header) differs between two
    runs deterministically instead of only across second boundaries."""
    import time
    orig = time.time
    _clock_epoch[0] += 1000.0
    now = [_clock_epoch[0]]

    def fake():
        now[0] += step
        return now[0]
    time.time = fake
    try:
        yield
    finally:
        time.time = orig



class PopenLike:
    """The part of subprocess.Popen's interface a scripted process must offer so that the code under test may use
    ANY reasonable way of driving a child process (context manager, returncode after communicate()/wait(), poll(),
    kill(), the stream attributes) - not just the calls the pinned gemato happens to make.  Sub-classes provide
    communicate() and wait() and keep ``returncode`` up to date."""
    returncode = None
    stdin = stdout = stderr = None
    pid = 4242
    args = ()

    def __enter__(self):
        return self

    def __exit__(self, exc_type, exc, tb):
        if self.returncode is None:
            try:
                self.wait()
            except Exception:          # noqa: BLE001
                pass
        return False

    def poll(self):
        return self.returncode

    def kill(self):
        pass

    terminate = kill

    def send_signal(self, sig):
        pass
