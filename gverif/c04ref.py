"""Reference acceptor for C04, written from the property statement and RFC 4880
section 7 (cleartext signature framework) — not from gemato.manifest.

A document is a sequence of line classes plus a final-newline flag.

    unsigned  := (blank | entry)*
    signed    := blank* BEGIN-SIGNED header* blank body* BEGIN-SIGNATURE sigline* END-SIGNATURE blank*
    body      := blank | entry | "- " entry          (dash-escaped, RFC 4880 7.1)

Statement: non-blank content before / after the signed block is unsigned data;
truncated or misplaced armor is a syntax error; nothing in the armor headers or
the signature block is an entry; exactly BEGIN-SIGNED .. END-SIGNATURE is what
is verified.

Three points are arguable, so every document is judged under each combination
of readings that it actually touches:

  ws    an armor line followed by whitespace is a mere look-alike (strict) or IS
        the armor line (RFC 4880 6.2 allows trailing whitespace)
  opq   what header* and sigline* may contain: only armor-header / base64 text
        (strict) or anything up to the terminating line, left for the OpenPGP
        implementation to judge (opaque)
  nonl  an END line that is the unterminated last line of the file is truncated
        armor (strict) or fine
"""

import collections
import re

from gverif import refmanifest as rm

SB_LINE = '-----BEGIN PGP SIGNED MESSAGE-----'
GB_LINE = '-----BEGIN PGP SIGNATURE-----'
GE_LINE = '-----END PGP SIGNATURE-----'

# line classes
SB, GB, GE, SBW, GBW, GEW, OA, BL, WS, HD, VE, DVE, DAR, JK = range(14)
NCLASS = 14
CLASS_NAMES = ('SB', 'GB', 'GE', 'SB+ws', 'GB+ws', 'GE+ws', 'ARMOR', 'blank', 'ws', 'hdr/b64',
               'entry', '- entry', '- armor', 'junk')

# roles a line can play for the acceptor
R_SB, R_GB, R_GE, R_ARM, R_BLANK, R_HD, R_VE, R_DVE, R_DAR, R_JK = range(10)
_ROLE_STRICT = (R_SB, R_GB, R_GE, R_ARM, R_ARM, R_ARM, R_ARM, R_BLANK, R_BLANK, R_HD, R_VE, R_DVE, R_DAR, R_JK)
_ROLE_WSARM = (R_SB, R_GB, R_GE, R_SB, R_GB, R_GE, R_ARM, R_BLANK, R_BLANK, R_HD, R_VE, R_DVE, R_DAR, R_JK)

SYN = 'ManifestSyntaxError'
UNS = 'ManifestUnsignedData'

DEFECTS = ('unsigned_junk', 'armor_without_block', 'outside_entry', 'outside_junk', 'outside_armor',
           'bad_header', 'truncated_in_headers', 'truncated_in_body', 'truncated_in_signature',
           'end_line_unterminated', 'body_armor', 'body_junk', 'bad_sigline', 'header_armor', 'sig_armor')

AX_WS, AX_OPQ, AX_NONL = 1, 2, 4
AXIS_REASON = {AX_WS: 'armor line with trailing whitespace (look-alike or armor?)',
               AX_OPQ: 'content of armor headers / signature block (strict or opaque?)',
               AX_NONL: 'END line without final newline (truncated or fine?)'}

# block_text: the BEGIN-SIGNED .. END-SIGNATURE text of the first signed block when that block is
# well-formed in itself (whatever stands before / after it), else None.  text: what MUST be handed
# to verification (kind VS) / what MAY be (kind INV with framing_ok: only the signed body is wrong).
Verdict = collections.namedtuple('Verdict', 'kind entries text allowed framing_ok defects touched pos block_text')


class Alphabet:
    pass


_ALPHA = {}


def alphabet(seed):
    """Concrete representative of every line class; the seed only rotates presentation."""
    s = seed % 3
    if s in _ALPHA:
        return _ALPHA[s]
    tw = (' ', '\t', ' \t')[s]
    ve = ('DATA a 0', 'MISC ab 1 SHA1 da39a3ee5e6b4b0d3255bfef95601890afd80709', 'IGNORE q.x')[s]
    dve = ('DATA b 0', 'EBUILD b\\x20c 2 MD5 d41d8cd98f00b204e9800998ecf8427e', 'TIMESTAMP 2017-10-22T18:06:41Z')[s]
    hd = ('Hash: SHA256', 'iQEzBAEBCAAdFiEE=', 'Comment: x')[s]
    ws = (' \t', ' ', '\t\t ')[s]
    jk = ('foo bar', 'data a 0', 'DATA')[s]
    dar = (SB_LINE, GB_LINE, GE_LINE)[s]
    oa = ('-----BEGIN PGP MESSAGE-----', '-----END PGP MESSAGE-----', '-----BEGIN PGP PUBLIC KEY BLOCK-----')[s]
    A = Alphabet()
    A.lines = (SB_LINE, GB_LINE, GE_LINE, SB_LINE + tw, GB_LINE + tw, GE_LINE + tw, oa, '', ws, hd,
               ve, '- ' + dve, '- ' + dar, jk)
    A.lines_nl = tuple(ln + '\n' for ln in A.lines)
    # ground the class roles in the reference Manifest parser, not in assumptions
    st, e = rm.parse(ve)
    assert st == 'ok' and len(e) == 1, (ve, st, e)
    A.e_ve = e[0]
    st, e = rm.parse(dve)
    assert st == 'ok' and len(e) == 1 and e[0] != A.e_ve, (dve, st, e)
    A.e_dve = e[0]
    for c in (HD, DVE, DAR, JK, SB, GB, GE, SBW, GBW, GEW, OA):
        assert rm.parse(A.lines[c])[0] == 'reject', A.lines[c]       # none of them is an entry as written
    assert rm.parse(dar)[0] == 'reject'                                # nor is an un-escaped armor line
    for c in (BL, WS):
        assert rm.parse(A.lines[c]) == ('ok', [])
    A.hd_is_header = bool(re.match(r'^[A-Za-z][A-Za-z0-9-]*: \S', hd))   # RFC 4880 6.2 "Key: Value"
    _ALPHA[s] = A
    return A


def show(A, seq, final_nl):
    t = ''.join(A.lines_nl[c] for c in seq)
    if seq and not final_nl:
        t = t[:-1]
    return '[' + ' | '.join(CLASS_NAMES[c] for c in seq) + ('' if final_nl or not seq else ' (no final newline)') + '] ' + repr(t)


def nontrivial(seq):
    for c in seq:
        if c <= OA or c == DVE or c == DAR:
            return True
    return False


def _outside(r, defects, allowed):
    """A line outside the signed block."""
    if r == R_BLANK:
        return
    allowed.add(UNS)
    if r == R_VE:
        defects.append('outside_entry')
    elif r in (R_SB, R_GB, R_GE, R_ARM):
        defects.append('outside_armor')
        allowed.add(SYN)
    else:
        defects.append('outside_junk')
        allowed.add(SYN)


def scan(A, seq, final_nl, ws_arm, opaque, nonl_fine):
    roles = _ROLE_WSARM if ws_arm else _ROLE_STRICT
    r = [roles[c] for c in seq]
    n = len(r)
    touched = 0
    for c in seq:
        if SBW <= c <= GEW:
            touched = AX_WS
            break
    defects = []
    allowed = set()
    entries = []
    try:
        i0 = r.index(R_SB)
    except ValueError:
        i0 = -1
    if i0 < 0:
        # no signed block at all
        armor = content = False
        pos = ['U'] * n
        for x in r:
            if x == R_BLANK:
                continue
            if x == R_VE:
                entries.append(A.e_ve)
                content = True
            elif x in (R_GB, R_GE, R_ARM):
                armor = True
            else:
                defects.append('unsigned_junk')
                content = True
        if armor:
            defects.append('armor_without_block')
        if not defects:
            return Verdict('VU', entries, None, frozenset(), True, (), touched, pos, None)
        allowed.add(SYN)
        if armor and content:
            allowed.add(UNS)        # generous: a signature was attempted and there is content it cannot cover
        return Verdict('INV', None, None, frozenset(allowed), False, tuple(defects), touched, pos, None)

    pos = ['pre'] * i0 + ['SB']
    for x in r[:i0]:
        _outside(x, defects, allowed)
    framing_ok = not defects
    block_ok = True
    e = -1
    k = i0 + 1
    # armor headers up to the first blank line
    while k < n and r[k] != R_BLANK:
        if r[k] in (R_SB, R_GB, R_GE, R_ARM):
            # an armor(-like) line among the armor headers is misplaced armor under every reading
            # (statement: "truncated or misplaced armor is rejected as a syntax error")
            defects.append('header_armor')
            framing_ok = block_ok = False
        elif not (r[k] == R_HD and A.hd_is_header):
            touched |= AX_OPQ
            if not opaque:
                defects.append('bad_header')
                framing_ok = block_ok = False
        pos.append('hdr')
        k += 1
    if k >= n:
        defects.append('truncated_in_headers')
        framing_ok = block_ok = False
    else:
        pos.append('sep')
        k += 1
        # signed cleartext up to the signature armor
        while k < n and r[k] != R_GB:
            x = r[k]
            if x == R_VE:
                entries.append(A.e_ve)
            elif x == R_DVE:
                entries.append(A.e_dve)
            elif x == R_BLANK:
                pass
            elif x in (R_SB, R_GE, R_ARM):
                defects.append('body_armor')
                framing_ok = block_ok = False
            else:       # header text, junk, or a dash-escaped armor line: signed, but not a Manifest entry
                defects.append('body_junk')
            pos.append('body')
            k += 1
        if k >= n:
            defects.append('truncated_in_body')
            framing_ok = block_ok = False
        else:
            pos.append('GB')
            k += 1
            while k < n and r[k] != R_GE:
                if r[k] in (R_SB, R_GB, R_ARM):
                    # likewise: armor(-like) lines inside the signature block are misplaced armor
                    defects.append('sig_armor')
                    framing_ok = block_ok = False
                elif r[k] not in (R_HD, R_BLANK):
                    touched |= AX_OPQ
                    if not opaque:
                        defects.append('bad_sigline')
                        framing_ok = block_ok = False
                pos.append('sig')
                k += 1
            if k >= n:
                defects.append('truncated_in_signature')
                framing_ok = block_ok = False
            else:
                e = k
                pos.append('GE')
                if e == n - 1 and not final_nl:
                    touched |= AX_NONL
                    if not nonl_fine:
                        defects.append('end_line_unterminated')
                        framing_ok = block_ok = False
                for x in r[e + 1:]:
                    pos.append('post')
                    if x != R_BLANK:
                        framing_ok = False
                    _outside(x, defects, allowed)
    text = None
    if e >= 0:
        text = ''.join(A.lines_nl[c] for c in seq[i0:e + 1])
        if e == n - 1 and not final_nl:
            text = text[:-1]
    if not defects:
        return Verdict('VS', entries, text, frozenset(), True, (), touched, pos, text)
    for d in defects:
        if d not in ('outside_entry', 'outside_junk', 'outside_armor'):
            allowed.add(SYN)
            break
    return Verdict('INV', entries, text if framing_ok else None, frozenset(allowed), framing_ok,
                   tuple(defects), touched, pos, text if block_ok else None)


def readings(A, seq, final_nl):
    """-> ([Verdict, ...] strict reading first, dontcare_reason | None)."""
    v0 = scan(A, seq, final_nl, False, False, False)
    if not v0.touched:
        return [v0], None
    done = {0: v0}
    work = [0]
    while work:
        rd = work.pop()
        t = done[rd].touched
        for ax in (AX_WS, AX_OPQ, AX_NONL):
            if t & ax:
                nr = rd ^ ax
                if nr not in done:
                    done[nr] = scan(A, seq, final_nl, bool(nr & AX_WS), bool(nr & AX_OPQ), bool(nr & AX_NONL))
                    work.append(nr)
    vs = [done[k] for k in sorted(done)]
    accept = [v.kind != 'INV' for v in vs]
    if all(accept) or not any(accept):
        return vs, None
    # which axes make the difference
    axes = 0
    for k in done:
        for ax in (AX_WS, AX_OPQ, AX_NONL):
            if (k ^ ax) in done and (done[k].kind != 'INV') != (done[k ^ ax].kind != 'INV'):
                axes |= ax
    return vs, ' + '.join(AXIS_REASON[ax] for ax in (AX_WS, AX_OPQ, AX_NONL) if axes & ax)


def reachable_refpos(L):
    """(position, class) pairs the strict reading can label in documents of <= L lines."""
    out = set()
    allc = set(range(NCLASS))
    blank = {BL, WS}
    if L >= 1:
        out |= {('U', c) for c in allc - {SB}}
        out.add(('SB', SB))
    if L >= 2:
        out |= {('pre', c) for c in allc - {SB}}
        out |= {('hdr', c) for c in allc - blank}
        out |= {('sep', c) for c in blank}
    if L >= 3:
        out |= {('body', c) for c in allc - {GB}}
        out.add(('GB', GB))
    if L >= 4:
        out |= {('sig', c) for c in allc - {GE}}
        out.add(('GE', GE))
    if L >= 5:
        out |= {('post', c) for c in allc}
    return out
