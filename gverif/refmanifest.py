"""Reference Manifest grammar (GLEP 74), written independently of gemato.manifest.

parse(text) -> ('ok', entries) | ('reject', reason) | ('dontcare', reason)
parse_ex(text) -> the same plus a third element: for 'reject' the dict
    {'line': index, 'fields': [...]} of the first rejected line, else None

Entries are plain tuples:
  ('TIMESTAMP', 'YYYY-MM-DDTHH:MM:SSZ')
  ('IGNORE', path)
  (tag, path, size, ((hashname, value), ...sorted))   tag in FILE_TAGS; for AUX
                                                       path is the path as written
                                                       (without the files/ prefix)
"""

import datetime
import hashlib
import re

FILE_TAGS = ('MANIFEST', 'DATA', 'DIST', 'EBUILD', 'MISC', 'AUX')
ALL_TAGS = ('TIMESTAMP', 'IGNORE') + FILE_TAGS

# what each Manifest hash name denotes (independent table; GLEP 74 / hashlib docs)
HASHES = {
    'MD5': lambda: hashlib.md5(),
    'SHA1': lambda: hashlib.sha1(),
    'SHA256': lambda: hashlib.sha256(),
    'SHA512': lambda: hashlib.sha512(),
    'RMD160': lambda: hashlib.new('ripemd160'),
    'WHIRLPOOL': lambda: hashlib.new('whirlpool'),
    'BLAKE2B': lambda: hashlib.blake2b(),
    'BLAKE2S': lambda: hashlib.blake2s(),
    'SHA3_256': lambda: hashlib.sha3_256(),
    'SHA3_512': lambda: hashlib.sha3_512(),
}


class RefError(Exception):
    pass


def hexdigest(name, data):
    h = HASHES[name]()
    h.update(data)
    return h.hexdigest()


def available(name):
    try:
        HASHES[name]()
        return True
    except (KeyError, ValueError):
        return False


_ASCII_WS = ' \t\r\n\x0b\x0c'


def needs_escape(c):
    o = ord(c)
    return c == '\\' or o < 0x20 or 0x7f <= o <= 0x9f or c.isspace()


def escape_path(path):
    out = []
    for c in path:
        if needs_escape(c):
            o = ord(c)
            if o <= 0x7f:
                out.append('\\x%02X' % o)
            elif o <= 0xffff:
                out.append('\\u%04X' % o)
            else:
                out.append('\\U%08X' % o)
        else:
            out.append(c)
    return ''.join(out)


_HEX = '0123456789abcdefABCDEF'


def unescape_path(s):
    """-> ('ok', path) | ('reject', why) | ('dontcare', why)"""
    out = []
    i = 0
    n = len(s)
    dontcare = None
    while i < n:
        c = s[i]
        if c != '\\':
            out.append(c)
            i += 1
            continue
        if i + 1 >= n:
            return ('reject', 'dangling backslash')
        k = s[i + 1]
        width = {'x': 2, 'u': 4, 'U': 8}.get(k)
        if width is None:
            return ('reject', 'unknown escape')
        digs = s[i + 2:i + 2 + width]
        if len(digs) != width or any(d not in _HEX for d in digs):
            return ('reject', 'short or non-hex escape')
        v = int(digs, 16)
        if v > 0x10ffff:
            return ('reject', 'escape value out of Unicode range')
        if 0xd800 <= v <= 0xdfff and not 0xdc80 <= v <= 0xdcff:
            # a surrogate code point is not a Unicode character; only U+DC80..U+DCFF occur in paths at all
            # (Python's surrogateescape spelling of an undecodable file-name byte) and must round-trip
            return ('reject', 'surrogate escape that is not a surrogateescape byte')
        out.append(chr(v))
        i += 2 + width
    p = ''.join(out)
    if dontcare:
        return ('dontcare', dontcare)
    return ('ok', p)


_TS_CANON = re.compile(r'^(\d{4})-(\d{2})-(\d{2})T(\d{2}):(\d{2}):(\d{2})Z$', re.A)
_TS_LENIENT = re.compile(r'^\d{1,4}-\d{1,2}-\d{1,2}T\d{1,2}:\d{1,2}:\d{1,2}Z$', re.A)
# the same shape written with non-ASCII decimal digits and/or lower-case t/z: whether
# that is "malformed" is arguable (RFC 3339 allows lower case; the size field has the
# same don't-care for non-ASCII digits)
_TS_ARGUABLE = re.compile(r'^\d{1,4}-\d{1,2}-\d{1,2}[Tt]\d{1,2}:\d{1,2}:\d{1,2}[Zz]$')
_SIZE_OK = re.compile(r'^[0-9]+$', re.A)


def _path_shape_dontcare(p):
    comps = p.split('/')
    if p.endswith('/') or '' in comps or '.' in comps or '..' in comps:
        return 'non-normalised path'
    if '\x00' in p:
        return 'NUL in path'
    return None


def parse_line(fields):
    """fields: non-empty list of str -> ('ok', entry) | ('reject', why) | ('dontcare', why)"""
    tag = fields[0]
    if tag not in ALL_TAGS:
        return ('reject', 'unknown tag')
    if tag == 'TIMESTAMP':
        if len(fields) != 2:
            return ('reject', 'TIMESTAMP field count')
        m = _TS_CANON.match(fields[1])
        if not m:
            if _TS_LENIENT.match(fields[1]):
                return ('dontcare', 'non-canonical timestamp digits')
            if _TS_ARGUABLE.match(fields[1]):
                return ('dontcare', 'timestamp with non-ASCII digits or lower-case t/z')
            return ('reject', 'malformed timestamp')
        y, mo, d, h, mi, s = (int(x) for x in m.groups())
        if s in (60, 61):
            return ('dontcare', 'leap second')
        try:
            datetime.datetime(y, mo, d, h, mi, s)
        except ValueError:
            return ('reject', 'timestamp out of range')
        return ('ok', ('TIMESTAMP', fields[1]))
    dc = None
    if tag == 'IGNORE':
        if len(fields) != 2:
            return ('reject', 'IGNORE field count')
    elif len(fields) < 3:
        return ('reject', 'too few fields')
    st, p = unescape_path(fields[1])
    if st == 'reject':
        return (st, p)
    if st == 'dontcare':
        dc = p
    else:
        if p == '':
            return ('reject', 'empty path')
        if p.startswith('/'):
            return ('reject', 'absolute path')
        if tag == 'DIST' and '/' in p:
            return ('reject', 'DIST with slash')
        dc = _path_shape_dontcare(p)
    if tag == 'IGNORE':
        if dc:
            return ('dontcare', dc)
        return ('ok', ('IGNORE', p))
    sz = fields[2]
    if _SIZE_OK.match(sz):
        try:
            size = int(sz)
        except ValueError:
            # only possible cause for a pure ASCII digit string: CPython's
            # int<->str conversion length limit (4300 digits by default)
            dc = dc or 'size literal longer than the interpreter int conversion limit'
            size = None
    elif sz.startswith('-'):
        try:
            zero = int(sz) == 0
        except ValueError:
            zero = False
        if not zero:
            return ('reject', 'negative or malformed size')
        # "-0", "-00", "-0_0": numeric and not negative, but hardly a size
        dc = dc or 'minus zero size'
        size = None
    else:
        try:
            int(sz)
        except ValueError:
            return ('reject', 'non-numeric size')
        dc = dc or 'unusual integer literal for size'
        size = None
    rest = fields[3:]
    if len(rest) % 2:
        return ('reject', 'checksum name without value')
    names = rest[0::2]
    if len(set(names)) != len(names):
        dc = dc or 'duplicate checksum name'
    if dc:
        return ('dontcare', dc)
    cks = tuple(sorted(zip(names, rest[1::2])))
    return ('ok', (tag, p, size, cks))


def split_fields(line):
    """-> list of fields, or None when the line contains whitespace-like
    characters outside ASCII space/tab (splitting is then arguable)."""
    s = line.strip(_ASCII_WS)
    for c in s:
        if c not in ' \t' and (c.isspace() or c in '\x1c\x1d\x1e\x1f\x85  '):
            return None
    return s.split()


def parse_ex(text):
    """Unsigned Manifest text -> (verdict, payload, info) (see module doc)."""
    entries = []
    dc = None
    if '\r' in text.replace('\r\n', ''):
        dc = 'bare CR'
    for n, line in enumerate(text.split('\n')):
        if line.endswith('\r'):
            line = line[:-1]
        f = split_fields(line)
        if f is None:
            dc = dc or 'non-ASCII whitespace in line'
            continue
        if not f:
            continue
        st, e = parse_line(f)
        if st == 'reject':
            return ('reject', e, {'line': n, 'fields': f})
        if st == 'dontcare':
            dc = dc or e
        else:
            entries.append(e)
    if dc:
        return ('dontcare', dc, None)
    return ('ok', entries, None)


def parse(text):
    """Unsigned Manifest text -> verdict (see module doc)."""
    return parse_ex(text)[:2]


def entry_line(e):
    if e[0] == 'TIMESTAMP':
        return f'TIMESTAMP {e[1]}'
    if e[0] == 'IGNORE':
        return f'IGNORE {escape_path(e[1])}'
    tag, p, size, cks = e
    parts = [tag, escape_path(p), str(size)]
    for k, v in sorted(cks):
        parts += [k, v]
    return ' '.join(parts)


def write(entries):
    return ''.join(entry_line(e) + '\n' for e in entries)


def file_entry(tag, path_in_manifest, data, hashes):
    """Reference entry for content ``data``."""
    return (tag, path_in_manifest, len(data),
            tuple(sorted((h, hexdigest(h, data)) for h in hashes)))


def from_gemato(e):
    """Convert a gemato entry object into the reference tuple form."""
    if e.tag == 'TIMESTAMP':
        t = e.ts
        return ('TIMESTAMP', '%04d-%02d-%02dT%02d:%02d:%02dZ' % (
            t.year, t.month, t.day, t.hour, t.minute, t.second))
    if e.tag == 'IGNORE':
        return ('IGNORE', e.path)
    p = e.aux_path if e.tag == 'AUX' else e.path
    return (e.tag, p, e.size, tuple(sorted(e.checksums.items())))


def full_path(tag, p):
    return 'files/' + p if tag == 'AUX' else p
