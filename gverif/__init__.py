"""gverif: bounded-exhaustive model checking harnesses for gemato (see /verif/DESIGN.md)."""
