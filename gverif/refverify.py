"""Reference verdict for "does this tree match its Manifests" (C01/C02/C03/C07…).

Independent restatement of the property sentence: reads the real disk with
plain os calls and the reference parser; never imports gemato.
"""

import os
import stat

from gverif import refmanifest as rm
from gverif.treemodel import comp_of, decompress

COMPAT_TAGS = ('MANIFEST', 'DATA', 'EBUILD', 'AUX')


def comp_prefix(path, prefix):
    """Whole-path-component prefix test."""
    return prefix == '' or path == prefix or path.startswith(prefix + '/')


def _join(d, p):
    return d + '/' + p if d else p


class Verdict:
    def __init__(self):
        self.kind = None              # match | mismatch | incompatible | soft | dontcare
        self.offenders = {}           # relpath -> reason
        self.soft = set()             # offenders that the mtime shortcut may skip
        self.dc = []                  # don't-care reasons
        self.chain_broken = []        # sub-Manifests failing their MANIFEST entry
        self.conflicts = []           # paths with conflicting duplicate entries
        self.enotdir = []             # entries beneath a regular file
        self.manifests = {}           # mpath -> entries (reference tuples)
        self.entries = {}             # fullpath -> merged (tags, size, cks dict)
        self.ignores = set()
        self.multi = {}               # fullpath -> number of file entries when > 1
        self.oserror = []             # objects the reference itself cannot stat (e.g. ELOOP)

    def __repr__(self):
        return (f'Verdict({self.kind}, offenders={self.offenders}, soft={self.soft}, '
                f'dc={self.dc}, chain={self.chain_broken}, conflicts={self.conflicts})')


def read_manifest(root, mpath):
    """-> ('ok', entries) | ('reject', why) | ('dontcare', why) | ('missing', None)"""
    full = os.path.join(root, mpath)
    try:
        with open(full, 'rb') as f:
            raw = f.read()
    except FileNotFoundError:
        return ('missing', None)
    except OSError as e:
        return ('dontcare', f'cannot read Manifest: {e.errno}')
    try:
        raw = decompress(raw, comp_of(os.path.basename(mpath)))
    except Exception:
        return ('dontcare', 'corrupt compressed Manifest')
    try:
        text = raw.decode('utf8')
    except UnicodeDecodeError:
        return ('dontcare', 'not UTF-8')
    if '-----BEGIN PGP' in text:
        return ('dontcare', 'signed Manifest (handled by C04/C05 harnesses)')
    return rm.parse(text)


def file_state(root, rel):
    """-> ('absent',) | ('enotdir',) | ('reg', size, mtime, bytes) | ('other', kind)"""
    full = os.path.join(root, rel)
    try:
        st = os.stat(full)
    except FileNotFoundError:
        return ('absent',)
    except NotADirectoryError:
        # a path beneath something that is a regular file now: for a LISTED path this is a missing file like any other
        # (entry_matches: 'missing' - it must be reported as a mismatch, a raw ENOTDIR may not end a keep-going
        # scan); for an unlisted path single-path verification may pass or hand on the ENOTDIR (expected_path_verify)
        return ('enotdir',)
    except OSError as e:
        return ('other', f'errno{e.errno}')
    if stat.S_ISREG(st.st_mode):
        with open(full, 'rb') as f:
            data = f.read()
        return ('reg', len(data), st.st_mtime, data)
    if stat.S_ISDIR(st.st_mode):
        return ('other', 'dir')
    return ('other', 'special')


def entry_matches(state, size, cks):
    """state from file_state; -> None when matching else a reason string,
    or ('dontcare', why)"""
    if state[0] == 'absent':
        return 'missing'
    if state[0] == 'enotdir':
        return 'missing'
    if state[0] == 'other':
        return 'type:' + state[1]
    _k, rsize, _mt, data = state
    if rsize != size:
        return 'size'
    for h, v in cks.items():
        if h not in rm.HASHES or not rm.available(h):
            return ('dontcare', f'hash {h} unknown or unavailable')
        if rm.hexdigest(h, data) != v:
            return 'digest:' + h
    return None


def load_chain(root, top, path, v, recursive=True):
    """Fill v.manifests with every Manifest relevant for ``path`` that is
    reachable from ``top`` through MANIFEST entries, checking each against the
    entry that references it.  Sub-Manifests failing the check are recorded in
    v.chain_broken and *not* loaded (nothing in them may be used)."""
    st, ents = read_manifest(root, top)
    if st != 'ok':
        v.dc.append(f'top-level Manifest: {st} {ents}')
        return
    v.manifests[top] = ents
    todo = [top]
    while todo:
        cur = todo.pop(0)
        d = os.path.dirname(cur)
        for e in v.manifests[cur]:
            if e[0] != 'MANIFEST':
                continue
            mp = os.path.normpath(_join(d, e[1])) if ('..' in e[1].split('/') or './' in e[1]) else _join(d, e[1])
            md = os.path.dirname(mp)
            if not (comp_prefix(path, md) or (recursive and comp_prefix(md, path))):
                continue
            if mp in v.manifests or mp in v.chain_broken or mp == cur:
                continue
            why = entry_matches(file_state(root, mp), e[2], dict(e[3]))
            if isinstance(why, tuple):
                v.dc.append(why[1])
                continue
            if why is not None:
                v.chain_broken.append(mp)
                continue
            st, sub = read_manifest(root, mp)
            if st == 'ok':
                v.manifests[mp] = sub
                todo.append(mp)
            elif st == 'reject':
                v.dc.append(f'sub-Manifest {mp} is syntactically invalid')
            else:
                v.dc.append(f'sub-Manifest {mp}: {st} {sub}')


def collect(v, path):
    """Merge file entries of all loaded Manifests beneath ``path``."""
    groups = {}
    for mp, ents in v.manifests.items():
        d = os.path.dirname(mp)
        for e in ents:
            if e[0] in ('TIMESTAMP', 'DIST'):
                continue
            rel = rm.full_path(e[0], e[1])
            full = _join(d, rel)
            if not comp_prefix(full, path):
                continue
            groups.setdefault(full, []).append((e, mp))
    for full, lst in groups.items():
        tags = [e[0] for e, _ in lst]
        if 'IGNORE' in tags:
            if any(t != 'IGNORE' for t in tags):
                v.dc.append('IGNORE and file entry for one path')
            v.ignores.add(full)
            continue
        if len(lst) > 1:
            v.multi[full] = len(lst)
        size = lst[0][0][2]
        cks = {}
        conflict = False
        for e, _mp in lst:
            if e[2] != size:
                conflict = True
            for h, val in e[3]:
                if h in cks and cks[h] != val:
                    conflict = True
                cks.setdefault(h, val)
        type_incompat = any(t not in COMPAT_TAGS for t in tags) and len(set(tags)) > 1
        if type_incompat:
            if conflict:
                v.conflicts.append(full)
            else:
                v.dc.append('type-incompatible duplicate tags with identical data')
        elif conflict:
            v.conflicts.append(full)
        v.entries[full] = (tags, size, cks)
    for full in v.entries:
        for ig in v.ignores:
            if full != ig and comp_prefix(full, ig):
                v.dc.append('file entry beneath an IGNOREd path')


def walk(root, path, top, v, on_file, on_dir_entry):
    """Reference walk: follow directory symlinks, skip hidden names and
    IGNOREd paths.  Calls on_file(rel, state) for every non-directory found and
    on_dir_entry(rel) for directories that have a (non-IGNORE) file entry."""
    start = os.path.join(root, path) if path else root
    seen_dirs = 0
    stack = [path]
    while stack:
        rel = stack.pop()
        full = os.path.join(root, rel) if rel else root
        seen_dirs += 1
        if seen_dirs > 10000:
            v.dc.append('walk too large / looping')
            return
        try:
            names = sorted(os.listdir(full))
        except OSError as e:
            v.dc.append(f'cannot list {rel!r}: errno {e.errno}')
            continue
        for n in names:
            r = _join(rel, n)
            if r in v.ignores:
                continue
            if n.startswith('.'):
                continue
            p = os.path.join(full, n)
            if os.path.isdir(p):
                if r in v.entries:
                    on_dir_entry(r)
                else:
                    stack.append(r)
            else:
                if rel == '' and r == top:
                    continue
                on_file(r)


def expected_verify(root, top='Manifest', path='', last_mtime=None):
    v = Verdict()
    path = path.rstrip('/')
    # shape of the verified sub-path itself
    if path:
        comps = path.split('/')
        if any(c.startswith('.') for c in comps):
            v.dc.append('verified sub-path is hidden')
        sp = os.path.join(root, path)
        if not os.path.isdir(sp):
            v.dc.append('verified sub-path is not a directory')
    load_chain(root, top, path, v)
    if not v.manifests:
        v.kind = 'dontcare'
        return v
    collect(v, path)
    # is the verified path inside an IGNOREd subtree?  (IGNORE entries above
    # it are not part of the collected set, so look at all loaded Manifests)
    if path:
        for mp, ents in v.manifests.items():
            d = os.path.dirname(mp)
            for e in ents:
                if e[0] == 'IGNORE' and comp_prefix(path, _join(d, e[1])):
                    v.dc.append('verified sub-path lies in an IGNOREd subtree')
    for full in list(v.entries) + list(v.ignores):
        comps = full.split('/')
        if '' in comps or '.' in comps or '..' in comps:
            v.dc.append('non-normalised entry path')

    def offend(rel, why):
        v.offenders.setdefault(rel, why)

    covered = set()

    def on_file(rel):
        st = file_state(root, rel)
        if rel in v.entries:
            return      # judged in the entry pass
        if st[0] == 'reg':
            offend(rel, 'stray')
        elif st[0] in ('absent', 'enotdir'):
            # a directory entry that does not lead to anything (target missing, or a component of the target path is
            # a regular file)
            v.dc.append('unlisted broken symlink')
        else:
            if st[0] == 'other' and st[1].startswith('errno'):
                v.oserror.append(rel)
            offend(rel, 'stray:' + st[0])

    def on_dir_entry(rel):
        covered.add(rel)

    if os.path.isdir(os.path.join(root, path) if path else root):
        walk(root, path, top, v, on_file, on_dir_entry)

    for full, (tags, size, cks) in v.entries.items():
        st = file_state(root, full)
        why = entry_matches(st, size, cks)
        if isinstance(why, tuple):
            v.dc.append(why[1])
            continue
        if why is None:
            continue
        if why == 'enotdir':
            v.enotdir.append(full)
        if why.startswith('type:errno'):
            v.oserror.append(full)
        offend(full, why)
        if (last_mtime is not None and st[0] == 'reg' and st[1] == size
                and st[1] != 0 and st[2] <= last_mtime):
            v.soft.add(full)

    if v.dc:
        v.kind = 'dontcare'
    elif v.chain_broken:
        v.kind = 'mismatch'
    elif v.conflicts:
        v.kind = 'incompatible'
    elif v.offenders:
        v.kind = 'soft' if set(v.offenders) <= v.soft else 'mismatch'
    else:
        v.kind = 'match'
    return v


def expected_path_verify(root, top, path):
    """Reference for single-path verification (assert_path_verifies):
    -> ('pass'|'mismatch'|'dontcare', detail)"""
    v = Verdict()
    load_chain(root, top, path, v, recursive=False)
    if v.dc or not v.manifests:
        return ('dontcare', v.dc[:1])
    if v.chain_broken:
        return ('mismatch', 'chain:' + v.chain_broken[0])
    ignored = False
    found = []
    for mp, ents in v.manifests.items():
        d = os.path.dirname(mp)
        if not comp_prefix(path, d):
            continue
        for e in ents:
            if e[0] in ('TIMESTAMP', 'DIST'):
                continue
            full = _join(d, rm.full_path(e[0], e[1]))
            if e[0] == 'IGNORE':
                if comp_prefix(path, full):
                    ignored = True
            elif full == path:
                found.append(e)
    if ignored and found:
        return ('dontcare', 'IGNORE and file entry both apply')
    if ignored:
        return ('pass', 'ignored')
    st = file_state(root, path)
    if st[0] == 'other' and st[1].startswith('errno'):
        return ('dontcare', 'object cannot be inspected: ' + st[1])
    if not found:
        if st[0] == 'absent':
            return ('pass', 'absent and unlisted')
        if st[0] == 'enotdir':
            return ('dontcare', 'beneath a regular file')
        return ('mismatch', 'stray')
    if len({(e[2], e[3]) for e in found}) > 1:
        return ('dontcare', 'differing duplicate entries (first one found wins)')
    why = entry_matches(st, found[0][2], dict(found[0][3]))
    if isinstance(why, tuple) or why == 'enotdir':
        return ('dontcare', str(why))
    return ('pass', 'matches') if why is None else ('mismatch', why)
