"""C05 — a signature is accepted only if good, valid, trusted, unexpired and unrevoked.

Part A (scripted backend): ``subprocess`` as seen by ``gemato.openpgp`` is replaced by a
shim whose ``Popen`` returns a scripted process, so the REAL ``_spawn_gpg`` and
``verify_file`` run on chosen status output and exit status.  ALL sequences of status
lines of length <= L over gpg's real status vocabulary x exit status {0,1,2} go through
``SystemGPGEnvironment().verify_file``; all sequences of length <= 3 additionally through
``ManifestFile.load``, ``ManifestRecursiveLoader`` and ``gemato verify`` with every
combination of ``-s`` / ``-P``.  The reference predicate is written from the property
statement only (``seq_facts`` / ``expect``).

Part B (real gpg 2.2): key state x owner-trust x entry point matrix, content of the
user's own GNUPGHOME while ``-K`` is in use, every single-byte mutation of a genuinely
signed cleartext body.  All gpg processes started by gemato are recorded at the
``subprocess`` boundary (argv, GNUPGHOME, status output, exit), which also validates the
Part A alphabet against what gpg really emits and the Part A predicate against gpg's
real verdicts.  The user-home family (B2) runs under every constructor option (proxy, debug; constructor and
clone(); CLI --proxy / --debug).

Part E (scripted backend, scripted ``requests``): the isolation clause for every constructor option of
``IsolatedGPGEnvironment`` x every operation that starts a backend process (all operation sequences up to a
bound, ended by close()) x what the process environment exports; EV: the acceptance rule of Part A through an
isolated environment under every option; EC: the ``-K`` command lines with their environment flags; EK (and B2K with real gpg and a populated user home):
the ``-K`` command lines x every spelling of the option (``-K V``, ``-K=V``, ``--openpgp-key V``, ``--openpgp-key=V``)
x what V names (key file, empty string, missing file, directory, empty file).  On EVERY
backend process the GnuPG home it works on must be the environment's own.
"""

import ast
import atexit
import collections
import contextlib
import importlib.util
import io
import itertools
import logging
import os
import shutil
import subprocess
import tempfile

import gemato.exceptions as gx
import gemato.openpgp as gpgmod
from gemato.manifest import ManifestFile
from gemato.openpgp import GNUPG, GNUPGCONF, IsolatedGPGEnvironment, SystemGPGEnvironment
from gemato.recursiveloader import ManifestRecursiveLoader

from gverif import gem, seams
from gverif.common import fresh_root
from gverif.evidence import Stats

PID = 'C05'
LEVEL = 'model_checking'

# ---------------------------------------------------------------- alphabet

NEUTRAL = ('NEWSIG', 'KEY_CONSIDERED', 'SIG_ID')
RESULT = ('GOODSIG', 'BADSIG', 'ERRSIG', 'EXPSIG', 'EXPKEYSIG', 'REVKEYSIG')
TRUST = ('TRUST_UNDEFINED', 'TRUST_NEVER', 'TRUST_MARGINAL', 'TRUST_FULLY', 'TRUST_ULTIMATE')
SUFFICIENT = ('TRUST_MARGINAL', 'TRUST_FULLY', 'TRUST_ULTIMATE')
CONTRA = ('NO_PUBKEY', 'KEYEXPIRED', 'KEYREVOKED', 'FAILURE', 'NODATA')
# the 17 keywords of DESIGN.md + what the Part B alphabet validation found real gpg 2.2.40 to emit besides:
# KEY_CONSIDERED and SIG_ID (interleaved in EVERY --verify run) and NODATA (signature armor destroyed)
ALPHABET = ('NEWSIG',) + RESULT + ('VALIDSIG',) + TRUST + CONTRA + ('KEY_CONSIDERED', 'SIG_ID')
N = len(ALPHABET)
IDX = {k: i for i, k in enumerate(ALPHABET)}
EXITS = (0, 1, 2)
STACK_LEN = 3           # sequences up to this length go through load / loader / CLI as well

I_NEWSIG, I_GOOD, I_VALID = IDX['NEWSIG'], IDX['GOODSIG'], IDX['VALIDSIG']
I_EXPK, I_REVK = IDX['EXPKEYSIG'], IDX['REVKEYSIG']
S_RESULT = frozenset(IDX[k] for k in RESULT)
S_TRUST = frozenset(IDX[k] for k in TRUST)
S_SUFF = frozenset(IDX[k] for k in SUFFICIENT)
S_CONTRA = frozenset(IDX[k] for k in CONTRA)
S_BADREPORT = frozenset(IDX[k] for k in ('BADSIG', 'ERRSIG', 'EXPSIG', 'NO_PUBKEY', 'FAILURE', 'NODATA'))
S_PERSIG = S_RESULT | S_TRUST | {I_VALID}
TRUST_RANK = {IDX[k]: r for r, k in enumerate(TRUST)}

VF, EK, RK, UK, UT = ('OpenPGPVerificationFailure', 'OpenPGPExpiredKeyFailure', 'OpenPGPRevokedKeyFailure',
                      'OpenPGPUnknownSigFailure', 'OpenPGPUntrustedSigFailure')
FAIL_CLASSES = (gx.OpenPGPVerificationFailure, gx.OpenPGPExpiredKeyFailure, gx.OpenPGPRevokedKeyFailure,
                gx.OpenPGPUnknownSigFailure, gx.OpenPGPUntrustedSigFailure)
FAIL_NAMES = (VF, EK, RK, UK, UT)

RULE = ('Part A: plain product enumeration of ALL sequences of length <= L (L=4 quick, 5 thorough) over the '
        f'{N} status keywords {", ".join(ALPHABET)} (one concrete well-formed status line per keyword, '
        'presentation rotated by VERIF_SEED) x backend exit status {0,1,2}; each (sequence, exit) is one case '
        '= one state, enumerated exactly once by construction, run through the real '
        'SystemGPGEnvironment.verify_file with a scripted Popen; every case of length <= 3 also through '
        'ManifestFile.load, ManifestRecursiveLoader and `gemato verify` x {-s} x {-P} (quick tier: the two -P flag '
        'sets, which never consult the backend, on all cases of length <= 2 and on every length-3 case the reference '
        'does not reject; thorough: on all); for every accepted case '
        'every replacement of a TRUST_ line by a higher sufficient level is run too (monotonicity); '
        'non-trivial = the sequence holds at least one per-signature keyword and the reference verdict is definite. '
        'Part B: real gpg, full products: 17 key/message states x 7 owner-trust values x {verify_file, load}; '
        '17 key/message states x `gemato verify -K -R` x {-s} x {-P}; 4 contents of the user GNUPGHOME x 3 key '
        'files x proxy {None, URL} x debug {False, True} x {`verify -K -R [--proxy URL] [--debug]`, the same with -s, '
        'IsolatedGPGEnvironment(debug, proxy), IsolatedGPGEnvironment(debug, proxy).clone()} where the two library '
        'entries run import_key, list_keys, verify_file, ManifestFile.load, clear_sign_file, close, with the user '
        'GNUPGHOME exported, a byte snapshot of the user home around every configuration, and GNUPGHOME of EVERY '
        'gpg/gpgconf process gemato starts compared with the environment\'s own home; '
        'every position of the signed cleartext body x {xor 0x01, xor 0x20, delete, duplicate}. '
        'Part E (scripted gpg and scripted `requests`, so no process and no network; isolation clause for every '
        'constructor option and every gpg-spawning operation): full product IsolatedGPGEnvironment proxy {None, URL1, '
        'URL2} x debug {False, True} x {constructor, .clone()} x process environment {GNUPGHOME exported or not} x '
        '{http_proxy exported or not} x ALL sequences of length <= K (K=2 quick, 3 thorough) over the '
        '@E_OPS@, each sequence ended by close(); on every backend process: '
        'its GnuPG home (--homedir, else GNUPGHOME it is given, else the inherited one) must be the home of the '
        'environment that started it, never absent and never the exported user home; verdict operations also judged '
        'by the Part A predicate. Part EV: ALL status sequences of length <= M (M=3 quick, 4 thorough) x exit {0,1,2} '
        'through IsolatedGPGEnvironment(debug, proxy).verify_file and ManifestFile.load for each of the 6 option '
        'combinations, judged by the Part A predicate + home check on each process. Part EC: `gemato {verify, '
        'openpgp-verify} -K keyfile` x --proxy {absent, URL1, URL2} x {--debug} x refresh flags {none, -R, -W, '
        '--keyserver U, -W --keyserver U} x {-s} (verify) x the 4 process environments x 3 scripted verdicts; all '
        'backend processes of one command line must use one home below the temporary directory, not the exported '
        'one; verify exit status / report judged as in Part A. '
        'Part EK (scripted backend; how the key file of -K is given): full product `gemato {verify, openpgp-verify}` x '
        'the 4 spellings {-K VALUE, -K=VALUE, --openpgp-key VALUE, --openpgp-key=VALUE} x 5 kinds of VALUE {key file, '
        'empty string, missing file, directory, empty file} x refresh flags {none, -R} x {-s} (verify) x GNUPGHOME '
        '{exported, not exported} x 3 scripted verdicts (both tiers: the space is small and closed); on every command '
        'line ALL backend processes must work on one home below the temporary directory, never the exported / '
        'inherited one; with a VALUE that names no readable file (empty string, missing, directory) no key counts, so '
        'no valid-signature report and no exit 0 of `verify` (a non-zero exit or an OSError ending the program is '
        'fine); key file: judged as Part EC; empty file: acceptance only as the scripted verdict allows. '
        'Part B2K (real gpg): user GNUPGHOME {signer key at ultimate trust, unrelated keys} exported x the 4 spellings '
        'x VALUE {empty string, missing file, directory, empty file} x `verify … -R` {-s} on a genuinely signed tree: '
        'no gpg process on the user home, user home byte-identical afterwards, never exit 0 / a valid-signature '
        'report (no key comes from such a file); '
        'a transition is one backend (gpg/gpgconf or scripted) process started by gemato')
ASSUMPTIONS = [
    'reference predicate (seq_facts/expect in this file) restates the statement: accept iff exit 0 and GOODSIG and '
    'VALIDSIG and a TRUST_ line of level marginal/fully/ultimate and no EXPKEYSIG/REVKEYSIG; rejection class must '
    'be one that applies to the sequence (union over all defects present, generous)',
    'DONT_CARE (only in the must-accept direction; acceptance still implies the predicate): several signatures '
    'in one run (more than one NEWSIG / result keyword / VALIDSIG / TRUST_ line, or NEWSIG after a per-signature '
    'line), predicate satisfied but GOODSIG, VALIDSIG, TRUST_ not in gpg\'s order (an implementation that binds the '
    'lines of one signature by position is defensible), and predicate satisfied but NO_PUBKEY/KEYEXPIRED/KEYREVOKED/FAILURE/NODATA also reported (real gpg never '
    'does that with exit 0; both readings defensible); `verify -P` without -s: exit status not judged',
    'malformed VALIDSIG lines are not generated; one well-formed representative line per keyword; status lines '
    'only on stdout, LF-terminated',
    'Part A replaces the name `subprocess` inside gemato.openpgp (Popen scripted); Part B wraps the real Popen '
    'with a recorder; no change to gemato',
    'Part B trusts GnuPG 2.2.40, the key material of /repo/tests/keydata.py and the signed fixtures of '
    '/repo/tests/test_openpgp.py (read at run time), real wall-clock time (expired = expired in 2020), '
    'trust-model direct in the isolated home (owner-trust = validity); owner-trust numbers as gpg '
    '--export-ownertrust prints them: 1 = expired/unknown (gpg prints no TRUST_ line), 2 = undefined, 3 = never, '
    '4 = marginal, 5 = full, 6 = ultimate; None = nothing imported (reported as TRUST_UNDEFINED)',
    '`gemato verify -K` always imports the key file at owner-trust 6, so the owner-trust axis applies to the '
    'library entry points only',
    'canonical text for the mutation family = body split at LF with trailing [ \\t\\r] stripped per line; '
    'mutants with unchanged canonical text, and mutants whose changed byte is itself trailing whitespace '
    '(the statement exempts it; gpg e.g. ignores a NUL that replaces a trailing blank), are DONT_CARE',
    'user-home snapshot ignores sockets (S.*), lock files (.#lk*, *.lock) and random_seed',
    'isolation oracle (Parts B2, E, EV, EC): "only the keys from that file count, whatever the user\'s own keyring '
    'contains, which is left untouched" is read as: every backend process an isolated environment starts works on '
    'that environment\'s own GnuPG home (IsolatedGPGEnvironment.home; CLI: one directory below tempfile.tempdir) -- '
    'given by --homedir or by GNUPGHOME in the environment handed to the process -- whatever constructor options '
    '(debug, proxy) are in force and whatever the process environment exports; the constructor accepts exactly '
    'debug and proxy (both enumerated); proxy URLs are three fixed unreachable URLs rotated by VERIF_SEED',
    'DONT_CARE in the option families: result of list_keys / clear_sign_file / refresh_keys* / import_key (only '
    'where their processes work is judged; an internal error is still reported), exit status of openpgp-verify, '
    'whether the isolated home is removed by close() of a library environment (debug=True keeps it by design; the '
    'CLI without --debug must not leave it behind, as in B1cli)',
    'Parts EK/B2K: "when a key file is given (-K)" is read as: the option is on the command line, whatever its value '
    '(also an empty one); argparse (trusted, stdlib) decides what VALUE each spelling yields; which error the CLI '
    'raises for an unusable VALUE is DONT_CARE (non-zero exit, argparse error, OSError traceback are all fine), an '
    'exception that is neither a gemato exception, SystemExit nor OSError is reported as internal error',
    'Part E/EV/EC/EK replace the names `subprocess` and `requests` inside gemato.openpgp (scripted Popen answering '
    'gpg\'s commands --import, --import-ownertrust, --list-keys, --verify, --clearsign, --refresh-keys, '
    '--delete-keys and gpgconf --kill with success; scripted requests.get answering every WKD URL), so '
    'refresh_keys* run without network; the real refresh against a keyserver is out of scope',
]


def tier_len(tier):
    return 4 if tier == 'quick' else 5


# ---------------------------------------------------------------- reference predicate

class Facts:
    __slots__ = ('good', 'valid', 'suff', 'expk', 'revk', 'multi', 'contra', 'badreport', 'keyexp', 'keyrev',
                 'cond', 'persig', 'best_trust', 'gpg_order', 'n_trust')


def seq_facts(seq):
    """Everything the statement needs to know about a sequence of keyword indices."""
    f = Facts()
    n_new = n_res = n_valid = n_trust = 0
    seen_persig = new_after = False
    best = -1
    for c in seq:
        if c == I_NEWSIG:
            n_new += 1
            if seen_persig:
                new_after = True
        elif c in S_PERSIG:
            seen_persig = True
            if c in S_RESULT:
                n_res += 1
            elif c == I_VALID:
                n_valid += 1
            else:
                n_trust += 1
                if TRUST_RANK[c] > best:
                    best = TRUST_RANK[c]
    f.good = I_GOOD in seq
    f.valid = n_valid > 0
    f.suff = best >= 2
    f.expk = I_EXPK in seq
    f.revk = I_REVK in seq
    f.multi = n_new > 1 or n_res > 1 or n_valid > 1 or n_trust > 1 or new_after
    f.contra = any(c in S_CONTRA for c in seq)
    f.badreport = any(c in S_BADREPORT for c in seq)
    f.keyexp = IDX['KEYEXPIRED'] in seq
    f.keyrev = IDX['KEYREVOKED'] in seq
    f.cond = f.good and f.valid and f.suff and not f.expk and not f.revk
    f.persig = seen_persig
    f.best_trust = TRUST[best] if best >= 0 else 'none'
    f.n_trust = n_trust
    per = [c for c in seq if c in S_PERSIG]
    f.gpg_order = (len(per) == 3 and per[0] == I_GOOD and per[1] == I_VALID and per[2] in S_TRUST)
    return f


DC_MULTI = 'several signatures reported in one run'
DC_ORDER = 'predicate met but GOODSIG / VALIDSIG / TRUST_ not in the order gpg reports them'
DC_CONTRA = 'predicate met but NO_PUBKEY/KEYEXPIRED/KEYREVOKED/FAILURE/NODATA also reported'


def expect(f, ex):
    """-> ('accept', None) | ('dc', reason) | ('reject', frozenset(allowed class names))"""
    if f.cond and ex == 0:
        if f.multi:
            return 'dc', DC_MULTI
        if not f.gpg_order:
            return 'dc', DC_ORDER
        if f.contra:
            return 'dc', DC_CONTRA
        return 'accept', None
    allowed = set()
    if ex != 0:
        allowed.add(VF)
    if f.expk:
        allowed.add(EK)
    if f.revk:
        allowed.add(RK)
    if not (f.good and f.valid):
        allowed.add(UK)
        if f.badreport:
            allowed.add(VF)
        if f.keyexp:
            allowed.add(EK)
        if f.keyrev:
            allowed.add(RK)
    if not f.suff:
        allowed.add(UT)
    return 'reject', frozenset(allowed)


def first_violated(f, ex):
    """Name of the first statement condition a wrongly accepted case breaks (fixed priority)."""
    if ex != 0:
        return 'exit_nonzero'
    if f.expk:
        return 'EXPKEYSIG_present'
    if f.revk:
        return 'REVKEYSIG_present'
    if not f.good:
        return 'no_GOODSIG'
    if not f.valid:
        return 'no_VALIDSIG'
    return 'insufficient_validity:' + f.best_trust


def first_applicable(allowed):
    """The most specific applicable class in a fixed priority (keeps violation signatures few)."""
    for cls in FAIL_NAMES:
        if cls in allowed:
            return cls
    return 'none'


# ---------------------------------------------------------------- presentation

ENVELOPE_HEAD = '-----BEGIN PGP SIGNED MESSAGE-----\nHash: SHA256\n\n'
ENVELOPE_TAIL = ('-----BEGIN PGP SIGNATURE-----\n\n'
                 'iQEzBAEBCAAdFiEEgeEsFr2NzWC+GAhFE2iA5yp7E4QFAloCx+YACgkQE2iA5yp7\n'
                 'E4TYrwf+JxjkVDNtvSN3HjQmdtcayLsaliw/2kqjoaQKs0lZD8+NRe7xPmwSm4bP\n'
                 '=khff\n-----END PGP SIGNATURE-----\n')
A_FILE_NAMES = ('f', 'ab', 'q.x')
VALID_LOG = 'Valid OpenPGP signature found:'


class Present:
    """Concrete status lines / envelope for one VERIF_SEED."""

    def __init__(self, seed):
        fpr = ('81E12C16BD8DCD60BE180845136880E72A7B1384', '4B8349B90C56EE7F054D52871822F5424EB6DA81',
               '7E9DDE3CBE47E437418DF74038B9D2F76CC833CC')[seed % 3]
        pk = ('81E12C16BD8DCD60BE180845136880E72A7B1384', '4B8349B90C56EE7F054D52871822F5424EB6DA81',
              '81E12C16BD8DCD60BE180845136880E72A7B1384')[seed % 3]
        kid = fpr[-16:]
        uid = ('gemato test key <gemato@example.com>', 'Jane Doe (release) <jane@example.org>', 'x')[seed % 3]
        model = (' 0 direct', ' 0 pgp', '', ' 0 tofu+pgp')[seed % 4]
        ts = ('1510131686', '20171108T090126')[seed % 2]
        d = {
            'NEWSIG': 'NEWSIG',
            'GOODSIG': f'GOODSIG {kid} {uid}', 'BADSIG': f'BADSIG {kid} {uid}', 'EXPSIG': f'EXPSIG {kid} {uid}',
            'EXPKEYSIG': f'EXPKEYSIG {kid} {uid}', 'REVKEYSIG': f'REVKEYSIG {kid} {uid}',
            'ERRSIG': f'ERRSIG {kid} 1 8 01 1510131686 9 {fpr}',
            'VALIDSIG': f'VALIDSIG {fpr} 2017-11-08 {ts} 0 4 0 1 8 01 {pk}',
            'NO_PUBKEY': f'NO_PUBKEY {kid}', 'KEYEXPIRED': 'KEYEXPIRED 1598522402', 'KEYREVOKED': 'KEYREVOKED',
            'FAILURE': 'FAILURE gpg-exit 33554433', 'NODATA': 'NODATA 1',
            'KEY_CONSIDERED': f'KEY_CONSIDERED {pk} 0', 'SIG_ID': 'SIG_ID wlQXREMsKkW6dHDKyQyoiy75Xj8 2017-11-08 1510131686',
        }
        for t in TRUST:
            d[t] = t + model
        self.lines = tuple(('[GNUPG:] ' + d[k] + '\n').encode('ascii') for k in ALPHABET)
        self.fname = A_FILE_NAMES[seed % len(A_FILE_NAMES)]
        self.envelope = ENVELOPE_HEAD + f'DATA {self.fname} 0\n' + ENVELOPE_TAIL
        self.fpr, self.pk = fpr, pk

    def stdout(self, seq):
        return b''.join(self.lines[c] for c in seq)


def names(seq):
    return [ALPHABET[c] for c in seq]


# ---------------------------------------------------------------- backend seams

class _Shim:
    """Stands for the name ``subprocess`` inside gemato.openpgp."""

    def __init__(self, popen):
        self.Popen = popen

    def __getattr__(self, name):
        return getattr(subprocess, name)


@contextlib.contextmanager
def _patched(popen):
    old = gpgmod.subprocess
    gpgmod.subprocess = _Shim(popen)
    try:
        yield
    finally:
        gpgmod.subprocess = old


class FakeBackend:
    """Scripted gpg: Popen(...) -> process whose communicate()/wait() answer from the script."""

    def __init__(self):
        self.out = b''
        self.err = b'gpg: scripted backend answer\n'
        self.exit = 0
        self.calls = 0
        self.unexpected = 0
        self.inputs = []

    def popen(self, argv, stdin=None, stdout=None, stderr=None, env=None, **kw):
        self.calls += 1
        argv = list(argv)
        if not (argv and argv[0] == GNUPG and '--verify' in argv and '--status-fd' in argv):
            self.unexpected += 1
        return _FakeProc(self)


class _FakeProc(seams.PopenLike):
    def __init__(self, fb):
        self.fb = fb
        self.returncode = None

    def communicate(self, input=None, timeout=None):
        self.fb.inputs.append(input)
        self.returncode = self.fb.exit
        return self.fb.out, self.fb.err

    def wait(self, timeout=None):
        self.returncode = self.fb.exit
        return self.fb.exit

    def poll(self):
        return self.returncode

    def kill(self):
        pass


def effective_home(argv, env):
    """The GnuPG home directory a backend process started with (argv, env) works on: an explicit --homedir
    option wins (gpg's own precedence), otherwise GNUPGHOME of the environment the process gets (env=None:
    the inherited process environment)."""
    argv = [a if isinstance(a, str) else os.fsdecode(a) for a in argv]
    for i, a in enumerate(argv[1:], 1):
        if a == '--homedir' and i + 1 < len(argv):
            return argv[i + 1]
        if a.startswith('--homedir='):
            return a[len('--homedir='):]
    return (os.environ if env is None else env).get('GNUPGHOME')


class Recorder:
    """Part B: the real Popen, with argv / GNUPGHOME / output / exit of every process recorded."""

    def __init__(self):
        self.log = []
        rec = self

        class RecPopen(subprocess.Popen):
            def __init__(self, argv, **kw):
                env = kw.get('env')
                self._rec = {'argv': list(argv), 'home': effective_home(argv, env),
                             'out': b'', 'err': b'', 'exit': None}
                rec.log.append(self._rec)
                super().__init__(argv, **kw)

            def communicate(self, *a, **kw):
                out, err = super().communicate(*a, **kw)
                self._rec['out'], self._rec['err'], self._rec['exit'] = out or b'', err or b'', self.returncode
                return out, err
        self.popen = RecPopen


def status_keywords(out):
    return [ln.split(b' ', 2)[1].decode('ascii', 'replace') for ln in out.splitlines()
            if ln.startswith(b'[GNUPG:] ') and len(ln.split(b' ', 2)) > 1]


def where_of(e):
    tb = e.__traceback__
    last = None
    while tb is not None:
        fn = tb.tb_frame.f_code.co_filename
        if '/gemato/' in fn:
            last = (os.path.basename(fn), tb.tb_frame.f_code.co_name)
        tb = tb.tb_next
    return '%s:%s' % last if last else 'outside-gemato'


# ---------------------------------------------------------------- observations (shared by A and B)

class Obs:
    """Outcome of one entry point: accepted / rejected with class / internal error, signed flag."""
    __slots__ = ('iface', 'accepted', 'exc', 'where', 'signed', 'sigdata', 'detail', 'exit', 'reported')

    def __init__(self, iface):
        self.iface = iface
        self.accepted = False
        self.exc = self.where = None
        self.signed = None          # what the object reports (None: not applicable)
        self.sigdata = None
        self.detail = ''
        self.exit = None
        self.reported = None        # CLI: "Valid OpenPGP signature found" logged

    def label(self):
        if self.iface.startswith('cli'):
            return f'exit={self.exit}' + ('+reported' if self.reported else '')
        return 'ret' if self.accepted else ('exc:' + str(self.exc))


def _fill_exc(o, e):
    o.exc = type(e).__name__
    if not isinstance(e, FAIL_CLASSES):
        o.where = where_of(e)
        o.detail = repr(e)[:200]


def obs_verify_file(env, text):
    o = Obs('verify_file')
    try:
        o.sigdata = env.verify_file(io.StringIO(text))
        o.accepted = True
    except Exception as e:          # noqa: BLE001 - observation
        _fill_exc(o, e)
    return o


def obs_load(env, text):
    o = Obs('load')
    m = ManifestFile()
    try:
        m.load(io.StringIO(text), verify_openpgp=True, openpgp_env=env)
        o.accepted = True
    except Exception as e:          # noqa: BLE001
        _fill_exc(o, e)
    o.signed = bool(m.openpgp_signed)
    o.sigdata = m.openpgp_signature
    return o


ACCEPTED_SEQ = ('GOODSIG', 'VALIDSIG', 'TRUST_ULTIMATE')


def obs_load_reused(env, text, P):
    """History on ONE ManifestFile object: a signed Manifest is loaded and accepted first, then the
    case is loaded into the same object (the load() docstring allows the caller to go on using the
    instance after a failed verification).  The flags judged are those left by the second load."""
    o = Obs('load_reused')
    m = ManifestFile()
    keep = (FAKE.out, FAKE.exit)
    FAKE.out, FAKE.exit = P.stdout(tuple(IDX[k] for k in ACCEPTED_SEQ)), 0
    try:
        m.load(io.StringIO(text), verify_openpgp=True, openpgp_env=env)
    except Exception:               # noqa: BLE001 - judged elsewhere; the second load is what counts here
        pass
    FAKE.out, FAKE.exit = keep
    try:
        m.load(io.StringIO(text), verify_openpgp=True, openpgp_env=env)
        o.accepted = True
    except Exception as e:          # noqa: BLE001
        _fill_exc(o, e)
    o.signed = bool(m.openpgp_signed)
    o.sigdata = m.openpgp_signature
    return o


def obs_loader(env, manifest_path):
    o = Obs('loader')
    try:
        m = ManifestRecursiveLoader(manifest_path, verify_openpgp=True, openpgp_env=env)
        o.accepted = True
        o.signed = bool(m.openpgp_signed)
        o.sigdata = m.openpgp_signature
    except Exception as e:          # noqa: BLE001
        _fill_exc(o, e)
        o.signed = False
    return o


FLAGSETS = ((), ('-s',), ('-P',), ('-s', '-P'))


def obs_cli(flags, pre, root):
    o = Obs('cli' + ''.join(' ' + x for x in flags))
    r = gem.cli(['verify'] + list(pre) + list(flags) + [root])
    o.exit = r['exit']
    o.reported = any(VALID_LOG in msg for _lv, msg in r['log'])
    o.accepted = (o.exit == 0)
    if r['kind'] == 'exc' and r.get('class') != 'exit':
        o.exc = r['exc']
        if r.get('class') == 'internal':
            o.where = r.get('where')
            o.detail = r.get('msg', '')
    else:
        errs = [msg for lv, msg in r['log'] if lv == 'ERROR']
        o.detail = (errs[0].split('\n')[0] if errs else '')
    return o


def judge_lib(kind, info, o, f, ex):
    """Judge a library-level observation against the reference.  -> list of (sig, text).
    kind/info = expect(...); f, ex describe the backend answer (f may be None in Part B config judgement)."""
    out = []
    if o.where is not None:
        out.append(({'check': 'internal_error', 'exc': o.exc, 'where': o.where},
                    f'internal error {o.exc} at {o.where}: {o.detail}'))
        return out
    if o.accepted:
        if kind == 'reject':
            out.append(({'check': 'accepted_invalid', 'violated': first_violated(f, ex)},
                        f'accepted although the statement forbids it ({first_violated(f, ex)})'))
        if o.sigdata is None:
            out.append(({'check': 'accepted_without_signature_data'}, 'accepted but no signature data returned'))
        if o.signed is False:
            out.append(({'check': 'accepted_but_not_reported_signed'}, 'verification passed but openpgp_signed is not True'))
    else:
        if kind == 'accept':
            if o.exc == UT and f.n_trust == 1:
                out.append(({'check': 'sufficient_validity_rejected', 'trust': f.best_trust},
                            f'a good, valid signature by a key of validity {f.best_trust} is rejected as untrusted'))
            else:
                out.append(({'check': 'valid_signature_rejected', 'got': o.exc},
                            f'good+valid+sufficiently trusted signature rejected with {o.exc}'))
        elif kind == 'reject' and o.exc not in info:
            out.append(({'check': 'wrong_failure_class', 'got': o.exc, 'applicable': first_applicable(info)},
                        f'rejected with {o.exc}, applicable classes are {sorted(info)}'))
        if o.signed:
            out.append(({'check': 'reported_signed_after_failure'}, 'verification failed but openpgp_signed is set'))
        if o.signed is not None and o.sigdata is not None:
            out.append(({'check': 'signature_data_after_failure'}, 'verification failed but openpgp_signature is set'))
    return out


def judge_cli(kind, o, verify_on, require):
    """-> list of (sig, text); CLI exit / 'valid signature' report."""
    out = []
    if o.where is not None or o.exit is None:
        out.append(({'check': 'internal_error', 'exc': o.exc, 'where': o.where},
                    f'internal error {o.exc} at {o.where}: {o.detail}'))
        return out
    if not verify_on:
        if o.reported:
            out.append(({'check': 'reported_signed_without_verification'}, 'signature reported valid although -P was given'))
        if require and o.exit == 0:
            out.append(({'check': 'require_signed_exit_zero', 'flags': '-s -P'},
                        '`verify -s -P` exited 0 although no signature was verified'))
        return out
    if kind == 'accept':
        if o.exit != 0:
            out.append(({'check': 'valid_signature_rejected', 'got': 'exit'},
                        f'CLI exited {o.exit} ({o.detail}) on an acceptable signature'))
        elif not o.reported:
            out.append(({'check': 'accepted_but_not_reported_signed'}, 'CLI exited 0 without reporting the signature'))
    elif kind == 'reject':
        if o.exit == 0:
            out.append(({'check': 'accepted_invalid', 'violated': 'cli_exit_zero'},
                        'CLI exited 0' + (' with -s' if require else '') + ' although the signature must be rejected'))
        if o.reported:
            out.append(({'check': 'reported_signed_after_failure'}, 'CLI reported a valid signature that must be rejected'))
    return out


_FAMILY = {'valid_signature_rejected': ('valid_signature_rejected', 'sufficient_validity_rejected'),
           'accepted_invalid': ('accepted_invalid',),
           'reported_signed_after_failure': ('accepted_invalid',)}


def layer_sig(sig, base_sigs, iface):
    """A defect already visible at verify_file keeps ONE signature through the upper layers; a deviation that only
    an upper layer shows is tagged with that layer."""
    for b in base_sigs:
        if b == sig:
            return sig
    for b in base_sigs:
        if b['check'] in _FAMILY.get(sig['check'], ()):
            return b
    return dict(sig, iface=iface)


# ====================================================================== Part A

FAKE = FakeBackend()
_P = {}


def present(seed):
    if seed not in _P:
        _P[seed] = Present(seed)
    return _P[seed]


def a_tree(scratch, P):
    root = fresh_root(scratch, 'a')
    os.makedirs(root, exist_ok=True)
    with open(os.path.join(root, 'Manifest'), 'w') as fh:
        fh.write(P.envelope)
    with open(os.path.join(root, P.fname), 'w'):
        pass
    return root


def a_case(seq, ex, seed, stack, root, stats=None, pflags=True):
    """Full judgement of ONE (sequence, exit) case (used by the explorer for every case that needs more
    than the fast check, and by replay).  -> list of (sig, case, message)"""
    P = present(seed)
    seq = tuple(seq)
    f = seq_facts(seq)
    kind, info = expect(f, ex)
    env = SystemGPGEnvironment()
    viols = []
    base_case = {'part': 'A', 'seq': names(seq), 'exit': ex, 'seed': seed, 'stack': bool(stack), 'pflags': bool(pflags)}

    def emit(sig, text, iface, extra=None):
        desc = f'status {" ".join(names(seq)) or "<none>"} exit {ex}'
        viols.append((sig, dict(base_case, **(extra or {})), f'{sig["check"]}: [{iface}] {desc}: {text}'))

    with _patched(FAKE.popen):
        FAKE.out, FAKE.exit = P.stdout(seq), ex
        o = obs_verify_file(env, P.envelope)
        base = judge_lib(kind, info, o, f, ex)
        base_sigs = [s for s, _t in base]
        for sig, text in base:
            emit(sig, text, 'verify_file')
        if stats is not None:
            stats.outcomes[f'A:{kind}/verify_file/{o.label()}'] += 1
        # monotonicity, checked directly: accepted => accepted with every higher sufficient level
        if o.accepted:
            for i, c in enumerate(seq):
                if c not in S_TRUST:
                    continue
                for h in SUFFICIENT:
                    hi = IDX[h]
                    if TRUST_RANK[hi] <= TRUST_RANK[c]:
                        continue
                    seq2 = seq[:i] + (hi,) + seq[i + 1:]
                    FAKE.out = P.stdout(seq2)
                    o2 = obs_verify_file(env, P.envelope)
                    if stats is not None:
                        stats.evaluations += 1
                        stats.compared += 1
                        stats.counters['A_monotonicity_pairs'] += 1
                    if not o2.accepted:
                        if o2.where is not None:
                            sig = {'check': 'internal_error', 'exc': o2.exc, 'where': o2.where}
                        else:
                            sig = {'check': 'sufficient_validity_rejected', 'trust': h}
                        emit(sig, f'monotonicity: accepted with {ALPHABET[c]} at position {i} but {o2.exc} when that '
                                  f'line reports the higher validity {h}', 'verify_file',
                             {'mono': {'pos': i, 'to': h}})
            FAKE.out = P.stdout(seq)
        if stack:
            mpath = os.path.join(root, 'Manifest')
            layers = [obs_load(env, P.envelope), obs_load_reused(env, P.envelope, P), obs_loader(env, mpath)]
            for o in layers:
                for sig, text in judge_lib(kind, info, o, f, ex):
                    emit(layer_sig(sig, base_sigs, o.iface), text, o.iface)
                if stats is not None:
                    stats.outcomes[f'A:{kind}/{o.iface}/{o.label()}'] += 1
            flagsets = FLAGSETS if pflags else FLAGSETS[:2]
            for flags in flagsets:
                verify_on = '-P' not in flags
                before = FAKE.calls
                o = obs_cli(flags, (), root)
                if not verify_on and FAKE.calls != before and stats is not None:
                    stats.counters['A_backend_called_despite_-P'] += 1
                for sig, text in judge_cli(kind, o, verify_on, '-s' in flags):
                    emit(layer_sig(sig, base_sigs, o.iface), text, o.iface)
                if stats is not None:
                    stats.outcomes[f'A:{kind}/{o.iface}/{o.label()}'] += 1
                    if verify_on and kind != 'dc':
                        stats.compared += 1
                    elif not verify_on and '-s' in flags:
                        stats.compared += 1
                    else:
                        stats.dontcare['verify -P without -s: exit status not judged' if not verify_on else info] += 1
            if stats is not None:
                stats.evaluations += 3 + len(flagsets)
                if kind != 'dc':
                    stats.compared += 3
                else:
                    stats.dontcare[info] += 3
    return viols


def a_run(spec, tier, seed, scratch, stats):
    P = present(seed)
    L = tier_len(tier)
    full_p = tier != 'quick'
    root = a_tree(scratch, P)
    env = SystemGPGEnvironment()
    vf = env.verify_file
    text = P.envelope
    lines = P.lines
    if spec[1] == 'short':
        seqs = [()] + [(c,) for c in range(N)]
    else:
        pre = (spec[1], spec[2])
        seqs = (pre + suf for k in range(0, L - 1) for suf in itertools.product(range(N), repeat=k))
    n_cases = n_nontrivial = n_dc = 0
    outc = collections.Counter()
    dcs = collections.Counter()
    must = collections.Counter()
    FAKE.inputs = []
    want_input = text.encode('utf8')
    bad_input = 0
    c_start = FAKE.calls
    with _patched(FAKE.popen):
        for seq in seqs:
            f = seq_facts(seq)
            out = b''.join([lines[c] for c in seq])
            stack = len(seq) <= STACK_LEN
            for ex in EXITS:
                kind, info = expect(f, ex)
                n_cases += 1
                if kind == 'dc':
                    n_dc += 1
                    dcs[info] += 1
                else:
                    if f.persig:
                        n_nontrivial += 1
                    if kind == 'accept':
                        must[f.best_trust] += 1
                FAKE.out, FAKE.exit = out, ex
                try:
                    r = vf(io.StringIO(text))
                    got = 'ret' if r is not None else 'ret:None'
                except FAIL_CLASSES as e:
                    got = type(e).__name__
                except Exception:           # noqa: BLE001 - slow path reports it
                    got = 'internal'
                if stack:
                    slow = True
                elif got == 'ret':
                    slow = True             # monotonicity pairs
                elif kind == 'accept':
                    slow = True
                elif kind == 'reject':
                    slow = got not in info
                else:
                    slow = got in ('internal', 'ret:None')
                if slow:
                    # -P never consults the backend: in the quick tier the two -P flag sets run on every case
                    # of length <= 2 and on every longer case the reference does not reject
                    pflags = full_p or len(seq) <= 2 or kind != 'reject'
                    for sig, case, msg in a_case(seq, ex, seed, stack, root, stats, pflags):
                        stats.violation(sig, case, msg)
                        stats.counters['viol ' + repr(sorted(sig.items()))] += 1
                else:
                    outc[f'A:{kind}/verify_file/' + ('ret' if got == 'ret' else 'exc:' + got)] += 1
                for inp in FAKE.inputs:
                    if inp != want_input:
                        bad_input += 1
                FAKE.inputs.clear()
    stats.counters['A_backend_input_not_the_signed_text'] += bad_input
    # the fast-path execution of every case (slow-path re-executions are counted inside a_case)
    stats.evaluations += n_cases
    stats.compared += n_cases - n_dc
    stats.transitions += FAKE.calls - c_start
    stats.outcomes.update(outc)
    stats.dontcare.update(dcs)
    c = stats.counters
    c['A_cases'] += n_cases
    c['A_cases_nontrivial'] += n_nontrivial
    c['A_unexpected_backend_argv'] += FAKE.unexpected
    FAKE.unexpected = 0
    for k, v in must.items():
        c['A_must_accept:' + k] += v
    if len(stats.samples) < 1 and spec[1:] == (I_GOOD, I_VALID):
        for t in ('TRUST_FULLY', 'TRUST_UNDEFINED'):
            seq = (I_GOOD, I_VALID, IDX[t])
            with _patched(FAKE.popen):
                FAKE.out, FAKE.exit = P.stdout(seq), 0
                o = obs_verify_file(env, text)
            stats.sample({'part': 'A', 'stdout': P.stdout(seq).decode('ascii'), 'exit': 0,
                          'reference': expect(seq_facts(seq), 0)[0], 'verify_file': o.label()})


# characters at which str.splitlines() breaks a line but bytes.splitlines() (what gpg's byte stream means) does not
H_SEPS = ('\x0b', '\x0c', '\x1c', '\x1d', '\x1e', '\x85', '\u2028', '\u2029')
H_PAYLOADS = ('TRUST_ULTIMATE', 'VALIDSIG', 'GOODSIG', 'EXPKEYSIG')
H_ALPHA = ('GOODSIG', 'VALIDSIG', 'TRUST_UNDEFINED', 'TRUST_NEVER', 'TRUST_MARGINAL', 'TRUST_ULTIMATE', 'EXPKEYSIG',
           'BADSIG')
H_UID_BEARING = ('GOODSIG', 'EXPKEYSIG', 'BADSIG')


def h_stdout(P, seq_names, sep, payload):
    """Status output for seq_names in which every user-ID bearing line has a user ID that embeds, after
    the separator character, text looking like another status line.  The user ID is data: the
    verdict must be the one for the plain sequence."""
    forged = P.lines[IDX[payload]].decode('ascii').rstrip('\n')
    out = []
    for k in seq_names:
        line = P.lines[IDX[k]]
        if k in H_UID_BEARING:
            line = line[:-1] + (' ' + sep + forged + sep + 'tail').encode('utf8') + b'\n'
        out.append(line)
    return b''.join(out)


def h_case(seq_names, sep, payload, seed, stats=None):
    P = present(seed)
    seq = tuple(IDX[k] for k in seq_names)
    f = seq_facts(seq)
    kind, info = expect(f, 0)
    env = SystemGPGEnvironment()
    viols = []
    case = {'part': 'H', 'seq': list(seq_names), 'sep': sep, 'payload': payload, 'seed': seed}
    with _patched(FAKE.popen):
        FAKE.out, FAKE.exit = P.stdout(seq), 0
        plain = obs_verify_file(env, P.envelope)
        FAKE.out = h_stdout(P, seq_names, sep, payload)
        for o in (obs_verify_file(env, P.envelope), obs_load(env, P.envelope)):
            for sig, text in judge_lib(kind, info, o, f, 0):
                sig = dict(sig, hostile_uid=True)
                viols.append((sig, case, f'{sig["check"]}: [{o.iface}] status {" ".join(seq_names)} with a user ID '
                              f'embedding {sep!r} + a {payload} look-alike: {text}'))
            if o.iface == 'verify_file' and o.accepted != plain.accepted:
                sig = {'check': 'verdict_depends_on_user_id_text', 'hostile_uid': True}
                viols.append((sig, case, f'verdict_depends_on_user_id_text: status {" ".join(seq_names)}: plain user ID -> '
                              f'{plain.label()}, user ID embedding {sep!r} + {payload} look-alike -> {o.label()}'))
            if stats is not None:
                stats.evaluations += 1
                stats.transitions += 1
                stats.outcomes[f'H:{kind}/{o.iface}/{o.label()}'] += 1
                if kind != 'dc':
                    stats.compared += 1
                else:
                    stats.dontcare[info] += 1
    return viols


def h_run(spec, tier, seed, scratch, stats):
    sep = H_SEPS[spec[1]]
    for n in (1, 2, 3):
        for seq_names in itertools.product(H_ALPHA, repeat=n):
            if not any(k in H_UID_BEARING for k in seq_names):
                continue
            for payload in H_PAYLOADS:
                for sig, case, msg in h_case(seq_names, sep, payload, seed, stats):
                    stats.violation(sig, case, msg)
                stats.case(('H', seq_names, sep, payload), nontrivial=True)
    if len(stats.samples) < 1:
        stats.sample({'part': 'H', 'stdout': h_stdout(present(seed), ('GOODSIG', 'VALIDSIG', 'TRUST_UNDEFINED'), sep,
                                                       'TRUST_ULTIMATE').decode('utf8')})


def a_replay(case, scratch):
    P = present(case['seed'])
    seq = tuple(IDX[k] for k in case['seq'])
    root = a_tree(scratch, P) if case.get('stack') else None
    return [{'sig': s, 'case': c, 'message': m}
            for s, c, m in a_case(seq, case['exit'], case['seed'], case.get('stack'), root,
                                  pflags=case.get('pflags', True))]


# ====================================================================== Part B: material

FAKE_TIME = '20200101T000000'
KEY_FPR = '81E12C16BD8DCD60BE180845136880E72A7B1384'
OTHER_FPR = '4B8349B90C56EE7F054D52871822F5424EB6DA81'
SUBKEY_FPR = '7E9DDE3CBE47E437418DF74038B9D2F76CC833CC'
OWNERTRUST = (None, 1, 2, 3, 4, 5, 6)
OT_NAME = {None: 'none', 1: '1(expired/unknown)', 2: '2(undefined)', 3: '3(never)', 4: '4(marginal)',
           5: '5(full)', 6: '6(ultimate)'}
OT_ACCEPT = (4, 5, 6)

_M = {}


def material():
    """Key packets from tests/keydata.py and the signed fixtures of tests/test_openpgp.py."""
    if _M:
        return _M
    spec = importlib.util.spec_from_file_location('_c05_keydata', '/repo/tests/keydata.py')
    kd = importlib.util.module_from_spec(spec)
    spec.loader.exec_module(kd)
    with open('/repo/tests/test_openpgp.py') as fh:
        tree = ast.parse(fh.read())
    texts = {}
    for node in tree.body:
        if (isinstance(node, ast.Assign) and len(node.targets) == 1 and isinstance(node.targets[0], ast.Name)
                and isinstance(node.value, ast.Constant) and isinstance(node.value.value, str)):
            texts[node.targets[0].id] = node.value.value

    def brk(sig):
        return sig[:-1] + b'\x55'
    valid = kd.PUBLIC_KEY + kd.UID + kd.PUBLIC_KEY_SIG
    expired = kd.PUBLIC_KEY + kd.UID + kd.EXPIRED_KEY_SIG
    other = kd.OTHER_PUBLIC_KEY + kd.OTHER_PUBLIC_KEY_UID + kd.OTHER_PUBLIC_KEY_SIG
    unexp = kd.PUBLIC_KEY + kd.UID + kd.UNEXPIRE_SIG
    K = {
        'valid': valid, 'expired': expired, 'other': other, 'unexpire': unexp,
        'revoked': kd.PUBLIC_KEY + kd.REVOCATION_SIG + kd.UID + kd.PUBLIC_KEY_SIG,
        'forged_unexpire': kd.PUBLIC_KEY + kd.UID + kd.EXPIRED_KEY_SIG + brk(kd.UNEXPIRE_SIG),
        'combined': other + valid,
        'subkey': valid + kd.PUBLIC_SUBKEY + kd.PUBLIC_SUBKEY_SIG,
        'subkey_unbound': valid + kd.PUBLIC_SUBKEY,
        'subkey_forged': valid + kd.PUBLIC_SUBKEY + brk(kd.PUBLIC_SUBKEY_SIG),
        'secret': kd.SECRET_KEY + kd.UID + kd.PUBLIC_KEY_SIG,
    }
    _M['keys'] = K
    _M['texts'] = {k: texts[k] for k in ('SIGNED_MANIFEST', 'DASH_ESCAPED_SIGNED_MANIFEST', 'MODIFIED_SIGNED_MANIFEST',
                                         'EXPIRED_SIGNED_MANIFEST', 'SUBKEY_SIGNED_MANIFEST')}
    # name -> (key blobs imported one after the other, fixture, signature acceptable given sufficient validity,
    #          fingerprint of the signing (sub)key)
    S, SUB = 'SIGNED_MANIFEST', 'SUBKEY_SIGNED_MANIFEST'
    _M['states'] = collections.OrderedDict([
        ('valid', (['valid'], S, True, KEY_FPR)),
        ('expired', (['expired'], S, False, KEY_FPR)),
        ('revoked', (['revoked'], S, False, KEY_FPR)),
        ('unknown_signer', ([], S, False, KEY_FPR)),
        ('other_key_only', (['other'], S, False, KEY_FPR)),
        ('expiry_extended', (['unexpire'], S, True, KEY_FPR)),
        ('expired_then_extended', (['expired', 'unexpire'], S, True, KEY_FPR)),
        ('expired_then_older_selfsig', (['expired', 'valid'], S, False, KEY_FPR)),
        ('forged_extension', (['forged_unexpire'], S, False, KEY_FPR)),
        ('other_plus_valid', (['combined'], S, True, KEY_FPR)),
        ('subkey_bound', (['subkey'], SUB, True, SUBKEY_FPR)),
        ('subkey_unbound', (['subkey_unbound'], SUB, False, SUBKEY_FPR)),
        ('subkey_forged_binding', (['subkey_forged'], SUB, False, SUBKEY_FPR)),
        ('subkey_msg_primary_only', (['valid'], SUB, False, SUBKEY_FPR)),
        ('valid_dash_escaped_msg', (['valid'], 'DASH_ESCAPED_SIGNED_MANIFEST', True, KEY_FPR)),
        ('valid_modified_msg', (['valid'], 'MODIFIED_SIGNED_MANIFEST', False, KEY_FPR)),
        ('valid_expired_sig_msg', (['valid'], 'EXPIRED_SIGNED_MANIFEST', False, KEY_FPR)),
    ])
    return _M


def _gpg_env(home):
    env = dict(os.environ)
    env['GNUPGHOME'] = home
    env['TZ'] = 'UTC'
    return env


def _raw_gpg(home, args, data=b''):
    p = subprocess.run([GNUPG, '--batch', '--no-tty'] + args, input=data, env=_gpg_env(home),
                       capture_output=True, timeout=120)
    return p


def _kill_agents(home):
    try:
        subprocess.run([GNUPGCONF, '--kill', 'all'], env=_gpg_env(home), capture_output=True, timeout=30)
    except Exception:               # noqa: BLE001 - best effort cleanup
        pass


@contextlib.contextmanager
def _tmp_under(d):
    old = tempfile.tempdir
    tempfile.tempdir = d
    try:
        yield
    finally:
        tempfile.tempdir = old


def _iso_env(under):
    with _tmp_under(under):
        return IsolatedGPGEnvironment()


def _set_ownertrust(home, ot):
    if ot is None:
        return
    data = ''.join(f'{fp}:{ot}:\n' for fp in (KEY_FPR, OTHER_FPR)).encode('ascii')
    p = _raw_gpg(home, ['--import-ownertrust'], data)
    if p.returncode != 0:
        raise RuntimeError('gpg --import-ownertrust failed: ' + p.stderr.decode('utf8', 'replace'))


def write_fixture_tree(root, text):
    """The tree the suite's signed fixtures describe (all listed files are empty)."""
    os.makedirs(os.path.join(root, 'eclass'), exist_ok=True)
    with open(os.path.join(root, 'Manifest'), 'w') as fh:
        fh.write(text)
    for p in ('eclass/Manifest', 'myebuild-0.ebuild', 'metadata.xml'):
        with open(os.path.join(root, p), 'wb') as fh:
            if p == 'myebuild-0.ebuild' and 'DATA myebuild-0.ebuild 32' in text:
                fh.write(b'12345678901234567890123456789012')


def real_facts(calls):
    """-> (keyword indices of the --verify call, exit, unknown keywords, record) of the recorded calls."""
    for r in calls:
        if '--verify' in r['argv']:
            kws = status_keywords(r['out'])
            return (tuple(IDX[k] for k in kws if k in IDX), r['exit'],
                    [k for k in kws if k not in IDX], r)
    return None, None, [], None


def note_calls(stats, calls):
    stats.transitions += len(calls)
    for r in calls:
        if r['argv'] and r['argv'][0] == GNUPG:
            stats.counters['B_gpg_invocations'] += 1
        for k in status_keywords(r['out']) if '--verify' in r['argv'] else ():
            stats.counters['B_kw:' + k] += 1


_NOT_AN_OP = ('--batch', '--status-fd', '--no-tty', '--with-colons', '--homedir')


def check_homes(calls, want_home, forbidden):
    """Every backend process gemato starts for an isolated environment must get that environment's GNUPGHOME."""
    out = []
    for r in calls:
        op = next((a for a in r['argv'][1:] if a.startswith('--') and a not in _NOT_AN_OP), os.path.basename(r['argv'][0]))
        if r['home'] is None or r['home'] == forbidden or (want_home is not None and r['home'] != want_home):
            out.append(({'check': 'gnupghome_not_forced', 'op': op},
                        f'backend process {op} ran with GNUPGHOME={r["home"]!r} instead of the isolated home'))
    return out


def b_judge(expected_accept, calls, o, fpr, ctx):
    """Part B judgement of one library-level execution with real gpg.
    -> (violations [(sig, text)], model_mismatch|None)"""
    seq, ex, _unknown, rec = real_facts(calls)
    mismatch = None
    viols = []
    if seq is None:
        if o.iface != 'skip' and (o.accepted or o.where is not None):
            viols.append(({'check': 'accepted_without_backend_verdict'}, 'accepted although no gpg --verify ran'))
        return viols, mismatch
    f = seq_facts(seq)
    kind, info = expect(f, ex)
    if kind == 'dc' or (kind == 'accept') != expected_accept:
        if not ctx.get('isolation'):
            mismatch = (f'{ctx}: configuration expects {"accept" if expected_accept else "reject"}, the Part A predicate '
                        f'says {kind} on real gpg output {" ".join(names(seq))} exit {ex}')
            return viols, mismatch      # the harness' model of gpg is off: a harness error, never a violation
    if expected_accept:
        kind_cfg, info_cfg = 'accept', None
    else:
        kind_cfg, info_cfg = 'reject', (info if kind == 'reject' else frozenset(FAIL_NAMES))
    viols.extend(judge_lib(kind_cfg, info_cfg, o, f, ex))
    if o.accepted and o.sigdata is not None and expected_accept:
        got = (getattr(o.sigdata, 'fingerprint', None), getattr(o.sigdata, 'primary_key_fingerprint', None))
        if got != (fpr, KEY_FPR):
            viols.append(({'check': 'signature_data_wrong'}, f'signature data {got} != expected {(fpr, KEY_FPR)}'))
    return viols, mismatch


def _emit(stats, sig, case, msg):
    stats.violation(sig, case, msg)
    stats.counters['viol ' + repr(sorted(sig.items()))] += 1


# ---------------------------------------------------------------- B1: key state x owner-trust x library entry

def b1_config(state, ot, scratch, stats=None):
    """-> violations [(sig, case, msg)] for one (key state, owner-trust) configuration."""
    M = material()
    imports, fixture, sig_ok, fpr = M['states'][state]
    text = M['texts'][fixture]
    expected = sig_ok and ot in OT_ACCEPT
    case = {'part': 'B1', 'state': state, 'ownertrust': ot}
    viols = []
    rec = Recorder()
    with _patched(rec.popen):
        env = _iso_env(scratch)
        home = env.home
        try:
            for k in imports:
                try:
                    env.import_key(io.BytesIO(M['keys'][k]), trust=False)
                except gx.OpenPGPKeyImportError:
                    if stats is not None:
                        stats.counters['B_import_refused'] += 1
            _set_ownertrust(home, ot)
            for fn in (obs_verify_file, obs_load):
                mark = len(rec.log)
                o = fn(env, text)
                calls = rec.log[mark:]
                vs, mismatch = b_judge(expected, calls, o, fpr, {'state': state, 'ot': ot})
                if mismatch and check_homes(calls, home, None):
                    mismatch = None     # gpg looked at another keyring: reported as gnupghome_not_forced below
                seq, ex, unknown, _r = real_facts(calls)
                for sig, t in vs:
                    viols.append((sig, case, f'{sig["check"]}: [{o.iface}] key state {state}, owner-trust {OT_NAME[ot]}, '
                                             f'gpg said {" ".join(names(seq or ()))} exit {ex}: {t}'))
                if stats is not None:
                    stats.evaluations += 1
                    stats.compared += 1
                    stats.outcomes[f'B1:{"accept" if expected else "reject"}/{o.iface}/{o.label()}'] += 1
                    stats.counters[f'B_ownertrust_{OT_NAME[ot]}:{o.label()}'] += 1
                    if mismatch:
                        stats.counters['B_model_mismatch'] += 1
                        stats.notes.append(mismatch)
                    if len(stats.samples) < 2 and state == 'valid' and ot in (5, 2) and o.iface == 'verify_file':
                        stats.sample({'part': 'B1', 'state': state, 'ownertrust': OT_NAME[ot],
                                      'gpg_status': names(seq), 'gpg_exit': ex, 'verify_file': o.label()})
        finally:
            env.close()
    seen = set()
    for sig, t in check_homes(rec.log, home, None):      # imports, verifications and the final gpgconf --kill
        if sig['op'] not in seen:
            seen.add(sig['op'])
            viols.append((sig, case, f'{sig["check"]}: key state {state}, owner-trust {OT_NAME[ot]}: {t}'))
    if stats is not None:
        note_calls(stats, rec.log)
        stats.case(('B1', state, ot), nontrivial=True)
    return viols


def b1_run(spec, tier, seed, scratch, stats):
    for ot in OWNERTRUST:
        for sig, case, msg in b1_config(spec[1], ot, scratch, stats):
            _emit(stats, sig, case, msg)


# ---------------------------------------------------------------- B1cli: key state x gemato verify -K -R [-s] [-P]

def b_cli_run(keyblob, text, flags, scratch, user_home=None, env_flags=()):
    """Run `gemato verify -K key -R env_flags flags tree` with real gpg.  -> (Obs, recorded calls, tmp, leftovers)"""
    root = fresh_root(scratch, 'b')
    write_fixture_tree(root, text)
    kf = os.path.join(scratch, 'key.bin')
    with open(kf, 'wb') as fh:
        fh.write(keyblob)
    tmp = fresh_root(scratch, 'tmp')
    rec = Recorder()
    try:
        with _patched(rec.popen), _tmp_under(tmp):
            o = obs_cli(flags, ('-K', kf, '-R') + tuple(env_flags), root)
    finally:
        logging.getLogger().setLevel(logging.INFO)      # --debug raises the process-wide log level
    leftovers = sorted(d for d in os.listdir(tmp) if d.startswith('gemato.'))
    for d in leftovers:                      # only expected with --debug: cleanup() closes the environment
        _kill_agents(os.path.join(tmp, d))
        shutil.rmtree(os.path.join(tmp, d), ignore_errors=True)
    return o, rec.log, tmp, leftovers


def cli_homes_check(calls, tmp, user_home):
    homes = {r['home'] for r in calls}
    out = []
    if len(homes) > 1 or any(h is None or h == user_home or not h.startswith(tmp + os.sep) for h in homes):
        for r in calls:
            h = r['home']
            if h is None or h == user_home or not h.startswith(tmp + os.sep):
                out.extend(check_homes([r], '\0', user_home))
        if not out:
            out.append(({'check': 'gnupghome_not_forced', 'op': 'several homes'},
                        f'one command used several GNUPGHOMEs: {sorted(map(str, homes))}'))
    return out


def b1cli_config(state, flags, scratch, stats=None):
    M = material()
    imports, fixture, sig_ok, fpr = M['states'][state]
    text = M['texts'][fixture]
    keyblob = b''.join(M['keys'][k] for k in imports)
    verify_on = '-P' not in flags
    case = {'part': 'B1cli', 'state': state, 'flags': list(flags)}
    o, calls, tmp, leftovers = b_cli_run(keyblob, text, flags, scratch)
    seq, ex, _unknown, _r = real_facts(calls)
    kind = 'accept' if sig_ok else 'reject'
    vs = judge_cli(kind, o, verify_on, '-s' in flags)
    vs += cli_homes_check(calls, tmp, None)
    if leftovers:
        vs.append(({'check': 'isolated_home_not_removed'}, f'left behind {leftovers}'))
    mismatch = None
    if verify_on and seq is not None:
        k2, _i = expect(seq_facts(seq), ex)
        if k2 != kind:
            hv = cli_homes_check(calls, tmp, None)
            vs = hv                 # gpg's report contradicts the configuration: not the CLI's fault
            if not hv:
                mismatch = (f'B1cli {state}: configuration expects {kind}, predicate says {k2} on '
                            f'{" ".join(names(seq))} exit {ex}')
    # root cause shared with the library layer: -K imports at ultimate trust, so no trust-level sigs here
    viols = [(sig, case, f'{sig["check"]}: [{o.iface} -K -R] key state {state}, gpg said '
                         f'{" ".join(names(seq or ()))} exit {ex}; CLI {o.label()} ({o.detail}): {t}') for sig, t in vs]
    if stats is not None:
        stats.evaluations += 1
        note_calls(stats, calls)
        stats.outcomes[f'B1cli:{kind if verify_on else "noverify"}/{o.iface}/{o.label()}'] += 1
        if verify_on or '-s' in flags:
            stats.compared += 1
        else:
            stats.dontcare['verify -P without -s: exit status not judged'] += 1
        if mismatch:
            stats.counters['B_model_mismatch'] += 1
            stats.notes.append(mismatch)
        stats.case(('B1cli', state, flags), nontrivial=True)
    return viols


def b1cli_run(spec, tier, seed, scratch, stats):
    for flags in FLAGSETS:
        for sig, case, msg in b1cli_config(spec[1], flags, scratch, stats):
            _emit(stats, sig, case, msg)


# ---------------------------------------------------------------- B2: the user's own GNUPGHOME x constructor options

USER_HOMES = collections.OrderedDict([
    # name -> (keys imported at ultimate trust, SystemGPGEnvironment accepts the fixture with this home)
    ('empty', ([], False)),
    ('signer_ultimate', (['valid'], True)),
    ('unrelated_keys', (['other'], False)),
    ('signer_revoked', (['revoked'], False)),
])
B2_KEYFILES = (('valid', True), ('other', False), ('expired', False))
B2_IFACES = ('cli', 'cli -s', 'lib', 'lib clone')
# every option the environment constructors / `-K` commands accept: proxy (None or a URL; nothing listens there
# and with -R / without refresh_keys() no network access is attempted) x debug
PROXY_URLS = ('http://127.0.0.1:9', 'https://user:pw@proxy.invalid:3128', 'http://[::1]:9/')
B2_PROXY = (None, 0)                # None or an index into PROXY_URLS rotated by VERIF_SEED
B2_DEBUG = (False, True)
_IGN = ('S.', '.#lk')


def proxy_url(seed, i):
    return None if i is None else PROXY_URLS[(i + seed) % len(PROXY_URLS)]


def opt_text(proxy, debug):
    return f'debug={debug!r}, proxy={proxy!r}'


def snapshot_home(home):
    snap = {}
    for dp, dns, fns in os.walk(home):
        for fn in fns:
            if fn.startswith(_IGN) or fn.endswith('.lock') or fn == 'random_seed':
                continue
            p = os.path.join(dp, fn)
            if os.path.islink(p) or not os.path.isfile(p):
                continue
            with open(p, 'rb') as fh:
                snap[os.path.relpath(p, home)] = fh.read()
        for dn in dns:
            snap[os.path.relpath(os.path.join(dp, dn), home) + '/'] = b''
    return snap


def make_user_home(scratch, content):
    M = material()
    home = fresh_root(scratch, 'userhome')
    os.makedirs(home, mode=0o700, exist_ok=True)
    os.chmod(home, 0o700)
    for k in USER_HOMES[content][0]:
        p = _raw_gpg(home, ['--import'], M['keys'][k])
        if p.returncode != 0:
            raise RuntimeError('populating the user home failed: ' + p.stderr.decode('utf8', 'replace'))
    _set_ownertrust(home, 6)
    _raw_gpg(home, ['--check-trustdb'])
    _raw_gpg(home, ['--list-keys'])
    return home


def _dispose_env(env, home):
    """Harness-side clean-up of an isolated environment whatever gemato did (debug=True leaves the home)."""
    try:
        env.close()
    except Exception:               # noqa: BLE001 - the judged close() already ran
        pass
    if home and os.path.isdir(home):
        _kill_agents(home)
        shutil.rmtree(home, ignore_errors=True)


def b2_lib(env, rec, text, expected, ctx, desc):
    """Every gpg-spawning operation of the library on ONE isolated environment, real gpg.
    -> (violations [(sig, text)], labels, executions, judged)"""
    M = material()
    viols, labels = [], []
    ihome = env.home
    n_exec = n_judged = 0

    def spawn_check(mark, what):
        calls = rec.log[mark:]
        for sig, t in check_homes(calls, ihome, ctx['user_home']):
            viols.append((sig, f'{desc}: during {what}: {t}'))
        return calls

    # operations without a verdict of their own: judged on where their gpg processes worked only
    for what, fn in (('import_key()', lambda: env.import_key(io.BytesIO(M['keys'][ctx['key']]))),
                     ('list_keys()', env.list_keys)):
        mark = len(rec.log)
        try:
            fn()
            labels.append('ok')
        except gx.GematoException as e:
            labels.append(type(e).__name__)
        except Exception as e:      # noqa: BLE001
            viols.append(({'check': 'internal_error', 'exc': type(e).__name__, 'where': where_of(e)},
                          f'{desc}: {what} raised {e!r}'))
            labels.append('internal')
        spawn_check(mark, what)
        n_exec += 1
    for fn in (obs_verify_file, obs_load):
        mark = len(rec.log)
        o = fn(env, text)
        calls = spawn_check(mark, o.iface)
        vs, _mm = b_judge(expected, calls, o, KEY_FPR, {'isolation': True})
        seq, ex, _u, _r = real_facts(calls)
        labels.append(o.label())
        for sig, t in vs:
            if sig['check'] == 'accepted_invalid':
                sig = {'check': 'isolated_env_validated_by_foreign_keyring'}
            viols.append((sig, f'[{o.iface}] {desc}, gpg said {" ".join(names(seq or ()))} exit {ex}: {t}'))
        n_exec += 1
        n_judged += 1
    # signing with an environment that holds public keys only: the outcome is not the subject of C05 (DONT_CARE),
    # where gpg worked is
    mark = len(rec.log)
    try:
        env.clear_sign_file(io.StringIO('DATA x 0\n'), io.StringIO())
        labels.append('signed')
    except gx.GematoException as e:
        labels.append(type(e).__name__)
    except Exception as e:          # noqa: BLE001
        viols.append(({'check': 'internal_error', 'exc': type(e).__name__, 'where': where_of(e)},
                      f'{desc}: clear_sign_file() raised {e!r}'))
        labels.append('internal')
    spawn_check(mark, 'clear_sign_file()')
    n_exec += 1
    mark = len(rec.log)
    try:
        env.close()
    except Exception as e:          # noqa: BLE001
        viols.append(({'check': 'internal_error', 'exc': type(e).__name__, 'where': where_of(e)},
                      f'{desc}: close() raised {e!r}'))
    spawn_check(mark, 'close()')
    return viols, labels, n_exec, n_judged


def b2_config(content, keyname, iface, scratch, stats=None, home=None, proxy=None, debug=False):
    """One (user home content, key file, entry point, proxy, debug) configuration.  -> violations"""
    M = material()
    text = M['texts']['SIGNED_MANIFEST']
    expected = dict(B2_KEYFILES)[keyname]
    case = {'part': 'B2', 'home': content, 'key': keyname, 'iface': iface, 'proxy': proxy, 'debug': bool(debug)}
    opts = opt_text(proxy, debug)
    own = home is None
    old = os.environ.get('GNUPGHOME')
    viols = []
    try:
        if own:
            home = make_user_home(scratch, content)
        os.environ['GNUPGHOME'] = home
        before = snapshot_home(home)
        if iface.startswith('lib'):
            rec = Recorder()
            desc = (f'user home {content}, IsolatedGPGEnvironment({opts})' + ('.clone()' if iface == 'lib clone' else '')
                    + f' holding key {keyname}')
            ctx = {'user_home': home, 'key': keyname}
            with _patched(rec.popen):
                with _tmp_under(scratch):
                    env0 = IsolatedGPGEnvironment(debug=debug, proxy=proxy)
                    home0 = env0.home
                    env, ihome = env0, home0
                    if iface == 'lib clone':
                        try:
                            env = env0.clone()
                            ihome = env.home
                        except Exception:           # noqa: BLE001
                            _dispose_env(env0, home0)
                            raise
                try:
                    vs, labels, n_exec, n_judged = b2_lib(env, rec, text, expected, ctx, desc)
                    if env is not env0:
                        mark = len(rec.log)
                        env0.close()
                        for sig, t in check_homes(rec.log[mark:], home0, home):
                            vs.append((sig, f'{desc}: during close() of the cloned environment: {t}'))
                finally:
                    _dispose_env(env, ihome)
                    if env is not env0:
                        _dispose_env(env0, home0)
            seen = set()
            for sig, t in vs:
                k = repr(sorted(sig.items()))
                if k not in seen:                   # one report per kind and configuration
                    seen.add(k)
                    viols.append((sig, case, f'{sig["check"]}: {t}'))
            calls = rec.log
            label = '/'.join(labels)
        else:
            flags = ('-s',) if iface == 'cli -s' else ()
            env_flags = (('--proxy', proxy) if proxy is not None else ()) + (('--debug',) if debug else ())
            o, calls, tmp, leftovers = b_cli_run(M['keys'][keyname], text, flags, scratch, home, env_flags)
            seq, ex, _u, _r = real_facts(calls)
            vs = judge_cli('accept' if expected else 'reject', o, True, bool(flags))
            what = f'[{o.iface} -K -R{"".join(" " + x for x in env_flags)}] user home {content}, key file {keyname}'
            for sig, t in vs:
                if sig['check'] == 'accepted_invalid':
                    sig = {'check': 'isolated_env_validated_by_foreign_keyring'}
                viols.append((sig, case, f'{sig["check"]}: {what}, '
                                         f'gpg said {" ".join(names(seq or ()))} exit {ex}; CLI {o.label()}: {t}'))
            for sig, t in cli_homes_check(calls, tmp, home):
                viols.append((sig, case, f'{sig["check"]}: {what}: {t}'))
            label = o.label()
            n_exec = n_judged = 1
        after = snapshot_home(home)
        if after != before:
            changed = sorted(k for k in set(before) | set(after) if before.get(k) != after.get(k))
            viols.append(({'check': 'user_home_modified'}, case,
                          f'user_home_modified: the user\'s GNUPGHOME changed while an isolated environment '
                          f'({opts}; {iface}) was in use: {changed}'))
            if not own:                             # the next configuration starts from the stated content again
                _kill_agents(home)
                make_user_home(scratch, content)
        if stats is not None:
            stats.evaluations += n_exec
            stats.compared += n_exec
            note_calls(stats, calls)
            stats.counters['B2_home_snapshots_compared'] += 1
            stats.counters[f'B2_opt:{"proxy" if proxy is not None else "no-proxy"},{"debug" if debug else "no-debug"}'] += 1
            stats.counters['B2_backend_processes_checked_for_GNUPGHOME'] += len(calls)
            acc = 'accept' if expected else 'reject'
            stats.outcomes[f'B2:{acc}/{iface}/{label}'] += 1
            if proxy is not None or debug:
                stats.outcomes[f'B2opt:{acc}/{"lib" if iface.startswith("lib") else "cli"}/'
                               + (label.split('/')[2] if iface.startswith('lib') else label)] += 1
            stats.case(('B2', content, keyname, iface, proxy is not None, bool(debug)), nontrivial=True)
    finally:
        if old is None:
            os.environ.pop('GNUPGHOME', None)
        else:
            os.environ['GNUPGHOME'] = old
        if own and home:
            _kill_agents(home)
    return viols


def b2_run(spec, tier, seed, scratch, stats):
    content, pi, debug = spec[1], spec[2], spec[3]
    proxy = proxy_url(seed, pi)
    M = material()
    home = make_user_home(scratch, content)
    old = os.environ.get('GNUPGHOME')
    try:
        # control: with the user's keyring (SystemGPGEnvironment) the fixture validates iff the home holds the
        # signer's key -- this is what makes "only the user's keyring could validate it" real
        os.environ['GNUPGHOME'] = home
        rec = Recorder()
        with _patched(rec.popen):
            o = obs_verify_file(SystemGPGEnvironment(debug=debug, proxy=proxy), M['texts']['SIGNED_MANIFEST'])
        want = USER_HOMES[content][1]
        vs, mismatch = b_judge(want, rec.log, o, KEY_FPR, {'home': content, 'env': 'system'})
        for sig, t in vs:
            _emit(stats, sig, {'part': 'B2control', 'home': content, 'proxy_i': pi, 'debug': debug, 'seed': seed},
                  f'{sig["check"]}: [SystemGPGEnvironment({opt_text(proxy, debug)}).verify_file] user home {content}: {t}')
        stats.evaluations += 1
        stats.compared += 1
        note_calls(stats, rec.log)
        stats.outcomes[f'B2control:{"accept" if want else "reject"}/{o.label()}'] += 1
        stats.case(('B2control', content, pi, debug), nontrivial=True)
        if mismatch:
            stats.counters['B_model_mismatch'] += 1
            stats.notes.append(mismatch)
        if want and o.accepted:
            stats.counters['B2_control_user_keyring_validates'] += 1
    finally:
        if old is None:
            os.environ.pop('GNUPGHOME', None)
        else:
            os.environ['GNUPGHOME'] = old
    try:
        for keyname, _exp in B2_KEYFILES:
            for iface in B2_IFACES:
                for sig, case, msg in b2_config(content, keyname, iface, scratch, stats, home=home, proxy=proxy,
                                                debug=debug):
                    _emit(stats, sig, case, msg)
    finally:
        _kill_agents(home)


def b2_replay(case, scratch):
    if case['part'] == 'B2control':
        st = Stats()
        b2_run(('B2', case['home'], case.get('proxy_i'), bool(case.get('debug'))), 'quick', case.get('seed', 0),
               scratch, st)
        return [{'sig': v['sig'], 'case': v['case'], 'message': v['message']} for v in st.violations
                if v['case'].get('part') == 'B2control']
    return [{'sig': s, 'case': c, 'message': m}
            for s, c, m in b2_config(case['home'], case['key'], case['iface'], scratch, proxy=case.get('proxy'),
                                     debug=bool(case.get('debug')))]


# ---------------------------------------------------------------- B3: every single-byte mutation of a signed body

B = {'env': None, 'home': None, 'bases': None, 'parent': None}
B3_BODIES = (
    'TIMESTAMP 2017-10-22T18:06:41Z\nDATA {n} 0 SHA1 da39a3ee5e6b4b0d3255bfef95601890afd80709 \nIGNORE l-c\t\n',
)
B3_NAMES = ('abc', 'a_b', 'q.x')     # equal lengths: the position space must not depend on the seed
MUT_KINDS = ('xor01', 'xor20', 'delete', 'duplicate')
B3_CHUNK = 6


def split_signed(text):
    """-> (head incl. blank line, body incl. its final LF, tail from the BEGIN PGP SIGNATURE line)"""
    i = text.index('\n\n') + 2
    j = text.index('-----BEGIN PGP SIGNATURE-----')
    return text[:i], text[i:j], text[j:]


def canon(body):
    return tuple(ln.rstrip(' \t\r') for ln in body.split('\n'))


def in_trailing_ws(body, pos):
    """Is body[pos] part of the trailing whitespace run of its line?"""
    if body[pos] not in ' \t\r':
        return False
    e = body.find('\n', pos)
    return body[pos:(e if e >= 0 else len(body))].strip(' \t\r') == ''


def mutate(body, pos, kind):
    c = body[pos]
    if kind == 'xor01':
        return body[:pos] + chr(ord(c) ^ 0x01) + body[pos + 1:]
    if kind == 'xor20':
        return body[:pos] + chr(ord(c) ^ 0x20) + body[pos + 1:]
    if kind == 'delete':
        return body[:pos] + body[pos + 1:]
    return body[:pos] + c + body[pos:]


def _clearsign(home, body):
    p = _raw_gpg(home, ['--faked-system-time', FAKE_TIME, '--clearsign'], body.encode('utf8'))
    if p.returncode != 0:
        raise RuntimeError('gpg --clearsign failed: ' + p.stderr.decode('utf8', 'replace'))
    return p.stdout.decode('utf8')


def _cleanup_parent():
    if B['env'] is not None and B['parent'] == os.getpid():
        env, B['env'] = B['env'], None
        try:
            env.close()
        except Exception:           # noqa: BLE001 - best effort
            _kill_agents(B['home'])


def _decoy_home(under):
    """Whatever gemato does wrong, a gpg it starts WITHOUT forcing GNUPGHOME must land in scratch, never in the
    real ~/.gnupg: the process-wide GNUPGHOME points at an empty directory below the runner's scratch."""
    d = os.path.join(under, 'decoy-user-gnupghome')
    os.makedirs(d, mode=0o700, exist_ok=True)
    os.chmod(d, 0o700)
    os.environ['GNUPGHOME'] = d
    return d


def setup(tier, seed, base):
    M = material()
    B['parent'] = os.getpid()
    _decoy_home(base)
    env = _iso_env(base)
    B['env'], B['home'] = env, env.home
    atexit.register(_cleanup_parent)
    try:
        # fixture set-up must not depend on the code under test: the secret key goes into the fixture home
        # through a gpg started by the harness with GNUPGHOME given explicitly
        pr = _raw_gpg(env.home, ['--import'], M['keys']['secret'])
        if pr.returncode != 0:
            raise RuntimeError('fixture key import failed: ' + pr.stderr.decode('utf8', 'replace'))
        _set_ownertrust(env.home, 6)
        bases = []
        for tmpl in B3_BODIES:
            bases.append(('signed-here', _clearsign(env.home, tmpl.format(n=B3_NAMES[seed % len(B3_NAMES)]))))
        if tier == 'thorough':
            bases.append(('suite-fixture', M['texts']['SIGNED_MANIFEST'].lstrip('\n')))
        try:                                      # settle the trustdb single-threaded before workers share the home
            with io.StringIO(bases[0][1]) as fh:
                env.verify_file(fh)
        except gx.GematoException:
            pass                                  # judged by the B3 identity case, not here
    finally:
        _kill_agents(env.home)                    # the agent was only needed for signing
    B['bases'] = bases


def b3_check(env, base_name, text, pos, kind):
    """-> (label, violations [(sig, text)], calls, dontcare?)"""
    head, body, tail = split_signed(text)
    mbody = mutate(body, pos, kind)
    # the statement exempts trailing whitespace: changing such a byte, or leaving the canonical text unchanged
    same = canon(mbody) == canon(body) or in_trailing_ws(body, pos)
    rec = Recorder()
    with _patched(rec.popen):
        o = obs_verify_file(env, head + mbody + tail)
    seq, ex, _u, _r = real_facts(rec.log)
    viols = []
    if o.where is not None:
        viols.append(({'check': 'internal_error', 'exc': o.exc, 'where': o.where}, o.detail))
    elif not same:
        if o.accepted:
            viols.append(({'check': 'mutated_signed_text_accepted', 'kind': kind},
                          f'byte {pos} ({body[pos]!r}) {kind}: the changed signed text is accepted; '
                          f'gpg said {" ".join(names(seq or ()))} exit {ex}'))
        elif seq is not None:
            _k, info = expect(seq_facts(seq), ex)
            if _k == 'reject' and o.exc not in info:
                viols.append(({'check': 'wrong_failure_class', 'got': o.exc, 'applicable': first_applicable(info)},
                              f'byte {pos} {kind}: rejected with {o.exc}, applicable {sorted(info)}'))
    viols += check_homes(rec.log, env.home, None)
    label = ('trailing_whitespace_only' if same else 'changed') + '/' + o.label()
    return label, viols, rec.log, same


def b3_run(spec, tier, seed, scratch, stats):
    _b, bi, start, stop = spec
    name, text = B['bases'][bi]
    env = B['env']
    _h, body, _t = split_signed(text)
    for pos in range(start, min(stop, len(body))):
        for kind in MUT_KINDS:
            label, viols, calls, same = b3_check(env, name, text, pos, kind)
            stats.evaluations += 1
            note_calls(stats, calls)
            stats.outcomes['B3:' + label] += 1
            stats.case(('B3', bi, pos, kind), nontrivial=True)
            if same:
                stats.dontcare['mutation touches only trailing whitespace / canonical signed text unchanged'] += 1
            else:
                stats.compared += 1
            for sig, t in viols:
                _emit(stats, sig, {'part': 'B3', 'text': text, 'pos': pos, 'kind': kind, 'base': name},
                      f'{sig["check"]}: [IsolatedGPGEnvironment.verify_file] base {name}: {t}')
    if start == 0:
        rec = Recorder()
        with _patched(rec.popen):
            o = obs_verify_file(env, text)
        note_calls(stats, rec.log)
        stats.evaluations += 1
        stats.compared += 1
        stats.case(('B3', bi, 'identity'))
        stats.outcomes['B3:identity/' + o.label()] += 1
        if o.accepted:
            stats.counters['B3_identity_accepted'] += 1
        else:
            _emit(stats, {'check': 'valid_signature_rejected', 'got': o.exc},
                  {'part': 'B3', 'text': text, 'pos': -1, 'kind': 'identity', 'base': name},
                  f'valid_signature_rejected: unmutated signed Manifest {name} rejected with {o.exc}')


def b3_replay(case, scratch):
    M = material()
    env = _iso_env(scratch)
    try:
        env.import_key(io.BytesIO(M['keys']['valid']))
        if case['kind'] == 'identity':
            o = obs_verify_file(env, case['text'])
            return ([] if o.accepted else
                    [{'sig': {'check': 'valid_signature_rejected', 'got': o.exc}, 'case': case,
                      'message': f'valid_signature_rejected: unmutated signed Manifest rejected with {o.exc}'}])
        _l, viols, _c, _s = b3_check(env, case['base'], case['text'], case['pos'], case['kind'])
    finally:
        env.close()
    return [{'sig': s, 'case': case, 'message': f'{s["check"]}: {t}'} for s, t in viols]


# ====================================================================== Part E: constructor options x gpg-spawning operations
#
# Scripted backend (no gpg process, no network): the isolation clause "only the keys from that file count, whatever
# the user's own keyring contains, which is left untouched" is checked where it is decided -- on EVERY backend
# process an isolated environment starts, whatever options it was constructed with and whatever operation starts it.

E_PROXY = (None, 0, 1)              # None or an index into PROXY_URLS rotated by VERIF_SEED
E_DEBUG = (False, True)
E_VIA = ('ctor', 'clone')
# (GNUPGHOME exported in the process environment, http_proxy exported in the process environment)
E_AMBIENT = ((False, False), (True, False), (False, True), (True, True))
E_AMBIENT_PROXY = 'http://ambient-proxy.invalid:1'
# name -> verdict script (status sequence, exit) for the operations that return a verdict
E_VERDICTS = collections.OrderedDict([
    ('verify_file:good', (('GOODSIG', 'VALIDSIG', 'TRUST_ULTIMATE'), 0)),
    ('verify_file:untrusted', (('GOODSIG', 'VALIDSIG', 'TRUST_UNDEFINED'), 0)),
    ('load:good', (('GOODSIG', 'VALIDSIG', 'TRUST_FULLY'), 0)),
    ('load:bad', (('BADSIG',), 1)),
])
# every public operation of IsolatedGPGEnvironment that starts a backend process (close() ends every sequence)
E_OPS = ('import_key', 'import_key(trust=False)', 'list_keys') + tuple(E_VERDICTS) + (
    'clear_sign_file', 'clear_sign_file(keyid)', 'refresh_keys', 'refresh_keys(allow_wkd=False,keyserver)',
    'refresh_keys_wkd', 'refresh_keys_keyserver')
E_KEYSERVER = 'hkps://keys.invalid'
RULE = RULE.replace('@E_OPS@', f'{len(E_OPS)} operations {", ".join(E_OPS)}')


def e_len(tier):
    return 2 if tier == 'quick' else 3


def ev_len(tier):
    return 3 if tier == 'quick' else 4


class _ScriptProc(seams.PopenLike):
    def __init__(self, out, exit_):
        self._out, self._exit = out, exit_
        self.returncode = None

    def communicate(self, input=None, timeout=None):
        self.returncode = self._exit
        return self._out, b'gpg: scripted backend answer\n'

    def wait(self, timeout=None):
        self.returncode = self._exit
        return self._exit

    def poll(self):
        return self.returncode

    def kill(self):
        pass


class ScriptGpg:
    """A scripted gpg/gpgconf: answers every command of gpg's command vocabulary that gemato uses with a
    plausible, successful result and records (argv, home the process would work on)."""

    def __init__(self, P):
        self.P = P
        self.log = []
        self.verify = (b'', 2)
        self.unscripted = 0
        kid = P.pk[-16:]
        self.listing = (f'tru::1:1510131686:0:3:1:5\npub:u:2048:1:{kid}:1509702783:::u:::scESC::::::23::0:\n'
                        f'fpr:::::::::{P.pk}:\nuid:u::::1509702783::0000::gemato test key <gemato@example.com>'
                        f'::::::::::0:\n').encode('ascii')
        # the WKD answer / key file "holds" the key in the keyring and one more key
        self.imported = (f'[GNUPG:] IMPORT_OK 1 {P.pk}\n[GNUPG:] IMPORT_OK 1 {OTHER_FPR_E}\n'
                         '[GNUPG:] IMPORT_RES 2 0 2 0 0 0 0 0 0 0 0 0 0 0 0\n').encode('ascii')

    def popen(self, argv, stdin=None, stdout=None, stderr=None, env=None, **kw):
        argv = list(argv)
        self.log.append({'argv': argv, 'home': effective_home(argv, env), 'out': b'', 'err': b'', 'exit': 0})
        out, ex = b'', 0
        if argv and argv[0] == GNUPGCONF:
            pass
        elif '--verify' in argv:
            out, ex = self.verify
        elif '--import' in argv:
            out = self.imported
        elif '--list-keys' in argv:
            out = self.listing
        elif '--clearsign' in argv:
            out = self.P.envelope.encode('ascii')
        elif not any(a in argv for a in ('--import-ownertrust', '--refresh-keys', '--delete-keys')):
            self.unscripted += 1
        self.log[-1]['exit'] = ex
        return _ScriptProc(out, ex)


OTHER_FPR_E = '4B8349B90C56EE7F054D52871822F5424EB6DA81'


class _Resp:
    content = b'scripted WKD answer'

    def raise_for_status(self):
        pass


class _ReqExceptions:
    class ConnectionError(Exception):
        pass

    class HTTPError(Exception):
        pass


class _ShimGap(Exception):
    """gemato used a part of `requests` the scripted stand-in does not model: the operation is not judged."""


class _Requests:
    """Stands for the optional module `requests` inside gemato.openpgp: no network, every WKD URL answers."""
    exceptions = _ReqExceptions

    def __init__(self):
        self.gets = 0

    def __getattr__(self, name):
        raise _ShimGap(name)

    def get(self, url, **kw):
        self.gets += 1
        return _Resp()


@contextlib.contextmanager
def _scripted(sg, req):
    old = (gpgmod.subprocess, gpgmod.requests)
    gpgmod.subprocess, gpgmod.requests = _Shim(sg.popen), req
    try:
        yield
    finally:
        gpgmod.subprocess, gpgmod.requests = old
        logging.getLogger().setLevel(logging.INFO)


@contextlib.contextmanager
def _ambient(gnupghome, http_proxy):
    """The process environment gemato runs in: GNUPGHOME / http_proxy exported (value) or not (None)."""
    keys = ('GNUPGHOME', 'http_proxy')
    old = {k: os.environ.get(k) for k in keys}
    try:
        for k, v in zip(keys, (gnupghome, http_proxy)):
            if v is None:
                os.environ.pop(k, None)
            else:
                os.environ[k] = v
        yield
    finally:
        for k, v in old.items():
            if v is None:
                os.environ.pop(k, None)
            else:
                os.environ[k] = v


def _e_dirs(scratch):
    tmp = fresh_root(scratch, 'e-tmp')
    user = os.path.join(scratch, 'e-user-gnupghome')
    os.makedirs(user, mode=0o700, exist_ok=True)
    return tmp, user


def _e_op(op, env, P, sg):
    """Run one operation.  -> (Obs for verdict operations | None, label)"""
    if op in E_VERDICTS:
        seq_names, ex = E_VERDICTS[op]
        sg.verify = (P.stdout(tuple(IDX[k] for k in seq_names)), ex)
        o = (obs_verify_file if op.startswith('verify_file') else obs_load)(env, P.envelope)
        return o, o.label()
    try:
        if op == 'import_key':
            env.import_key(io.BytesIO(b'scripted key file'))
        elif op == 'import_key(trust=False)':
            env.import_key(io.BytesIO(b'scripted key file'), trust=False)
        elif op == 'list_keys':
            env.list_keys()
        elif op == 'clear_sign_file':
            env.clear_sign_file(io.StringIO('DATA x 0\n'), io.StringIO())
        elif op == 'clear_sign_file(keyid)':
            env.clear_sign_file(io.StringIO('DATA x 0\n'), io.StringIO(), keyid=P.fpr)
        elif op == 'refresh_keys':
            env.refresh_keys()
        elif op == 'refresh_keys(allow_wkd=False,keyserver)':
            env.refresh_keys(allow_wkd=False, keyserver=E_KEYSERVER)
        elif op == 'refresh_keys_wkd':
            env.refresh_keys_wkd()
        elif op == 'refresh_keys_keyserver':
            env.refresh_keys_keyserver()
        else:
            raise ValueError(op)
        return None, 'ok'
    except gx.GematoException as e:
        return None, 'exc:' + type(e).__name__
    except _ShimGap:
        return None, 'requests-stand-in-incomplete'
    except Exception as e:          # noqa: BLE001 - observation
        o = Obs(op)
        _fill_exc(o, e)
        return o, 'internal'


def e_case(pi, debug, via, amb, ops, seed, scratch, stats=None):
    """One (proxy, debug, construction, process environment, operation sequence) case.  -> [(sig, case, msg)]"""
    P = present(seed)
    proxy = proxy_url(seed, pi)
    tmp, user = _e_dirs(scratch)
    sg = ScriptGpg(P)
    case = {'part': 'E', 'proxy_i': pi, 'debug': bool(debug), 'via': via, 'ambient': list(amb), 'ops': list(ops),
            'seed': seed}
    desc = (f'IsolatedGPGEnvironment({opt_text(proxy, debug)})' + ('.clone()' if via == 'clone' else '')
            + f' with GNUPGHOME {"exported" if amb[0] else "not exported"}'
            + (', http_proxy exported' if amb[1] else ''))
    forbidden = user if amb[0] else None
    viols = []
    seen = set()

    def emit(sig, text):
        k = repr(sorted(sig.items()))
        if k not in seen:
            seen.add(k)
            viols.append((sig, case, f'{sig["check"]}: {desc}: {text}'))

    def spawns(mark, home, what):
        calls = sg.log[mark:]
        for sig, t in check_homes(calls, home, forbidden):
            emit(sig, f'during {what} (operations so far: {", ".join(ops) or "none"}): {t}')
        return calls

    with _ambient(user if amb[0] else None, E_AMBIENT_PROXY if amb[1] else None), _scripted(sg, _Requests()), \
            _tmp_under(tmp):
        envs = []
        try:
            env = IsolatedGPGEnvironment(debug=debug, proxy=proxy)
            envs.append((env, env.home))
            if via == 'clone':
                env = env.clone()
                envs.append((env, env.home))
            home = envs[-1][1]
            if home == user or not os.path.isdir(home):
                emit({'check': 'isolated_home_not_private'}, f'the environment\'s home is {home!r}')
            for op in ops:
                mark = len(sg.log)
                o, label = _e_op(op, env, P, sg)
                calls = spawns(mark, home, op)
                if stats is not None:
                    stats.evaluations += 1
                    stats.counters['E_spawns:' + op] += len(calls)
                if o is not None and o.where is not None:
                    emit({'check': 'internal_error', 'exc': o.exc, 'where': o.where},
                         f'{op}: internal error {o.exc} at {o.where}: {o.detail}')
                    label = 'internal'
                elif op in E_VERDICTS:
                    seq_names, ex = E_VERDICTS[op]
                    f = seq_facts(tuple(IDX[k] for k in seq_names))
                    kind, info = expect(f, ex)
                    for sig, t in judge_lib(kind, info, o, f, ex):
                        emit(sig, f'[{op}] status {" ".join(seq_names)} exit {ex}: {t}')
                    if stats is not None:
                        stats.compared += 1
                        stats.outcomes[f'E:{kind}/{o.iface}/{label}'] += 1
                elif stats is not None:
                    stats.compared += 1         # judged on where its backend processes worked
                    stats.outcomes[f'E:{op.split("(")[0]}/{label}'] += 1
            for e, h in reversed(envs):
                mark = len(sg.log)
                e.close()
                calls = spawns(mark, h, 'close()')
                if stats is not None:
                    stats.evaluations += 1
                    stats.compared += 1
                    stats.counters['E_spawns:close'] += len(calls)
                    stats.outcomes['E:close/' + ('home kept (debug)' if os.path.isdir(h) else 'home removed')] += 1
        except Exception as e:      # noqa: BLE001 - constructor / clone / close failing is an internal error
            if isinstance(e, (KeyboardInterrupt, MemoryError)):
                raise
            emit({'check': 'internal_error', 'exc': type(e).__name__, 'where': where_of(e)},
                 f'constructing, cloning or closing the environment raised {e!r}')
        finally:
            for e, h in envs:
                try:
                    e.close()
                except Exception:   # noqa: BLE001
                    pass
                shutil.rmtree(h, ignore_errors=True)
    if stats is not None:
        stats.transitions += len(sg.log)
        stats.counters['E_backend_processes_checked_for_GNUPGHOME'] += len(sg.log)
        stats.counters['E_backend_argv_unscripted'] += sg.unscripted
    return viols


def e_run(spec, tier, seed, scratch, stats):
    _e, pi, debug, via, amb = spec
    L = e_len(tier)
    for n in range(L + 1):
        for ops in itertools.product(E_OPS, repeat=n):
            for sig, case, msg in e_case(pi, debug, via, amb, ops, seed, scratch, stats):
                _emit(stats, sig, case, msg)
            stats.counters['E_cases'] += 1
            stats.case(('E', pi, debug, via, amb, ops), nontrivial=n > 0)
    stats.counters[f'E_opt:proxy={"none" if pi is None else pi},debug={debug},{via}'] += 1
    if len(stats.samples) < 1 and spec[1:] == (0, False, 'ctor', (True, False)):
        P = present(seed)
        sg = ScriptGpg(P)
        tmp, user = _e_dirs(scratch)
        with _ambient(user, None), _scripted(sg, _Requests()), _tmp_under(tmp):
            with IsolatedGPGEnvironment(proxy=proxy_url(seed, 0)) as env:
                home = env.home
                env.import_key(io.BytesIO(b'scripted key file'))
        stats.sample({'part': 'E', 'proxy': proxy_url(seed, 0), 'exported GNUPGHOME': '<user>',
                      'backend processes': [[' '.join(r['argv'][1:]),
                                             'isolated home' if r['home'] == home else
                                             ('<user>' if r['home'] == user else str(r['home']))] for r in sg.log]})


# ---------------------------------------------------------------- EV: the acceptance rule under every option

def ev_slow(pi, debug, seq, ex, seed, scratch):
    """Full judgement of one (options, sequence, exit) case through IsolatedGPGEnvironment.verify_file and
    ManifestFile.load.  -> [(sig, case, msg)]"""
    P = present(seed)
    proxy = proxy_url(seed, pi)
    seq = tuple(seq)
    f = seq_facts(seq)
    kind, info = expect(f, ex)
    tmp, _user = _e_dirs(scratch)
    sg = ScriptGpg(P)
    sg.verify = (P.stdout(seq), ex)
    case = {'part': 'EV', 'proxy_i': pi, 'debug': bool(debug), 'seq': names(seq), 'exit': ex, 'seed': seed}
    viols = []
    with _scripted(sg, _Requests()), _tmp_under(tmp):
        env = IsolatedGPGEnvironment(debug=debug, proxy=proxy)
        home = env.home
        try:
            for fn in (obs_verify_file, obs_load):
                mark = len(sg.log)
                o = fn(env, P.envelope)
                for sig, t in judge_lib(kind, info, o, f, ex) + check_homes(sg.log[mark:], home, None):
                    viols.append((sig, case, f'{sig["check"]}: [IsolatedGPGEnvironment({opt_text(proxy, debug)}).'
                                             f'{o.iface}] status {" ".join(names(seq)) or "<none>"} exit {ex}: {t}'))
        finally:
            env.close()
            shutil.rmtree(home, ignore_errors=True)
    return viols


def ev_run(spec, tier, seed, scratch, stats):
    _e, pi, debug = spec
    P = present(seed)
    proxy = proxy_url(seed, pi)
    L = ev_len(tier)
    tmp, _user = _e_dirs(scratch)
    sg = ScriptGpg(P)
    text = P.envelope
    outc = collections.Counter()
    n_cases = n_dc = 0
    slow = []
    with _scripted(sg, _Requests()), _tmp_under(tmp):
        env = IsolatedGPGEnvironment(debug=debug, proxy=proxy)
        home = env.home
        try:
            for n in range(L + 1):
                for seq in itertools.product(range(N), repeat=n):
                    f = seq_facts(seq)
                    out = P.stdout(seq)
                    for ex in EXITS:
                        kind, info = expect(f, ex)
                        n_cases += 1
                        sg.verify = (out, ex)
                        del sg.log[:]
                        m = ManifestFile()
                        try:
                            r = env.verify_file(io.StringIO(text))
                            got = 'ret' if r is not None else 'ret:None'
                            m.load(io.StringIO(text), verify_openpgp=True, openpgp_env=env)
                            got2 = 'ret' if m.openpgp_signed and m.openpgp_signature is not None else 'ret:unsigned'
                        except FAIL_CLASSES as e:
                            got = got2 = type(e).__name__
                            if m.openpgp_signed or m.openpgp_signature is not None:
                                got2 = 'signed-after-failure'
                        except Exception:       # noqa: BLE001 - slow path reports it
                            got = got2 = 'internal'
                        homes_ok = len(sg.log) >= 1 and all(r['home'] == home for r in sg.log)
                        if kind == 'dc':
                            n_dc += 1
                            stats.dontcare[info] += 1
                            bad = got in ('internal', 'ret:None') or (got == 'ret' and got2 != 'ret')
                        elif kind == 'accept':
                            bad = not (got == 'ret' and got2 == 'ret')
                        else:
                            bad = got not in info or got2 != got
                        if bad or not homes_ok:
                            slow.append((seq, ex))
                        outc[f'EV:{kind}/' + ('ret' if got == 'ret' else 'exc:' + got)] += 1
                        stats.counters['EV_backend_processes_checked_for_GNUPGHOME'] += len(sg.log)
                        stats.transitions += len(sg.log)
        finally:
            env.close()
            shutil.rmtree(home, ignore_errors=True)
    for seq, ex in slow:
        for sig, case, msg in ev_slow(pi, debug, seq, ex, seed, scratch):
            _emit(stats, sig, case, msg)
    stats.evaluations += 2 * n_cases
    stats.compared += 2 * (n_cases - n_dc)
    stats.outcomes.update(outc)
    stats.counters['EV_cases'] += n_cases
    stats.case(('EV', pi, debug), nontrivial=True)


# ---------------------------------------------------------------- EC: the -K commands x their environment flags

EC_CMDS = ('verify', 'openpgp-verify')
EC_REFRESH = ((), ('-R',), ('-W',), ('--keyserver', E_KEYSERVER), ('-W', '--keyserver', E_KEYSERVER))
EC_VERDICTS = ('verify_file:good', 'verify_file:untrusted', 'load:bad')


def ec_case(cmd, pi, debug, refresh, sflag, amb, verdict, seed, scratch, stats=None):
    """`gemato <cmd> -K keyfile [--proxy URL] [--debug] <refresh flags> [-s] target` on the scripted backend."""
    P = present(seed)
    proxy = proxy_url(seed, pi)
    tmp, user = _e_dirs(scratch)
    root = a_tree(scratch, P)
    kf = os.path.join(scratch, 'e-key.bin')
    with open(kf, 'wb') as fh:
        fh.write(b'scripted key file')
    sg = ScriptGpg(P)
    seq_names, ex = E_VERDICTS[verdict]
    sg.verify = (P.stdout(tuple(IDX[k] for k in seq_names)), ex)
    f = seq_facts(tuple(IDX[k] for k in seq_names))
    kind, _info = expect(f, ex)
    pre = (('-K', kf) + (('--proxy', proxy) if proxy is not None else ()) + (('--debug',) if debug else ())
           + tuple(refresh) + (('-s',) if sflag else ()))
    target = root if cmd == 'verify' else os.path.join(root, 'Manifest')
    case = {'part': 'EC', 'cmd': cmd, 'proxy_i': pi, 'debug': bool(debug), 'refresh': list(refresh), 's': bool(sflag),
            'ambient': list(amb), 'verdict': verdict, 'seed': seed}
    shown = ' '.join((cmd, '-K', '<keyfile>') + pre[2:])
    desc = (f'`gemato {shown} …` with GNUPGHOME {"exported" if amb[0] else "not exported"}'
            + (', http_proxy exported' if amb[1] else ''))
    viols = []
    with _ambient(user if amb[0] else None, E_AMBIENT_PROXY if amb[1] else None), _scripted(sg, _Requests()), \
            _tmp_under(tmp):
        o = Obs('cli')
        r = gem.cli([cmd] + list(pre) + [target])
        o.exit = r['exit']
        o.reported = any(VALID_LOG in msg for _lv, msg in r['log'])
        o.accepted = (o.exit == 0)
        if r['kind'] == 'exc' and r.get('class') != 'exit':
            o.exc = r['exc']
            if r.get('class') == 'internal':
                o.where = r.get('where')
                o.detail = r.get('msg', '')
    leftovers = sorted(d for d in os.listdir(tmp) if d.startswith('gemato.'))
    vs = cli_homes_check(sg.log, tmp, user if amb[0] else None)
    gap = o.exc == '_ShimGap'
    if gap:
        pass                        # the refresh step met an unmodelled part of `requests`: only the homes are judged
    elif o.where is not None or o.exit is None:
        vs.append(({'check': 'internal_error', 'exc': o.exc, 'where': o.where},
                   f'internal error {o.exc} at {o.where}: {o.detail}'))
    elif cmd == 'verify':
        vs += judge_cli(kind, o, True, sflag)
    if leftovers and not debug and not gap:
        vs.append(({'check': 'isolated_home_not_removed'}, f'left behind {leftovers}'))
    seen = set()
    for sig, t in vs:
        k = repr(sorted(sig.items()))
        if k not in seen:
            seen.add(k)
            viols.append((sig, case, f'{sig["check"]}: {desc}; scripted gpg said {" ".join(seq_names)} exit {ex}; '
                                     f'CLI {o.label()}: {t}'))
    if stats is not None:
        stats.evaluations += 1
        stats.compared += 1
        stats.transitions += len(sg.log)
        stats.counters['EC_backend_processes_checked_for_GNUPGHOME'] += len(sg.log)
        stats.counters['E_backend_argv_unscripted'] += sg.unscripted
        for rr in sg.log:
            stats.counters['EC_spawns:' + next((a for a in rr['argv'][1:] if a.startswith('--')
                                                and a not in _NOT_AN_OP), '?')] += 1
        stats.outcomes[f'EC:{kind}/{cmd}{" -s" if sflag else ""}/{o.label()}'] += 1
        if gap:
            stats.dontcare['scripted stand-in for `requests` incomplete for this gemato'] += 1
    return viols


def ec_run(spec, tier, seed, scratch, stats):
    _e, cmd, pi, debug = spec
    for refresh in EC_REFRESH:
        for sflag in ((False, True) if cmd == 'verify' else (False,)):
            for amb in E_AMBIENT:
                for verdict in EC_VERDICTS:
                    for sig, case, msg in ec_case(cmd, pi, debug, refresh, sflag, amb, verdict, seed, scratch, stats):
                        _emit(stats, sig, case, msg)
                    stats.counters['EC_cases'] += 1
                    stats.case(('EC', cmd, pi, debug, refresh, sflag, amb, verdict), nontrivial=True)


# ---------------------------------------------------------------- EK / B2K: how the key file of -K is spelled
#
# "when a key file is given (-K) only the keys from that file count, whatever the user's own keyring contains":
# the option is GIVEN as soon as it is on the command line, whatever its value is.  Alphabet: the four ways argparse
# lets the user attach the value x what the value names.

K_SPELLINGS = ('-K VALUE', '-K=VALUE', '--openpgp-key VALUE', '--openpgp-key=VALUE')
# what the value names -> does it name a readable file (keys can come from it at all)
K_VALUES = collections.OrderedDict([
    ('key file', True),             # a readable file with key material (scripted gpg: imports; real gpg: B2 proper)
    ('empty string', False),        # what a wrapper script passes when its key-file variable is unset
    ('missing file', False),
    ('directory', False),
    ('empty file', True),           # readable, holds no key
])
EK_REFRESH = ((), ('-R',))
EK_AMBIENT = ((False, False), (True, False))        # GNUPGHOME exported in the process environment or not
B2K_VALUES = tuple(v for v in K_VALUES if v != 'key file')
B2K_HOMES = ('signer_ultimate', 'unrelated_keys')
DC_KEY_VALUE = '-K value names no usable key file: non-zero exit / error of any kind is fine'


def k_args(spelling, value):
    opt, sep = ('-K' if spelling.startswith('-K') else '--openpgp-key'), ('=' in spelling)
    return (opt + '=' + value,) if sep else (opt, value)


def k_value(vkind, scratch, blob):
    """The concrete option value for one value kind (files below scratch/k-values, recreated)."""
    d = fresh_root(scratch, 'k-values')
    if vkind == 'empty string':
        return ''
    if vkind == 'missing file':
        return os.path.join(d, 'no-such-key.bin')
    if vkind == 'directory':
        p = os.path.join(d, 'keys.d')
        os.mkdir(p)
        return p
    p = os.path.join(d, 'key.bin')
    with open(p, 'wb') as fh:
        fh.write(blob if vkind == 'key file' else b'')
    return p


def k_obs(argv):
    """Run one gemato command line.  An OSError leaving main() ends the real program with a traceback and a
    non-zero exit status: recorded as an error exit, not as an internal error."""
    o = Obs('cli')
    r = gem.cli(argv)
    o.exit = r['exit']
    o.reported = any(VALID_LOG in msg for _lv, msg in r['log'])
    if r['kind'] == 'exc' and r.get('class') != 'exit':
        o.exc = r['exc']
        if r.get('class') == 'internal':
            o.where = r.get('where')
            o.detail = r.get('msg', '')
        elif r.get('class') == 'oserror':
            o.exit = 'error:' + r['exc']
    o.accepted = (o.exit == 0)
    return o


def k_judge(cmd, vkind, kind, o, sflag):
    """Verdict part of the oracle (the home of every backend process is judged by the caller).
    -> ([(sig, text)], dontcare reason|None)"""
    if o.where is not None or o.exit is None:
        return [({'check': 'internal_error', 'exc': o.exc, 'where': o.where},
                 f'internal error {o.exc} at {o.where}: {o.detail}')], None
    if vkind == 'key file':
        return (judge_cli(kind, o, True, sflag) if cmd == 'verify' else []), None
    out = []
    if not K_VALUES[vkind]:
        # no file, so no key that counts: nothing can be accepted
        if o.reported or (cmd == 'verify' and o.exit == 0):
            out.append(({'check': 'accepted_without_key_file', 'value': vkind},
                        f'-K names no readable file ({vkind}) but the signature was accepted'
                        + (' (valid signature reported)' if o.reported else '') + f', exit {o.exit}'))
        return out, (None if out else DC_KEY_VALUE)
    # empty file: whatever the backend makes of it; acceptance only as in Part A
    if cmd == 'verify' and kind == 'reject':
        out = judge_cli(kind, o, True, sflag)
    return out, (None if out or o.exit == 0 else DC_KEY_VALUE)


def ek_case(cmd, spelling, vkind, refresh, sflag, amb, verdict, seed, scratch, stats=None):
    """`gemato <cmd> <-K in one spelling, one kind of value> <refresh flags> [-s] target` on the scripted backend."""
    P = present(seed)
    tmp, user = _e_dirs(scratch)
    root = a_tree(scratch, P)
    value = k_value(vkind, scratch, b'scripted key file')
    sg = ScriptGpg(P)
    seq_names, ex = E_VERDICTS[verdict]
    sg.verify = (P.stdout(tuple(IDX[k] for k in seq_names)), ex)
    kind, _info = expect(seq_facts(tuple(IDX[k] for k in seq_names)), ex)
    pre = k_args(spelling, value) + tuple(refresh) + (('-s',) if sflag else ())
    target = root if cmd == 'verify' else os.path.join(root, 'Manifest')
    case = {'part': 'EK', 'cmd': cmd, 'spelling': spelling, 'value': vkind, 'refresh': list(refresh), 's': bool(sflag),
            'ambient': list(amb), 'verdict': verdict, 'seed': seed}
    shown = ' '.join((cmd,) + k_args(spelling, f'<{vkind}>') + pre[len(k_args(spelling, value)):])
    desc = f'`gemato {shown} …` with GNUPGHOME {"exported" if amb[0] else "not exported"}'
    with _ambient(user if amb[0] else None, None), _scripted(sg, _Requests()), _tmp_under(tmp):
        o = k_obs([cmd] + list(pre) + [target])
    vs = cli_homes_check(sg.log, tmp, user if amb[0] else None)
    dc = None
    if o.exc != '_ShimGap':
        jv, dc = k_judge(cmd, vkind, kind, o, sflag)
        vs += jv
    seen = set()
    viols = []
    for sig, t in vs:
        k = repr(sorted(sig.items()))
        if k not in seen:
            seen.add(k)
            viols.append((sig, case, f'{sig["check"]}: {desc}; scripted gpg would say {" ".join(seq_names)} exit {ex}; '
                                     f'CLI {o.label()}: {t}'))
    if stats is not None:
        stats.evaluations += 1
        stats.compared += 1             # where its backend processes work is judged on every case
        stats.transitions += len(sg.log)
        stats.counters['EK_backend_processes_checked_for_GNUPGHOME'] += len(sg.log)
        stats.counters['E_backend_argv_unscripted'] += sg.unscripted
        stats.counters['EK_value:' + vkind] += 1
        stats.counters['EK_spelling:' + spelling] += 1
        ran = 'verified' if any('--verify' in r['argv'] for r in sg.log) else 'no verification'
        stats.outcomes[f'EK:{kind if K_VALUES[vkind] else "nokey"}/{vkind}/{ran}/'
                       + ('exit=0' if o.exit == 0 else 'nonzero-or-error')] += 1
        if dc:
            stats.dontcare[dc] += 1
    return viols


def ek_run(spec, tier, seed, scratch, stats):
    _e, cmd, spelling, vkind = spec
    for refresh in EK_REFRESH:
        for sflag in ((False, True) if cmd == 'verify' else (False,)):
            for amb in EK_AMBIENT:
                for verdict in EC_VERDICTS:
                    for sig, case, msg in ek_case(cmd, spelling, vkind, refresh, sflag, amb, verdict, seed, scratch,
                                                  stats):
                        _emit(stats, sig, case, msg)
                    stats.counters['EK_cases'] += 1
                    stats.case(('EK', cmd, spelling, vkind, refresh, sflag, amb, verdict), nontrivial=True)


def ek_space():
    return (len(K_SPELLINGS) * len(K_VALUES) * len(EK_REFRESH) * len(EK_AMBIENT) * len(EC_VERDICTS)
            * sum(2 if c == 'verify' else 1 for c in EC_CMDS))


def b2k_config(content, spelling, vkind, sflag, scratch, stats=None, home=None):
    """Real gpg: `gemato verify <-K spelled, value kind> -R [-s] tree` on a tree whose Manifest is genuinely signed,
    with the user's own GNUPGHOME (content) exported.  -> violations"""
    M = material()
    text = M['texts']['SIGNED_MANIFEST']
    case = {'part': 'B2K', 'home': content, 'spelling': spelling, 'value': vkind, 's': bool(sflag)}
    own = home is None
    old = os.environ.get('GNUPGHOME')
    viols = []
    try:
        if own:
            home = make_user_home(scratch, content)
        os.environ['GNUPGHOME'] = home
        before = snapshot_home(home)
        root = fresh_root(scratch, 'b')
        write_fixture_tree(root, text)
        value = k_value(vkind, scratch, b'')
        tmp = fresh_root(scratch, 'tmp')
        rec = Recorder()
        try:
            with _patched(rec.popen), _tmp_under(tmp):
                o = k_obs(['verify'] + list(k_args(spelling, value)) + ['-R'] + (['-s'] if sflag else []) + [root])
        finally:
            logging.getLogger().setLevel(logging.INFO)
        for d in sorted(d for d in os.listdir(tmp) if d.startswith('gemato.')):
            _kill_agents(os.path.join(tmp, d))
            shutil.rmtree(os.path.join(tmp, d), ignore_errors=True)
        calls = rec.log
        seq, ex, _u, _r = real_facts(calls)
        what = (f'[verify {" ".join(k_args(spelling, "<" + vkind + ">"))} -R{" -s" if sflag else ""}] '
                f'user home {content}')
        vs = list(cli_homes_check(calls, tmp, home))
        if o.where is not None or o.exit is None:
            vs.append(({'check': 'internal_error', 'exc': o.exc, 'where': o.where},
                       f'internal error {o.exc} at {o.where}: {o.detail}'))
        elif o.reported or o.exit == 0:
            # neither an unreadable nor an empty file provides a key: no signature can be accepted
            vs.append(({'check': 'accepted_without_key_file', 'value': vkind},
                       f'the key file ({vkind}) provides no key but the signed Manifest was accepted'
                       + (' (valid signature reported)' if o.reported else '') + f', exit {o.exit}'))
        for sig, t in vs:
            viols.append((sig, case, f'{sig["check"]}: {what}, gpg said {" ".join(names(seq or ())) or "nothing"} '
                                     f'exit {ex}; CLI {o.label()}: {t}'))
        after = snapshot_home(home)
        if after != before:
            changed = sorted(k for k in set(before) | set(after) if before.get(k) != after.get(k))
            viols.append(({'check': 'user_home_modified'}, case,
                          f'user_home_modified: {what}: the user\'s GNUPGHOME changed: {changed}'))
            if not own:
                _kill_agents(home)
                make_user_home(scratch, content)
        if stats is not None:
            stats.evaluations += 1
            stats.compared += 1
            note_calls(stats, calls)
            stats.counters['B2_home_snapshots_compared'] += 1
            stats.counters['B2K_cases'] += 1
            stats.counters['B2K_backend_processes_checked_for_GNUPGHOME'] += len(calls)
            stats.outcomes[f'B2K:nokey/{vkind}/' + ('exit=0' if o.exit == 0 else
                                                   ('error' if isinstance(o.exit, str) else 'nonzero'))] += 1
            stats.case(('B2K', content, spelling, vkind, bool(sflag)), nontrivial=True)
    finally:
        if old is None:
            os.environ.pop('GNUPGHOME', None)
        else:
            os.environ['GNUPGHOME'] = old
        if own and home:
            _kill_agents(home)
    return viols


def b2k_run(spec, tier, seed, scratch, stats):
    content = spec[1]
    home = make_user_home(scratch, content)
    try:
        for spelling in K_SPELLINGS:
            for vkind in B2K_VALUES:
                for sflag in (False, True):
                    for sig, case, msg in b2k_config(content, spelling, vkind, sflag, scratch, stats, home=home):
                        _emit(stats, sig, case, msg)
    finally:
        _kill_agents(home)


def b2k_space():
    return len(B2K_HOMES) * len(K_SPELLINGS) * len(B2K_VALUES) * 2


def e_space(tier):
    per = sum(len(E_OPS) ** k for k in range(e_len(tier) + 1))
    return per * len(E_PROXY) * len(E_DEBUG) * len(E_VIA) * len(E_AMBIENT)


def ev_space(tier):
    return sum(N ** k for k in range(ev_len(tier) + 1)) * len(EXITS) * len(E_PROXY) * len(E_DEBUG)


def ec_space():
    return (len(E_PROXY) * len(E_DEBUG) * len(EC_REFRESH) * len(E_AMBIENT) * len(EC_VERDICTS)
            * sum(2 if c == 'verify' else 1 for c in EC_CMDS))


def e_replay(case, scratch):
    part = case['part']
    if part == 'E':
        got = e_case(case['proxy_i'], case['debug'], case['via'], tuple(case['ambient']), tuple(case['ops']),
                     case['seed'], scratch)
    elif part == 'EV':
        got = ev_slow(case['proxy_i'], case['debug'], tuple(IDX[k] for k in case['seq']), case['exit'], case['seed'],
                      scratch)
    elif part == 'EK':
        got = ek_case(case['cmd'], case['spelling'], case['value'], tuple(case['refresh']), case['s'],
                      tuple(case['ambient']), case['verdict'], case['seed'], scratch)
    else:
        got = ec_case(case['cmd'], case['proxy_i'], case['debug'], tuple(case['refresh']), case['s'],
                      tuple(case['ambient']), case['verdict'], case['seed'], scratch)
    return [{'sig': s, 'case': c, 'message': m} for s, c, m in got]


# ====================================================================== runner interface

def worker_init(tier, seed, scratch):
    # argparse asks for the terminal size once per option of every sub-parser gemato.cli.main builds
    os.environ.setdefault('COLUMNS', '80')
    os.environ.setdefault('LINES', '24')
    if B['bases'] is None:          # stand-alone replay: setup() did not run in a parent
        _decoy_home(scratch)


def shards(tier, seed):
    if B['bases'] is None:
        raise RuntimeError('C05 setup() did not run')
    M = material()
    out = []
    for content in USER_HOMES:
        for pi in B2_PROXY:
            for debug in B2_DEBUG:
                out.append(('B2', content, pi, debug))
    for content in B2K_HOMES:
        out.append(('B2K', content))
    for st in M['states']:
        out.append(('B1', st))
        out.append(('B1cli', st))
    for bi, (_n, text) in enumerate(B['bases']):
        n = len(split_signed(text)[1])
        for s in range(0, n, B3_CHUNK):
            out.append(('B3', bi, s, s + B3_CHUNK))
    for pi in E_PROXY:                  # the deep shards of the thorough tier go before the many small ones
        for debug in E_DEBUG:
            out.append(('EV', pi, debug))
            for via in E_VIA:
                for amb in E_AMBIENT:
                    out.append(('E', pi, debug, via, amb))
    out.append(('A', 'short', 0))
    out += [('A', a, b) for a in range(N) for b in range(N)]
    out += [('H', i) for i in range(len(H_SEPS))]
    for pi in E_PROXY:
        for debug in E_DEBUG:
            for cmd in EC_CMDS:
                out.append(('EC', cmd, pi, debug))
    for cmd in EC_CMDS:
        for spelling in K_SPELLINGS:
            for vkind in K_VALUES:
                out.append(('EK', cmd, spelling, vkind))
    return out


def run_shard(spec, tier, seed, scratch):
    stats = Stats()
    kind = spec[0]
    if kind == 'A':
        a_run(spec, tier, seed, scratch, stats)
    elif kind == 'H':
        h_run(spec, tier, seed, scratch, stats)
    elif kind == 'B1':
        b1_run(spec, tier, seed, scratch, stats)
    elif kind == 'B1cli':
        b1cli_run(spec, tier, seed, scratch, stats)
    elif kind == 'B2':
        b2_run(spec, tier, seed, scratch, stats)
    elif kind == 'E':
        e_run(spec, tier, seed, scratch, stats)
    elif kind == 'EV':
        ev_run(spec, tier, seed, scratch, stats)
    elif kind == 'EC':
        ec_run(spec, tier, seed, scratch, stats)
    elif kind == 'EK':
        ek_run(spec, tier, seed, scratch, stats)
    elif kind == 'B2K':
        b2k_run(spec, tier, seed, scratch, stats)
    else:
        b3_run(spec, tier, seed, scratch, stats)
    return stats


def replay(case, scratch):
    part = case['part']
    if part == 'A':
        return a_replay(case, scratch)
    if part == 'H':
        return [{'sig': sg, 'case': c, 'message': m}
                for sg, c, m in h_case(tuple(case['seq']), case['sep'], case['payload'], case['seed'])]
    if part == 'B1':
        return [{'sig': s, 'case': c, 'message': m} for s, c, m in b1_config(case['state'], case['ownertrust'], scratch)]
    if part == 'B1cli':
        return [{'sig': s, 'case': c, 'message': m}
                for s, c, m in b1cli_config(case['state'], tuple(case['flags']), scratch)]
    if part in ('B2', 'B2control'):
        return b2_replay(case, scratch)
    if part in ('E', 'EV', 'EC', 'EK'):
        return e_replay(case, scratch)
    if part == 'B2K':
        return [{'sig': s, 'case': c, 'message': m}
                for s, c, m in b2k_config(case['home'], case['spelling'], case['value'], case['s'], scratch)]
    return b3_replay(case, scratch)


def a_space(tier):
    L = tier_len(tier)
    return sum(N ** k for k in range(L + 1)) * len(EXITS)


def finish(total, tier):
    errs = []
    c = total.counters
    oc = total.outcomes

    def have(prefix, suffix=''):
        return any(k.startswith(prefix) and k.endswith(suffix) and v for k, v in oc.items())
    if c['A_cases'] != a_space(tier):
        errs.append(f'Part A enumerated {c["A_cases"]} (sequence, exit) cases, the stated space has {a_space(tier)}')
    if c['A_unexpected_backend_argv']:
        errs.append(f'Part A: {c["A_unexpected_backend_argv"]} backend invocations were not `gpg ... --status-fd ... --verify`')
    if not have('A:accept/verify_file/ret'):
        errs.append('vacuity: Part A never saw an acceptable sequence accepted by verify_file')
    for iface in ('load', 'loader', 'cli', 'cli -s'):
        if not have(f'A:accept/{iface}/'):
            errs.append(f'vacuity: Part A has no acceptable sequence through {iface}')
    for cls in FAIL_NAMES:
        if not have('A:reject/verify_file/exc:' + cls):
            errs.append(f'vacuity: Part A never produced rejection class {cls}')
    for t in SUFFICIENT:
        if not c.get('A_must_accept:' + t):
            errs.append(f'vacuity: Part A has no must-accept sequence with {t}')
    if not c.get('A_monotonicity_pairs'):
        errs.append('vacuity: no monotonicity pair was executed')
    # Part B
    unknown = sorted(k[5:] for k in c if k.startswith('B_kw:') and k[5:] not in IDX)
    if unknown:
        errs.append(f'Part A alphabet is INCOMPLETE: real gpg emitted status keywords {unknown} that are not in it')
    for t in ('TRUST_FULLY', 'TRUST_MARGINAL', 'TRUST_ULTIMATE', 'TRUST_UNDEFINED', 'TRUST_NEVER', 'GOODSIG', 'VALIDSIG',
              'EXPKEYSIG', 'REVKEYSIG', 'BADSIG', 'ERRSIG'):
        if not c.get('B_kw:' + t):
            errs.append(f'vacuity: real gpg never reported {t} in Part B')
    if c.get('B_model_mismatch'):
        errs.append(f'Part B: {c["B_model_mismatch"]} configurations where real gpg\'s report (judged by the Part A '
                    f'predicate) disagrees with the configuration\'s expected verdict — harness model of gpg is off: '
                    f'{total.notes[:3]}')
    if not have('B1:accept/verify_file/ret') or not have('B1:accept/load/ret'):
        errs.append('vacuity: Part B matrix has no accepted configuration')
    for cls in (VF, EK, RK, UT):
        if not have('B1:reject/verify_file/exc:' + cls):
            errs.append(f'vacuity: Part B matrix never produced {cls}')
    for ot in (4, 5):
        if not any(k.startswith(f'B_ownertrust_{OT_NAME[ot]}:') for k in c):
            errs.append(f'vacuity: owner-trust {OT_NAME[ot]} never exercised')
    if not have('B1cli:accept/cli -s/exit=0'):
        errs.append('vacuity: `gemato verify -K -R -s` never accepted a valid signature')
    if not have('B1cli:reject/cli -s/exit=1'):
        errs.append('vacuity: `gemato verify -K -R -s` never rejected')
    if c.get('B2_control_user_keyring_validates', 0) < 1:
        errs.append('vacuity: the user keyring holding the signer key never validated the fixture (control)')
    if not c.get('B2_home_snapshots_compared'):
        errs.append('vacuity: no user-home snapshot was compared')
    if not have('B2:reject/cli/') or not have('B2:accept/cli/'):
        errs.append('vacuity: user-home family lacks accept or reject cases')
    for k in ('proxy,debug', 'proxy,no-debug', 'no-proxy,debug', 'no-proxy,no-debug'):
        if not c.get('B2_opt:' + k):
            errs.append(f'vacuity: user-home family never ran with constructor options {k}')
    if not (have('B2opt:accept/lib/ret') and have('B2opt:reject/lib/exc:') and have('B2opt:accept/cli/exit=0')
            and have('B2opt:reject/cli/exit=1')):
        errs.append('vacuity: user-home family with proxy/debug options lacks accept or reject cases (library or CLI)')
    if not c.get('B2_backend_processes_checked_for_GNUPGHOME'):
        errs.append('vacuity: user-home family checked no backend process for its GNUPGHOME')
    # Part E (a shard that stopped early on too many violations cannot meet the space / vacuity counts: the
    # violations are the result of such a run, and the runner notes the early stop)
    e_errs = errs
    errs = []
    if c['E_cases'] != e_space(tier):
        errs.append(f'Part E enumerated {c["E_cases"]} (options, environment, operation sequence) cases, the stated '
                    f'space has {e_space(tier)}')
    if c['EV_cases'] != ev_space(tier):
        errs.append(f'Part EV enumerated {c["EV_cases"]} cases, the stated space has {ev_space(tier)}')
    if c['EC_cases'] != ec_space():
        errs.append(f'Part EC enumerated {c["EC_cases"]} command lines, the stated space has {ec_space()}')
    for op in E_OPS + ('close',):
        if not c.get('E_spawns:' + op):
            errs.append(f'vacuity: Part E operation {op} never started a backend process (nothing to check)')
    for pi in E_PROXY:
        for debug in E_DEBUG:
            for via in E_VIA:
                if not c.get(f'E_opt:proxy={"none" if pi is None else pi},debug={debug},{via}'):
                    errs.append(f'vacuity: Part E never ran with proxy index {pi}, debug={debug}, {via}')
    for fam in ('E', 'EV', 'EC'):
        if not (have(fam + ':accept/') and have(fam + ':reject/')):
            errs.append(f'vacuity: Part {fam} lacks accepted or rejected verdicts (single outcome class)')
        if not c.get(fam + '_backend_processes_checked_for_GNUPGHOME'):
            errs.append(f'vacuity: Part {fam} checked no backend process for its GNUPGHOME')
    for cls in FAIL_NAMES:
        if not have('EV:reject/exc:' + cls):
            errs.append(f'vacuity: Part EV never produced rejection class {cls}')
    if not (have('E:close/home removed') and have('E:close/home kept (debug)')):
        errs.append('vacuity: Part E did not see both debug=False (home removed) and debug=True (home kept)')
    for k in ('--import', '--import-ownertrust', '--list-keys', '--refresh-keys', '--verify', '--kill'):
        if not c.get('EC_spawns:' + k):
            errs.append(f'vacuity: Part EC command lines never started a backend process {k}')
    # Parts EK / B2K: the spellings of the -K value
    if c['EK_cases'] != ek_space():
        errs.append(f'Part EK enumerated {c["EK_cases"]} command lines, the stated space has {ek_space()}')
    if c['B2K_cases'] != b2k_space():
        errs.append(f'Part B2K enumerated {c["B2K_cases"]} command lines, the stated space has {b2k_space()}')
    for v in K_VALUES:
        if not c.get('EK_value:' + v):
            errs.append(f'vacuity: Part EK never ran with a -K value of kind {v}')
    for sp in K_SPELLINGS:
        if not c.get('EK_spelling:' + sp):
            errs.append(f'vacuity: Part EK never ran with the spelling {sp}')
    if not (have('EK:accept/key file/verified/exit=0') and have('EK:reject/key file/verified/nonzero-or-error')):
        errs.append('vacuity: Part EK with a real key file lacks accepted or rejected verdicts')
    if not have('EK:nokey/') or len([k for k, v in oc.items() if k.startswith('EK:') and v]) < 2:
        errs.append('vacuity: Part EK has no case without a usable key file / a single outcome class')
    for fam in ('EK', 'B2K'):
        if not c.get(fam + '_backend_processes_checked_for_GNUPGHOME'):
            errs.append(f'vacuity: Part {fam} checked no backend process for its GNUPGHOME')
    if len([k for k, v in oc.items() if k.startswith('B2K:') and v]) < 2:
        errs.append('vacuity: Part B2K produced a single outcome class (expected: error exits and a refused import)')
    errs = e_errs + ([] if total.capped else errs)
    if c.get('B3_identity_accepted', 0) < 1:
        errs.append('vacuity: the unmutated signed Manifest of the mutation family was not accepted')
    if not have('B3:changed/exc:'):
        errs.append('vacuity: no mutant was rejected')
    if total.compared < total.evaluations // 2:
        errs.append('vacuity: most executions are DONT_CARE')
    _cleanup_parent()
    return errs


def extra_evidence(total, tier):
    c = total.counters
    nb = len(total.states)
    # stats.case() calls of Parts E, EC, EK, EV
    n_e = c['E_cases'] + c['EC_cases'] + c['EK_cases'] + len(E_PROXY) * len(E_DEBUG)
    seen = sorted(k[5:] for k in c if k.startswith('B_kw:'))
    return {
        'states': c['A_cases'] + c['EV_cases'] + nb,
        'distinct_nontrivial': c['A_cases_nontrivial'] + len(total.nontrivial),
        'states_meaning': 'Part A and Part EV (status sequence, exit status[, options]) cases, each enumerated once by '
                          'construction, + distinct Part B / E / EC configurations (key state x owner-trust, key state '
                          'x CLI flags, user home x key file x entry point x proxy x debug, body position x mutation '
                          'kind, options x process environment x operation sequence, -K command lines)',
        'part_a_cases': c['A_cases'],
        'part_a_alphabet': list(ALPHABET),
        'part_a_max_length': tier_len(tier),
        'part_b_configurations': nb - n_e,
        'part_e_ec_ev_configurations': n_e,
        'part_b_gpg_invocations': c.get('B_gpg_invocations', 0),
        'part_b_status_keywords_seen': seen,
        'part_a_keywords_never_seen_in_part_b': [k for k in ALPHABET if k not in seen],
        'ownertrust_numbers': {str(k): v for k, v in OT_NAME.items()},
        'part_e_cases': c['E_cases'],
        'part_e_operations': list(E_OPS) + ['close'],
        'part_e_max_sequence_length': e_len(tier),
        'part_ev_cases': c['EV_cases'],
        'part_ev_max_length': ev_len(tier),
        'part_ec_command_lines': c['EC_cases'],
        'part_ek_command_lines': c['EK_cases'],
        'part_b2k_command_lines': c['B2K_cases'],
        'k_option_spellings': list(K_SPELLINGS),
        'k_option_value_kinds': list(K_VALUES),
        'backend_processes_checked_for_GNUPGHOME': {
            fam: c.get(fam + '_backend_processes_checked_for_GNUPGHOME', 0) for fam in ('E', 'EV', 'EC', 'EK', 'B2', 'B2K')},
        'part_e_backend_argv_not_scripted': c.get('E_backend_argv_unscripted', 0),
    }
