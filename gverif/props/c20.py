"""C20 — the fast generator scripts and the reference implementation agree.

Translation-validation flavour: the two bundled writers utils/gen_fast_manifest.py and
utils/gen_fast_metamanifest.py are run as real subprocesses on every repository shape of
gverif.repogen.shapes_c20 (portable names, no distfiles/local/packages, every directory the scripts assume
present) and their output is judged by an independent reader (gverif.refverify) and by gemato itself:

  meta    gen_fast_metamanifest.py <repo>, then
          (1) `gemato verify <repo>` exits 0
          (2) reference verdict 'match', no path covered twice, BLAKE2B+SHA512 on every file entry
          (3) `gemato update -p ebuild <repo>` on the untouched output under the write-audit seam: exit 0, no
              write event, no file changed (bytes or mtime)
          (4) for every edit set (<= 2 quick / <= 3 thorough atoms from {change, add, delete} x {package file,
              eclass file, metadata/glsa file, top-level file}) applied to a fresh copy of the generated tree:
              `gemato update -p ebuild` exits 0, a fresh `gemato verify` exits 0 and the reference verdict is 'match'
  single  gen_fast_manifest.py <dir>, one run per eligible directory, bottom-up in one working copy (packages,
          md5-cache/<cat>, metadata/{dtd,glsa,news,xml-schema}, eclass, licenses, profiles; categories,
          md5-cache; metadata; the repository root); after each run the directory is verified AS A TOP-LEVEL tree
          with a fresh gemato loader and the reference (1, 2)
  pre     the pre-existing package Manifest as a dimension of its own (family 'pre'): in every package that has one
          it is the correct Manifest of an OLDER STATE of the package, ranging over the 18 variants PRE_VARIANTS =
          {absent, DIST only, IGNORE only (of an absent path), thick and up to date, thick with an older hash set
          (SHA256+SHA512), thick and stale (every file had another content: other size, other digests), thick and
          stale for the files of one tag T in {DATA, MISC, EBUILD, AUX}, thick with one more object that no longer
          exists, of tag T in {DATA, MISC, EBUILD, AUX, MANIFEST, TIMESTAMP}}; "thick" = DIST line + one
          DATA/MISC/EBUILD/AUX entry per file.  Packages: quick — <pkg>-1.ebuild + every subset of {metadata.xml,
          files/x, ChangeLog}, and the ebuild-less {metadata.xml, files/x} and {} (10), alone in a repository with all
          optional components (those with variant absent / DIST only and no ChangeLog are the 1x1 members of
          family pkg and not repeated); thorough — all 64 subsets of {e1, e2, metadata.xml, files/x, files/sub/y, ChangeLog}
          alone in the minimal and in the full repository, plus the 10 quick packages on a 2x2 grid whose last
          package carries the same variant.  Both entry points: gen_fast_metamanifest on the repository ((1)-(4),
          edit sets: quick <= 1 atom from {change, add, delete} a file of that package; thorough <= 2 atoms from
          those three + the look-alike directory, and every other single atom) and gen_fast_manifest on the package directory alone ((1),
          (2)).  The oracle is the one above; nothing is demanded about which non-file lines (DIST, IGNORE,
          TIMESTAMP) of the old Manifest survive — that is only recorded as an outcome class.
  name    FILE NAMES that look like a Manifest's without being one (family 'name'): ordinary files named
          LOOKALIKE_NAMES = {Manifest-fix.patch, Manifests.txt, ManifestHelper.eclass, Manifest.txt, Manifest.old,
          Manifest.gz.bak, Manifest_, Manifest.files, Manifest.files.gz, manifest, MANIFEST, xManifest, old.Manifest,
          .Manifest (hidden: covered by nothing)} in the 19 kinds of directory NAME_DIRS = {package with ebuild,
          package without ebuild, files/, files/sub/, category, eclass, eclass/tests, licenses, profiles,
          profiles/sub, metadata, metadata/{dtd,glsa,news,xml-schema,md5-cache}, metadata/md5-cache/<cat>, repository
          root, non-category top-level directory} of one repository with every optional component (260 pairs:
          Manifest.files{,.gz} not in metadata/glsa, metadata/news and the root, where gen_fast_metamanifest writes
          files of these names itself).  quick — each name in every kind of directory at once (14 repositories, every
          pair is in one of them) and each kind of directory holding one such file alone, the names taking turns
          (19); thorough — every pair alone as well (260).  Both entry points, oracle (1)-(4) as above; edit sets
          <= 1 atom (thorough: <= 2 where every directory holds such a file) from the 13 atoms + {change, delete}
          the (first) look-alike file.
  rerun   HISTORIES generate, edit, generate again (family 'rerun', part 'rerun'): the first generation, an edit set,
          the same entry point once more, then the oracle of that entry point on the result — meta: (1)-(3) on the
          repository; single: gen_fast_manifest on every eligible directory at or above a changed path (all eligible
          directories when nothing was edited), bottom-up, the root last, (1), (2) after each run.  Edit atoms: the
          10 KIND_ATOMS that change which kind of Manifest a directory is due (first package gains an ebuild -
          its first one where it had none -, loses all its ebuilds, loses all its files; a package directory with /
          without ebuild appears, the first package directory disappears; a category appears / disappears together
          with its line in profiles/categories; metadata/md5-cache/<cat> appears / disappears) and the 12 other
          ATOMS.  Repositories: first package of kind K beside a full one and a second category, every optional
          component, K in RERUN_KINDS (9: {}, {meta}, {fx}, {meta,fx}, {meta,man}, {e1}, {e1,meta,fx}, all six,
          {e1,man}), and a full first package without md5-cache directories.  quick — 6 of the kinds (not {fx},
          {meta,fx}, {e1,man}), no edit or one KIND atom (any one atom for K in {{meta}, {e1,meta,fx}}): 226
          histories; thorough — K over all 64 subsets, any one atom,
          for the 9 kinds also every pair holding a KIND atom, and the 14 every-directory repositories of family
          name with {nothing, change / delete the look-alike file, one KIND atom}: 6692 histories.  The state after
          the first generation is computed once per repository and entry point and written out afresh (files in
          sorted order) for every history; replay does the same.
  size    FILE SIZE as a dimension (family 'size'): one ordinary file sized.{patch,eclass,dat} of S bytes in one kind
          of directory D of the repository with every optional component (the one of family name); every other file
          of the generated repositories is < 100 bytes, and there is never more than one sized file per repository.
          S in SIZES_QUICK = {0, 1, 65535, 65536, 65537, 1048575, 1048576, 1048577, 2 MiB + 3} (around 0, 64 KiB, 1 MiB
          and beyond 2 MiB), thorough + {2 MiB - 1, 2 MiB, 2 MiB + 1, 4 MiB + 1} (13); D in SIZE_DIRS_QUICK = {files/,
          package directory, eclass, profiles, metadata/glsa} (45 repositories), thorough every one of the 19
          NAME_DIRS (247).  Content: a seed-dependent 251-byte pattern repeated and cut to S bytes (no two 64 KiB or
          1 MiB blocks of a file are equal).  Both entry points; oracle (1)-(4) as above - (2) is the statement's
          "correct sizes and BLAKE2B/SHA512 digests" - and, spelled out for the sized file, check
          recorded_size_differs: the one entry that covers it records exactly S.  Edit sets: quick {change, delete}
          the sized file (change = append one byte), thorough any one of the 13 atoms + those two; single: quick
          gen_fast_manifest on the eligible directory whose Manifest lists the file only, thorough the whole bottom-up
          pass.
"""

import hashlib
import itertools
import os
import shutil
import subprocess
import sys

from gverif import gem, refmanifest as rm, refverify, repogen, seams
from gverif.common import fresh_root
from gverif.evidence import Stats
from gverif.treemodel import Tree, snapshot

PID = 'C20'
LEVEL = 'translation_validation'
RULE = ('programs = runs of utils/gen_fast_metamanifest.py (one per repository shape) and utils/gen_fast_manifest.py '
        '(one per eligible directory of every shape, bottom-up); shapes = gverif.repogen.shapes_c20: quick — first '
        'package over the 32 component subsets without a second ebuild on 1x1 and 2x2 grids x optional repository '
        'components {none, all}, 4 package kinds alike on 0..2 x 0..2 grids (empty categories included), every subset '
        'of the 7 optional repository components, each content component absent once (277 repositories); thorough — '
        'all 64 subsets on {1,2}x{1,2} grids, alike grids up to 4x4, optional subsets x absent content components '
        '(2018). Each generated repository x edit sets of size <= 2 (<= 3 thorough on the 1x1/2x2/alike<=2x2 shapes; '
        '<= 1 on the optional-component family) from 13 atoms; family pre — pre-existing package Manifest over 18 '
        'variants (absent, DIST only, IGNORE only, thick up to date, thick with older hash set, thick stale (all files / '
        'files of one tag DATA|MISC|EBUILD|AUX), thick with an entry of tag DATA|MISC|EBUILD|AUX|MANIFEST|TIMESTAMP '
        'for an object that no longer exists) x packages (quick: 10 packages = ebuild + subsets of {metadata.xml, '
        'files/x, ChangeLog} and 2 ebuild-less, 1x1 grid, 130 repositories not already in family pkg; thorough: 64 component subsets x {minimal, '
        'full} repository on 1x1 + the 10 quick packages on 2x2, 1998 repositories) x both entry points (whole '
        'repository with edit sets <= 1 of the 3 package-file atoms quick / <= 2 of those + look-alike directory, <= 1 of the other atoms thorough; gen_fast_manifest on the package directory alone); a '
        'stale:T variant is skipped for packages without a file of tag T (it would equal "thick up to date"); '
        'family name — one ordinary file named like a Manifest (14 names: Manifest-fix.patch, Manifests.txt, '
        'ManifestHelper.eclass, Manifest.txt, Manifest.old, Manifest.gz.bak, Manifest_, Manifest.files, '
        'Manifest.files.gz, manifest, MANIFEST, xManifest, old.Manifest, .Manifest) per kind of directory (19 kinds: '
        'package with / without ebuild, files, files/sub, category, eclass, eclass/tests, licenses, profiles, '
        'profiles/sub, metadata, its 5 sub-directories, md5-cache/<cat>, root, non-category directory; 260 pairs), '
        'quick: each name in every directory at once + each directory alone with one name (33 repositories), '
        'thorough: + every pair alone (274), both entry points, edit sets <= 1 (<= 2) of 15 atoms; family rerun — '
        'histories generate, edit set, generate again with the same entry point, judged after the second run: 10 '
        'kind-changing atoms (first package gains an / loses every ebuild, loses every file; package directory '
        'with / without ebuild appears, first package directory disappears; category appears / disappears; '
        'md5-cache/<cat> appears / disappears) + the 12 other atoms, quick: <= 1 atom on 7 repositories x 2 entry '
        'points (226 histories), thorough: 73 + 14 repositories, pairs with a kind-changing atom on 9 of them '
        '(6692 histories); family size — one file of S bytes (quick S in {0, 1, 65535, 65536, 65537, 1048575, 1048576, '
        '1048577, 2 MiB + 3}; thorough + {2 MiB - 1, 2 MiB, 2 MiB + 1, 4 MiB + 1}) in one kind of directory (quick: '
        'files/, package directory, eclass, profiles, metadata/glsa = 45 repositories; thorough: the 19 kinds of '
        'family name = 247), all other files < 100 bytes, both entry points (quick: gen_fast_manifest on the '
        'directory that lists the file; thorough: whole bottom-up pass), edit sets <= 1 of {change, delete} the '
        'sized file (thorough: + the 13 atoms), the entry of the sized file must record exactly S; '
        'disagreement checked = one judged verdict '
        '(generator exit, gemato verify, reference coverage, quiet update, update+verify after an edit set)')
ASSUMPTIONS = [
    'scripts are run unmodified as subprocesses of sys.executable (set GVERIF_C20_UTILS to test a mutated copy)',
    'scope: eclass, licenses, profiles, metadata/{dtd,glsa,news,xml-schema,md5-cache} exist (possibly empty); every '
    'category listed in profiles/categories exists and no other top-level directory holds packages; '
    'no OpenPGP key is passed (unsigned output)',
    'files matched by the IGNORE lines the scripts write (metadata/timestamp.chk) are deliberately not covered',
    'step (3) is DONT_CARE for repositories with a package-less category or a non-category top-level directory that '
    'has sub-directories; a TIMESTAMP refresh alone would not count as a rewrite (the CLI does not save for it)',
    'the statement\'s "0..5 edits" is cut to the stated bound; edit targets are the first package\'s first file, '
    'eclass/e.eclass, metadata/glsa/g, header.txt and one new file next to each',
    'single-directory runs are bottom-up, as the script is designed to be used (a directory is generated after the '
    'directories below it that carry their own Manifest)',
    'family pre: the pre-existing Manifest is always the well-formed, sorted Manifest of an older state of the same '
    'package (one DIST line, at most one departure from the current state per variant); malformed or hand-edited '
    'pre-existing Manifests, IGNORE lines for paths that exist, and pre-existing Manifests in non-package '
    'directories are out of scope; whether DIST/IGNORE/TIMESTAMP lines of the old Manifest survive is not judged '
    '(the statement is silent), only that every file is covered exactly once with right size and BLAKE2B+SHA512, '
    'gemato verify passes and gemato update rewrites nothing; "exactly once" is judged even where the reference '
    'gives no verify verdict for a doubly listed path',
    'family name: files named exactly Manifest, Manifest.gz, Manifest.bz2, Manifest.xz or Manifest.lzma are never '
    'added (gemato takes files of these names for Manifests wherever they lie: outside the statement), nor '
    'Manifest.files / Manifest.files.gz in the three directories gen_fast_metamanifest splits (metadata/glsa, '
    'metadata/news, root: there the names belong to the generator); every other name is an ordinary file that must '
    'be covered exactly once unless it is hidden (leading dot: covered by nothing, as everywhere); one look-alike '
    'file per directory, ordinary content (never a compressed stream or Manifest text)',
    'family rerun: both runs of a history use the same entry point (a tree written by one script is not handed to '
    'the other); the second single-directory pass covers exactly the eligible directories at or above a changed '
    'path, bottom-up, and ends at the repository root, whose verification covers the whole tree; edits keep the '
    'scope above (a category disappears / appears together with its line in profiles/categories; ebuilds only '
    'in package directories); the oracle is the one of the entry point applied after the last run, step (3) is '
    'DONT_CARE when an edit left a category without packages; the order in which a directory lists an old and a new '
    'Manifest file is the file system\'s for a fixed creation order (files of the first generation are re-created '
    'in sorted order, the second run adds its own), it is not varied; between the runs nothing but the edit set '
    'touches the tree (no gemato update in between)',
    'family size: exactly one file per repository departs from the < 100 byte contents of gverif.repogen; sizes stop '
    'at 4 MiB + 1 (2 MiB + 3 quick), contents are an unaligned repeating pattern (sparse / all-zero files, files '
    'beyond 4 MiB and several big files in one directory are not generated); the file is a regular, readable file '
    'that does not change while the scripts run',
]

UTILS = os.environ.get('GVERIF_C20_UTILS', '/repo/utils')
WANT_HASHES = {'BLAKE2B', 'SHA512'}
TS_NAMES = ('timestamp', 'timestamp.chk', 'timestamp.commit', 'timestamp.x')


def run_script(name, arg, cwd=None):
    env = dict(os.environ, PYTHONWARNINGS='ignore')
    p = subprocess.run([sys.executable, os.path.join(UTILS, name), arg], stdout=subprocess.PIPE,
                       stderr=subprocess.PIPE, cwd=cwd, env=env, timeout=300)
    return p.returncode, p.stderr.decode('utf8', 'replace')[-400:]


# ------------------------------------------------------------------ judging

def judge_reference(root, top, v=None):
    """(2): -> list of (check, message, extra)"""
    bad = []
    if v is None:
        v = refverify.expected_verify(root, top, '')
    # "covers every file exactly once" is judged on its own: it does not depend on whether the reference can
    # give a verify verdict for a path listed more than once
    if v.multi:
        bad.append(('covered_more_than_once', f'{dict(v.multi)}', {}))
    if v.kind == 'dontcare':
        return bad, str(v.dc[0])
    if v.kind != 'match':
        bad.append(('reference_mismatch', f'reference verdict {v.kind}: offenders={dict(v.offenders)} '
                    f'chain={v.chain_broken} conflicts={v.conflicts}',
                    {'offenders': sorted(set(v.offenders.values())), 'chain': bool(v.chain_broken)}))
    lacking = sorted(p for p, (_t, _s, cks) in v.entries.items() if not WANT_HASHES <= set(cks))
    if lacking:
        bad.append(('hash_missing', f'entries without BLAKE2B+SHA512: {lacking[:4]}', {}))
    return bad, None


def top_name(d):
    names = [n for n in ('Manifest', 'Manifest.gz') if os.path.isfile(os.path.join(d, n))]
    return names


def special(sh):
    """Reasons that put step (3) outside the statement."""
    out = []
    if any(len(c) == 0 for c in sh['cats']):
        out.append('category without packages (generator writes an empty Manifest)')
    if 'nd2' in sh['repo']:
        out.append('non-category top-level directory with sub-directories (profile wants a Manifest, scripts write none)')
    return out


# ------------------------------------------------------------------ pre-existing package Manifests

# The pre-existing Manifest of a package directory is the correct Manifest of an OLDER STATE of that package:
#   absent            no Manifest
#   dist              DIST line only (what repogen's 'man' component writes)
#   ignore            one IGNORE line (for a path that does not exist) and nothing else
#   thick             DIST + one file entry per file of the package as it is now (up to date)
#   thick-oldhashes   as thick, entries carry SHA256+SHA512 (an older hash set) with correct values
#   thick-stale       as thick, every file had an older content (other size, other digests)
#   thick-stale:T     as thick, only the files of tag T had an older content            T in PRE_TAGS
#   thick-gone:T      as thick, the older state held one more object of tag T that no longer exists
#                     (T in GONE_TAGS; MANIFEST = a sub-Manifest, TIMESTAMP = a TIMESTAMP line)
PRE_TAGS = ('DATA', 'MISC', 'EBUILD', 'AUX')
GONE_TAGS = PRE_TAGS + ('MANIFEST', 'TIMESTAMP')
PRE_VARIANTS = (('absent', 'dist', 'ignore', 'thick', 'thick-oldhashes', 'thick-stale')
                + tuple('thick-stale:' + t for t in PRE_TAGS) + tuple('thick-gone:' + t for t in GONE_TAGS))
# per-package components the 'pre' family ranges over ('other' = a ChangeLog, i.e. a DATA file in the package)
PRE_COMPS = ('e1', 'e2', 'meta', 'fx', 'fy', 'other')
OLD_TIMESTAMP = 'TIMESTAMP 2019-01-01T00:00:00Z'


def pkg_tag(rel):
    """GLEP 74 / ebuild-layout typing of a path relative to a package directory -> (tag, entry path)."""
    base = os.path.basename(rel)
    if '/' not in rel and base.endswith('.ebuild'):
        return 'EBUILD', rel
    if rel == 'metadata.xml':
        return 'MISC', rel
    if rel.startswith('files/'):
        return 'AUX', rel[len('files/'):]
    return 'DATA', rel


def entry_line(tag, path, data, hashes=('BLAKE2B', 'SHA512')):
    algo = {'BLAKE2B': hashlib.blake2b, 'SHA512': hashlib.sha512, 'SHA256': hashlib.sha256}
    return f'{tag} {path} {len(data)} ' + ' '.join(f'{h} {algo[h](data).hexdigest()}' for h in hashes)


def pre_applicable(comps, pre):
    """thick-stale:T needs a file of tag T in the package (otherwise it IS the variant thick)."""
    if not pre.startswith('thick-stale:'):
        return True
    have = {'EBUILD': {'e1', 'e2'}, 'MISC': {'meta'}, 'AUX': {'fx', 'fy'}, 'DATA': {'other'}}
    return bool(have[pre.split(':')[1]] & set(comps))


def pre_manifest(pkg, files, dist_line, pre):
    """Bytes of the pre-existing Manifest (None = no Manifest) for a package holding ``files`` (rel -> bytes)."""
    if pre == 'absent':
        return None
    if pre == 'dist':
        return dist_line
    if pre == 'ignore':
        return b'IGNORE ignored-dir\n'
    kind, _, arg = pre.partition(':')
    hashes = ('SHA256', 'SHA512') if kind == 'thick-oldhashes' else ('BLAKE2B', 'SHA512')
    lines = [dist_line.decode().rstrip('\n')]
    for rel in sorted(files):
        tag, ep = pkg_tag(rel)
        data = files[rel]
        if kind == 'thick-stale' and arg in ('', tag):
            data = b'older content\n' + data
        lines.append(entry_line(tag, ep, data, hashes))
    if kind == 'thick-gone':
        gone = {'DATA': 'gone.txt', 'EBUILD': f'{pkg}-0.ebuild', 'AUX': 'gone.patch', 'MANIFEST': 'gone/Manifest',
                'MISC': 'ChangeLog.gone' if 'metadata.xml' in files else 'metadata.xml'}
        if arg == 'TIMESTAMP':
            lines.append(OLD_TIMESTAMP)
        else:
            lines.append(entry_line(arg, gone[arg], f'gone {arg}\n'.encode()))
    return ('\n'.join(sorted(lines)) + '\n').encode()


# ------------------------------------------------------------------ files named like a Manifest (family 'name')

# Names gemato treats as Manifest files wherever they lie (outside the statement, never generated here) ...
RESERVED_NAMES = ('Manifest', 'Manifest.gz', 'Manifest.bz2', 'Manifest.xz', 'Manifest.lzma')
# ... and the two names gen_fast_metamanifest itself writes into the directories it splits
SPLIT_NAMES = ('Manifest.files', 'Manifest.files.gz')
SPLIT_KINDS = ('metadata/glsa', 'metadata/news', 'top')
# ordinary files whose names merely look like a Manifest's (prefix, suffix, other case, hidden)
LOOKALIKE_NAMES = ('Manifest-fix.patch', 'Manifests.txt', 'ManifestHelper.eclass', 'Manifest.txt', 'Manifest.old',
                   'Manifest.gz.bak', 'Manifest_', 'Manifest.files', 'Manifest.files.gz', 'manifest', 'MANIFEST',
                   'xManifest', 'old.Manifest', '.Manifest')
# every kind of directory of the repository the names family is built on (NAME_CATS x NAME_REPO)
NAME_DIRS = ('pkg', 'barepkg', 'files', 'files/sub', 'cat', 'eclass', 'eclass/tests', 'licenses', 'profiles',
             'profiles/sub', 'metadata', 'metadata/dtd', 'metadata/glsa', 'metadata/news', 'metadata/xml-schema',
             'metadata/md5-cache', 'md5-cache/cat', 'top', 'nd')
NAME_CATS = [[('e1', 'meta', 'fx', 'fy'), ('meta',)]]       # a package with ebuild, files/ and files/sub; a bare one
NAME_REPO = repogen.C20_BASE + tuple(x for x in repogen.C20_OPT if x != 'nd2')


def name_allowed(kind, name):
    return name not in RESERVED_NAMES and not (name in SPLIT_NAMES and kind in SPLIT_KINDS)


def extra_dir(sh, seed, kind):
    """Relative directory of a NAME_DIRS kind in this repository."""
    pk = repogen.packages(sh, seed)
    cat, pkg = pk[0][0], pk[0][1]
    if kind in ('pkg', 'files', 'files/sub'):
        return f'{cat}/{pkg}' + ('' if kind == 'pkg' else '/' + kind)
    if kind == 'barepkg':
        return f'{pk[1][0]}/{pk[1][1]}'
    if kind == 'cat':
        return cat
    if kind == 'md5-cache/cat':
        return f'metadata/md5-cache/{cat}'
    if kind == 'top':
        return ''
    if kind == 'nd':
        return repogen.names(seed)[2]
    return kind


def extra_paths(sh, seed, extra):
    return [os.path.join(extra_dir(sh, seed, kind), name) for kind, name in extra or ()]


def name_shapes(tier):
    """-> list of ('name', shape, None, extra); extra = ((directory kind, file name), ...).
    quick: every name in every kind of directory at once (one repository per name: every (kind, name) pair is in
    some repository) and every kind of directory holding a look-alike alone (the names taking turns);
    thorough: additionally every (kind, name) pair alone."""
    sh = repogen.shape(NAME_CATS, NAME_REPO)
    out = []
    for name in LOOKALIKE_NAMES:
        out.append(tuple((k, name) for k in NAME_DIRS if name_allowed(k, name)))
    for i, k in enumerate(NAME_DIRS):
        names = [n for n in LOOKALIKE_NAMES if name_allowed(k, n)]
        for n in (names if tier != 'quick' else [names[i % len(names)]]):
            out.append(((k, n),))
    return [('name', sh, None, extra) for extra in out]


def build_tree(case):
    """The repository of a case: repogen's tree, with the pre-existing Manifest of every package that has the
    'man' component replaced by the case's variant (case['pre']; None = leave repogen's DIST-only one) and with
    the case's extra files named like a Manifest (case['extra'] = [[directory kind, name], ...])."""
    sh, seed, pre = case['shape'], case['seed'], case.get('pre')
    tree = repogen.build(sh, seed, require_dirs=True)
    for (kind, name), p in zip(case.get('extra') or (), extra_paths(sh, seed, case.get('extra'))):
        assert name_allowed(kind, name) and p not in tree.files and os.path.dirname(p) in tree.all_dirs() | {''}, p
        tree.files[p] = f'named like a Manifest: {kind} {name} #{seed}\n'.encode()
    if case.get('sized'):
        kind, size = case['sized']
        p = sized_path(case)
        assert p not in tree.files and os.path.dirname(p) in tree.all_dirs() | {''}, p
        assert max(len(d) for d in tree.files.values()) < 100
        tree.files[p] = sized_content(kind, size, seed)
    if pre is None:
        return tree
    for cat, pkg, comps in repogen.packages(sh, seed):
        if 'man' not in comps:
            continue
        d = f'{cat}/{pkg}/'
        files = {p[len(d):]: data for p, data in tree.files.items()
                 if p.startswith(d) and p != d + 'Manifest' and not any(c.startswith('.') for c in p.split('/'))}
        m = pre_manifest(pkg, files, tree.files[d + 'Manifest'], pre)
        if m is None:
            del tree.files[d + 'Manifest']
        else:
            tree.files[d + 'Manifest'] = m
    return tree


def carried(root, reldir):
    """Observation class (not judged): which non-file lines of a pre-existing Manifest the output kept."""
    for top in ('Manifest', 'Manifest.gz'):
        st, ents = refverify.read_manifest(root, os.path.join(reldir, top) if reldir else top)
        if st == 'ok':
            tags = {e[0] for e in ents}
            return top + '/' + ('+'.join(t for t in ('DIST', 'IGNORE', 'TIMESTAMP') if t in tags) or 'files_only')
    return 'none'


def pre_shapes(tier):
    """-> list of ('pre', shape, variant)."""
    full = repogen.C20_BASE + tuple(x for x in repogen.C20_OPT if x != 'nd2')
    out = []
    quick_subs = [('e1',) + s for s in repogen.powerset(('meta', 'fx', 'other'))] + [('meta', 'fx'), ()]
    if tier == 'quick':
        # an ebuild package with every subset of {metadata.xml, files/x, ChangeLog}, and two ebuild-less ones
        combos = [((1, 1), full, sub) for sub in quick_subs]
    else:
        combos = [((1, 1), repo, sub) for repo in (repogen.C20_BASE, full) for sub in repogen.powerset(PRE_COMPS)]
        combos += [((2, 2), full, sub) for sub in quick_subs]
    for ((nc, npk), repo, sub), pre in itertools.product(combos, PRE_VARIANTS):
        if not pre_applicable(sub, pre):
            continue
        if tier == 'quick' and pre in ('absent', 'dist') and 'other' not in sub:
            continue        # the very same repository is part of family pkg
        first = tuple(c for c in sub if c != 'other') + ('man',)
        last = repogen.PKG_FULL + ('man',)
        cats = [[first if (ci, pi) == (0, 0) else last if (ci, pi) == (nc - 1, npk - 1) else repogen.PKG_FULL
                 for pi in range(npk)] for ci in range(nc)]
        out.append(('pre', repogen.shape(cats, repo, ('pkg_other',) if 'other' in sub else ()), pre))
    return out


# ------------------------------------------------------------------ edits

PLACES = ('pkg', 'eclass', 'glsa', 'top')
KINDS = ('change', 'add', 'delete')
# one more atom: a new directory next to the first package whose name extends the package's name (string-
# prefix look-alike) and that gets no Manifest of its own under the ebuild profile (no ebuild, no metadata.xml)
ATOMS = [(k, p) for p in PLACES for k in KINDS] + [('add', 'lookalike')]


PKG_ATOMS = [(k, 'pkg') for k in KINDS]


def edit_sets(maxn, atoms=None):
    out = [()]
    for n in range(1, maxn + 1):
        for c in itertools.combinations(ATOMS if atoms is None else atoms, n):
            # change and delete of the same target in one set is just a delete
            if any((('change', p) in c and ('delete', p) in c) for p in PLACES + ('extra',)):
                continue
            out.append(c)
    return out


def targets(sh, seed, extra=None):
    pk = repogen.packages(sh, seed)
    t = {'eclass': ('eclass/e.eclass', 'eclass/added.eclass'),
         'glsa': ('metadata/glsa/g', 'metadata/glsa/g-added'),
         'top': ('header.txt', 'added.txt')}
    if pk:
        cat, pkg, _c = pk[0]
        t['pkg'] = (f'{cat}/{pkg}', f'{cat}/{pkg}/{pkg}-9.ebuild')
        t['lookalike'] = (f'{cat}/{pkg}', f'{cat}/{pkg}-extra/README')
    if extra:
        t['extra'] = (extra_paths(sh, seed, extra)[0], None)      # the first file named like a Manifest
    return t


def apply_edits(root, sh, seed, edits, extra=None):
    """-> False when some atom has no target in this shape."""
    t = targets(sh, seed, extra)
    for kind, place in edits:
        if place not in t:
            return False
        existing, new = t[place]
        if place == 'pkg':
            fs = []
            for dp, dn, fn in os.walk(os.path.join(root, existing)):
                dn.sort()
                fs += [os.path.join(dp, n) for n in sorted(fn) if not n.startswith('Manifest')]
            existing = sorted(fs)[0] if fs else None
        else:
            existing = os.path.join(root, existing)
        if kind == 'add':
            if new is None:
                return False
            os.makedirs(os.path.dirname(os.path.join(root, new)), exist_ok=True)
            with open(os.path.join(root, new), 'wb') as f:
                f.write(b'added by edit\n')
            continue
        if existing is None or not os.path.isfile(existing):
            return False
        if kind == 'change':
            with open(existing, 'ab') as f:
                f.write(b'!')
        else:
            os.unlink(existing)
    return True


# ------------------------------------------------------------------ edits between two generator runs (family 'rerun')

# Edits that change WHICH KIND of Manifest a directory gets from the scripts (plain 'Manifest' for a directory
# holding ebuilds, 'Manifest.gz' otherwise, none for a directory that is not one of the scripts' own) - beside
# ('add', 'pkg') of ATOMS, which gives the first package an(other) ebuild:
#   lose_ebuilds pkg   every ebuild of the first package is deleted
#   empty pkg          every file of the first package is deleted (the directory and the Manifest written there stay)
#   add newpkg|barepkg a new package directory (ebuild + metadata.xml | metadata.xml only) in the first category
#   delete pkgdir      the first package directory is removed altogether
#   add cat            a new category: line in profiles/categories, one package (and its md5-cache directory when
#                      the repository has md5-cache directories)
#   delete cat         the last category: line, directory and md5-cache directory removed
#   add|delete cachedir  metadata/md5-cache/<first category> appears / is removed altogether
KIND_ATOMS = [('add', 'pkg'), ('lose_ebuilds', 'pkg'), ('empty', 'pkg'), ('add', 'newpkg'), ('add', 'barepkg'),
              ('delete', 'pkgdir'), ('add', 'cat'), ('delete', 'cat'), ('add', 'cachedir'), ('delete', 'cachedir')]
EXTRA_ATOMS = [('change', 'extra'), ('delete', 'extra')]
RERUN_ATOMS = KIND_ATOMS + [a for a in ATOMS if a not in KIND_ATOMS]


def read_categories(root):
    with open(os.path.join(root, 'profiles/categories')) as f:
        return [x.strip() for x in f if x.strip()]


def _put(root, rel, data):
    os.makedirs(os.path.dirname(os.path.join(root, rel)), exist_ok=True)
    with open(os.path.join(root, rel), 'wb') as f:
        f.write(data)


def apply_rerun_edits(root, sh, seed, edits, extra=None):
    """Apply atoms of RERUN_ATOMS + EXTRA_ATOMS in the given order -> False when one has no target."""
    pk = repogen.packages(sh, seed)
    for atom in edits:
        kind, place = atom
        if atom not in KIND_ATOMS or atom == ('add', 'pkg'):
            if not apply_edits(root, sh, seed, [atom], extra):
                return False
            continue
        cats = read_categories(root)
        if place in ('pkg', 'pkgdir'):
            if not pk:
                return False
            pd = os.path.join(root, pk[0][0], pk[0][1])
            if not os.path.isdir(pd):
                return False
            if place == 'pkgdir':
                shutil.rmtree(pd)
            elif kind == 'lose_ebuilds':
                ebuilds = [n for n in sorted(os.listdir(pd)) if n.endswith('.ebuild')]
                if not ebuilds:
                    return False
                for n in ebuilds:
                    os.unlink(os.path.join(pd, n))
            else:       # empty
                victims = [n for n in sorted(os.listdir(pd)) if n not in ('Manifest', 'Manifest.gz')]
                if not victims:
                    return False
                for n in victims:
                    p = os.path.join(pd, n)
                    shutil.rmtree(p) if os.path.isdir(p) else os.unlink(p)
        elif place in ('newpkg', 'barepkg'):
            if not cats or not os.path.isdir(os.path.join(root, cats[0])):
                return False
            name = 'added-pkg' if place == 'newpkg' else 'added-bare'
            if place == 'newpkg':
                _put(root, f'{cats[0]}/{name}/{name}-1.ebuild', b'added ebuild\n')
            _put(root, f'{cats[0]}/{name}/metadata.xml', b'<pkgmetadata added/>\n')
        elif place == 'cat' and kind == 'add':
            with open(os.path.join(root, 'profiles/categories'), 'ab') as f:
                f.write(b'new-cat\n')
            _put(root, 'new-cat/np/np-1.ebuild', b'new category ebuild\n')
            _put(root, 'new-cat/np/metadata.xml', b'<pkgmetadata new/>\n')
            cache = os.path.join(root, 'metadata/md5-cache')
            if any(os.path.isdir(os.path.join(cache, n)) for n in os.listdir(cache)):
                _put(root, 'metadata/md5-cache/new-cat/np-1', b'new cache\n')
        elif place == 'cat':
            if not cats:
                return False
            with open(os.path.join(root, 'profiles/categories'), 'wb') as f:
                f.write(''.join(c + '\n' for c in cats[:-1]).encode())
            for d in (cats[-1], 'metadata/md5-cache/' + cats[-1]):
                shutil.rmtree(os.path.join(root, d), ignore_errors=True)
        elif place == 'cachedir':
            if not cats:
                return False
            cd = os.path.join(root, 'metadata/md5-cache', cats[0])
            if kind == 'add':
                if os.path.isdir(cd):
                    return False
                _put(root, f'metadata/md5-cache/{cats[0]}/added-1', b'added cache\n')
            else:
                if not os.path.isdir(cd):
                    return False
                shutil.rmtree(cd)
        else:
            raise AssertionError(atom)
    return True


def rerun_sets(tier, plain, pairs):
    """Edit sets between the two generator runs.  quick: nothing, or one atom (a kind-changing one; ``plain``: any of
    RERUN_ATOMS); thorough: any one atom and, with ``pairs``, every pair of atoms with at least one kind-changing
    atom."""
    atoms = RERUN_ATOMS if (plain or tier != 'quick') else KIND_ATOMS
    out = [()] + [(a,) for a in atoms]
    if tier != 'quick' and pairs:
        for c in itertools.combinations(RERUN_ATOMS, 2):
            if not any(a in KIND_ATOMS for a in c):
                continue
            if any((('change', p) in c and ('delete', p) in c) for p in PLACES):
                continue
            out.append(c)
    return out


RERUN_KINDS = [(), ('meta',), ('fx',), ('meta', 'fx'), ('man', 'meta'), ('e1',), ('e1', 'meta', 'fx'),
               ('e1', 'e2', 'meta', 'fx', 'fy', 'man'), ('e1', 'man')]
RERUN_PLAIN = [('meta',), ('e1', 'meta', 'fx')]       # quick: the first packages that also get the non-kind atoms
RERUN_KINDS_QUICK = [k for k in RERUN_KINDS if k not in (('fx',), ('meta', 'fx'), ('e1', 'man'))]


def rerun_shapes(tier):
    """-> list of ('rerun', shape, None, None): first package of a kind, a full one beside it and a second
    category; repository with every optional component (nd2 apart), and once without md5-cache directories."""
    full = NAME_REPO
    kinds = RERUN_KINDS_QUICK if tier == 'quick' else list(repogen.powerset(repogen.PKG))
    out = [('rerun', repogen.shape([[k, repogen.PKG_FULL], [repogen.PKG_FULL]], full), None, None) for k in kinds]
    for k in ([repogen.PKG_FULL] if tier == 'quick' else RERUN_KINDS):
        out.append(('rerun', repogen.shape([[k, repogen.PKG_FULL], [repogen.PKG_FULL]],
                                           tuple(x for x in full if x != 'md5cache')), None, None))
    if tier != 'quick':
        # the files named like a Manifest meet the second run too (every kind of directory at once)
        out += [('rerun', sh, None, extra) for _f, sh, _p, extra in name_shapes(tier) if len(extra) > 1]
    return out


# ------------------------------------------------------------------ file size (family 'size')

MiB = 1 << 20
SIZES_QUICK = (0, 1, 65535, 65536, 65537, MiB - 1, MiB, MiB + 1, 2 * MiB + 3)
SIZES_THOROUGH = SIZES_QUICK + (2 * MiB - 1, 2 * MiB, 2 * MiB + 1, 4 * MiB + 1)
SIZE_DIRS_QUICK = ('files', 'pkg', 'eclass', 'profiles', 'metadata/glsa')


def sized_name(kind):
    return {'eclass': 'sized.eclass', 'files': 'sized.patch', 'files/sub': 'sized.patch'}.get(kind, 'sized.dat')


def sized_content(kind, size, seed):
    """S bytes: a 251-byte seed-dependent pattern repeated (251 is prime: no two power-of-two blocks are equal)."""
    pat = (f'sized {kind} #{seed}\n'.encode() * 20)[:250] + b'\xff'
    return (pat * (size // len(pat) + 1))[:size]


def sized_extra(case):
    """The sized file of a case in the form of an 'extra' list ([[directory kind, file name]]) or None."""
    if not case.get('sized'):
        return None
    return [[case['sized'][0], sized_name(case['sized'][0])]]


def case_extra(case):
    return case.get('extra') or sized_extra(case)


def sized_path(case):
    return extra_paths(case['shape'], case['seed'], sized_extra(case))[0]


def size_shapes(tier):
    """-> list of ('size', shape, (directory kind, size))."""
    sh = repogen.shape(NAME_CATS, NAME_REPO)
    kinds = SIZE_DIRS_QUICK if tier == 'quick' else NAME_DIRS
    sizes = SIZES_QUICK if tier == 'quick' else SIZES_THOROUGH
    return [('size', sh, (k, s)) for k in kinds for s in sizes]


def size_class(n):
    return '0' if n == 0 else '<64KiB' if n < 65536 else '64KiB..1MiB' if n <= MiB else '>1MiB'


def check_sized(case, root, rel, v, stats, out, lab, **extra):
    """The statement's "correct sizes", spelled out for the sized file: among the entries of the reference view
    ``v`` of the tree at ``root`` the one for the sized file (``rel``, relative to ``root``) records the size the
    file has.  (That it is listed at all, once, with right digests is judged by (2).)"""
    if not case.get('sized') or v.kind == 'dontcare':
        return
    actual = os.path.getsize(os.path.join(root, rel))
    ent = v.entries.get(rel)
    if ent is None:
        label = 'not_listed'
    else:
        label = f'{"+".join(sorted(set(ent[0])))}/' + ('size_equal' if ent[1] == actual else 'size_differs')
        if ent[1] != actual:
            _v(out, case, 'recorded_size_differs', f'the entry for {rel!r} records size {ent[1]}, the file has '
               f'{actual} bytes', size_class=size_class(actual), **extra)
    if stats is not None:
        stats.compared += 1
        stats.outcomes[f'size/{lab}/{label}'] += 1


# ------------------------------------------------------------------ parts

def _v(out, case, check, msg, **extra):
    sig = {'check': check, 'part': case['part']}
    if case.get('pre') is not None:
        sig['pre'] = case['pre'].split(':')[0]          # variant class; the exact variant is in the message
    if case.get('extra'):
        sig['family'] = 'file_named_like_a_Manifest'    # which names in which directories: in the message
    if case.get('sized'):
        sig['family'] = 'file_size'                     # which size in which directory: in the message
    if case['part'] == 'rerun':
        sig['entry'] = case['entry']
        # what the edits between the runs did to the first package (the atoms themselves: in the message)
        sig['first_package'] = case.get('transition')
    sig.update(extra)
    more = ''
    if case.get('extra'):
        more += f', files named like a Manifest={extra_paths(case["shape"], case["seed"], case["extra"])}'
    if case.get('sized'):
        more += f', sized file={sized_path(case)} of {case["sized"][1]} bytes'
    if case['part'] == 'rerun':
        more += f', history={case["entry"]}: generate, {case["redits"] or "no edit"}, generate again'
    out.append({'sig': sig, 'case': case, 'message': f'{check} [{case["part"]}] {msg} (shape={case["shape"]}, '
                f'pre-existing package Manifest={case.get("pre") or "as in shape"}, edits={case.get("edits")}'
                f'{more})'})


def tree_of(root):
    snap = snapshot(root)
    files = {p: v[1] for p, v in snap.items() if v[0] == 'f'}
    dirs = {p for p, v in snap.items() if v[0] == 'd'}
    return Tree(files, dirs=dirs)


def generate_meta(case, scratch, stats, out):
    """Run gen_fast_metamanifest on a fresh copy of the shape -> root or None."""
    root = fresh_root(scratch)
    build_tree(case).write(root)
    rc, err = run_script('gen_fast_metamanifest.py', root)
    if stats is not None:
        stats.evaluations += 1
        stats.transitions += 1
        stats.compared += 1
        stats.counters['programs'] += 1
        stats.counters['programs/gen_fast_metamanifest'] += 1
        stats.outcomes[f'meta/generator_exit_{rc}'] += 1
    if rc != 0:
        _v(out, case, 'generator_failed', f'gen_fast_metamanifest.py exit {rc}: {err[-200:]}', script='metamanifest')
        return None
    return root


def check_generated(case, root, stats, out, why=None, lab='meta'):
    """(1), (2), (3) on a generated repository; -> the generated tree (as it was before step (3))
    when (1) and (2) hold, else None.  ``why``: reasons that put step (3) outside the statement (default: those
    of the shape); ``lab``: prefix of the outcome classes."""
    ok = True
    r = gem.cli(['verify', root])
    if stats is not None:
        stats.evaluations += 1
        stats.transitions += 1
        stats.compared += 1
        stats.outcomes[f'{lab}/verify_exit_{r["exit"]}'] += 1
    if r['exit'] != 0:
        ok = False
        _v(out, case, 'gemato_verify_fails', f'{gem.brief(r)} exit={r["exit"]} log={r["log"][-2:]}',
           got=gem.brief(r))
    v = refverify.expected_verify(root, 'Manifest', '')
    bad, dc = judge_reference(root, 'Manifest', v)
    if case.get('sized'):
        n0 = len(out)
        check_sized(case, root, sized_path(case), v, stats, out, lab)
        ok = ok and len(out) == n0
    if stats is not None:
        stats.transitions += 1
        if case.get('pre') is not None:
            cat, pkg, _c = repogen.packages(case['shape'], case['seed'])[0]
            stats.outcomes[f'pre/meta/{carried(root, f"{cat}/{pkg}")}'] += 1
        if dc:
            stats.dontcare['reference: ' + dc] += 1
        else:
            stats.compared += 1
    for check, msg, extra in bad or []:
        ok = False
        _v(out, case, check, msg, **extra)
    if not ok:
        return None
    # (3)
    s1 = snapshot(root)
    gen_tree = Tree({p: v[1] for p, v in s1.items() if v[0] == 'f'}, dirs={p for p, v in s1.items() if v[0] == 'd'})
    # directory enumeration order is owned by the harness (sorted): the update's result must not depend
    # on it, and a fixed order keeps every case replayable
    with seams.write_audit(root) as events, seams.scandir_order(seams.order_sorted):
        r = gem.cli(['update', '-p', 'ebuild', root])
    events = sorted({(e, p[len(root) + 1:]) for e, p in events})
    s2 = snapshot(root)
    changed = sorted(p for p in set(s1) | set(s2) if s1.get(p) != s2.get(p))
    quiet = not events and not changed
    if why is None:
        why = special(case['shape'])
    if stats is not None:
        stats.evaluations += 1
        stats.transitions += 1
        stats.outcomes[f'{lab}/untouched_update/exit_{r["exit"]}/{"quiet" if quiet else "rewrote"}'
                       f'{"/dontcare" if why else ""}'] += 1
    if why:
        if stats is not None:
            for w in why:
                stats.dontcare['(3) ' + w] += 1
    else:
        if stats is not None:
            stats.compared += 1
        if r['exit'] != 0:
            _v(out, case, 'untouched_update_fails', f'{gem.brief(r)} exit={r["exit"]} log={r["log"][-2:]}',
               got=gem.brief(r))
        elif not quiet:
            _v(out, case, 'untouched_update_rewrites', f'write events {events[:6]}, changed {changed[:6]}',
               files=sorted({os.path.basename(p) for p in changed} | {os.path.basename(p) for _e, p in events}))
    return gen_tree


def check_edit(case, gen_tree, scratch, stats, out):
    """(4) for one edit set on a fresh copy of the generated tree."""
    root = fresh_root(scratch, 'e')
    gen_tree.write(root)
    edits = [tuple(e) for e in case['edits']]
    if not apply_edits(root, case['shape'], case['seed'], edits, case_extra(case)):
        if stats is not None:
            stats.dontcare['(4) an edit atom has no target in this shape'] += 1
        return None
    with seams.scandir_order(seams.order_sorted):
        r = gem.cli(['update', '-p', 'ebuild', root])
    if stats is not None:
        stats.evaluations += 1
        stats.transitions += 1
        stats.compared += 1
        for e in edits:
            stats.counters[f'edit_atom/{e[0]}_{e[1]}'] += 1
        stats.counters[f'edit_sets/size{len(edits)}'] += 1
    label = 'ok'
    if r['exit'] != 0:
        label = 'update_fails'
        sig = {'got': gem.brief(r)}
        if r.get('class') == 'internal':
            sig['where'] = r.get('where')
        _v(out, case, 'update_after_edit_fails', f'{gem.brief(r)} exit={r["exit"]} where={r.get("where")} '
           f'log={r["log"][-2:]}', **sig)
    else:
        fv = gem.cli(['verify', root])
        if stats is not None:
            stats.evaluations += 1
            stats.transitions += 1
        if fv['exit'] != 0:
            label = 'verify_fails'
            _v(out, case, 'verify_after_update_fails', f'{gem.brief(fv)} exit={fv["exit"]} log={fv["log"][-2:]}',
               got=gem.brief(fv))
        else:
            v = refverify.expected_verify(root, 'Manifest', '')
            if v.kind == 'dontcare':
                if stats is not None:
                    stats.dontcare['reference after edit: ' + str(v.dc[0])] += 1
            elif v.kind != 'match':
                label = 'reference_mismatch'
                _v(out, case, 'reference_mismatch_after_update', f'verdict {v.kind}: offenders={dict(v.offenders)} '
                   f'chain={v.chain_broken}', offenders=sorted(set(v.offenders.values())))
    if stats is not None:
        stats.outcomes['meta/edit_update_verify/' + label] += 1
    return label == 'ok'


def single_dirs(sh, seed, root, cats=None):
    """Eligible directories in generation order (mirrors the documented use of the script); categories as in
    the shape, or the given ones (family rerun: as listed in profiles/categories after the edits)."""
    if cats is None:
        cats = repogen.categories(sh, seed)
    lv1, lv2 = [], []
    for c in cats:
        cd = os.path.join(root, c)
        if os.path.isdir(cd):
            for n in sorted(os.listdir(cd)):
                if os.path.isdir(os.path.join(cd, n)):
                    lv1.append((f'{c}/{n}', 'package'))
            lv2.append((c, 'category'))
        if os.path.isdir(os.path.join(root, 'metadata/md5-cache', c)):
            lv1.append((f'metadata/md5-cache/{c}', 'md5-cache/cat'))
    for d in ('metadata/dtd', 'metadata/glsa', 'metadata/news', 'metadata/xml-schema', 'eclass', 'licenses',
              'profiles'):
        lv1.append((d, d))
    lv2.append(('metadata/md5-cache', 'md5-cache'))
    return lv1 + lv2 + [('metadata', 'metadata'), ('', 'root')]


def single_pass(case, root, todo, stats, out, judge=True, lab='single'):
    """gen_fast_manifest on the directories ``todo`` [(relative dir, class)] in that order; with ``judge`` every
    directory is verified as a top-level tree right after its run ((1), (2)).  -> True when nothing was wrong."""
    all_ok = True
    ts_reported = False
    for d, klass in todo:
        full = os.path.join(root, d) if d else root
        rc, err = run_script('gen_fast_manifest.py', full)
        if stats is not None:
            stats.evaluations += 1
            stats.transitions += 1
            stats.compared += 1
            stats.counters['programs'] += 1
            stats.counters['programs/gen_fast_manifest'] += 1
            stats.counters[f'{lab}_dir/' + klass.split('/')[-1]] += 1
        if rc != 0:
            all_ok = False
            _v(out, case, 'generator_failed', f'gen_fast_manifest.py {d!r} exit {rc}: {err[-200:]}', script='manifest',
               dirclass=klass)
            break
        if not judge:
            continue
        names = top_name(full)
        if len(names) != 1:
            all_ok = False
            _v(out, case, 'manifest_file_count', f'{d!r} holds {names} after the run', dirclass=klass)
            break
        top = names[0]
        fv = gem.lib_verify(full, top, '')
        fv_ok = fv['kind'] == 'ret' and fv['value'] is True
        v = refverify.expected_verify(full, top, '')
        if stats is not None:
            stats.evaluations += 1
            stats.transitions += 2
            stats.compared += 1
            stats.outcomes[f'{lab}/{top}/{gem.brief(fv)}'] += 1
            if case.get('pre') is not None and klass == 'package':
                stats.counters['pre/single_package_runs'] += 1
                stats.outcomes[f'pre/single/{carried(full, "")}'] += 1
        # the script leaves files named timestamp* out of non-package Manifests and relies on IGNORE lines
        # that only gen_fast_metamanifest pre-populates: one finding, reported once per repository
        ts_only = (v.kind == 'mismatch' and not v.chain_broken and not v.conflicts and bool(v.offenders) and
                   all(w == 'stray' and os.path.basename(q) in TS_NAMES for q, w in v.offenders.items()))
        if ts_only and (fv_ok or os.path.basename(str(fv.get('path'))) in TS_NAMES):
            all_ok = False
            if stats is not None:
                stats.compared += 1
            if not ts_reported:
                ts_reported = True
                _v(out, case, 'timestamp_file_skipped_without_IGNORE',
                   f'{d!r} ({top}): {sorted(v.offenders)} exist, are not listed and no IGNORE line covers them; '
                   f'reference verdict mismatch, gemato verify: {gem.brief(fv)}')
            continue
        if not fv_ok:
            all_ok = False
            _v(out, case, 'gemato_verify_fails', f'{d!r} ({top}): {gem.brief(fv)} path={fv.get("path")} '
               f'diff={fv.get("diff")}', got=gem.brief(fv), dirclass=klass)
        bad, dc = judge_reference(full, top, v)
        if stats is not None:
            if dc:
                stats.dontcare['reference: ' + dc] += 1
            else:
                stats.compared += 1
        for check, msg, extra in bad or []:
            all_ok = False
            _v(out, case, check, f'{d!r} ({top}): {msg}', dirclass=klass, **extra)
        if case.get('sized') and refverify.comp_prefix(sized_path(case), d):
            n0 = len(out)
            check_sized(case, full, os.path.relpath(os.path.join(root, sized_path(case)), full), v, stats, out, lab,
                        dirclass=klass)
            if len(out) != n0:
                all_ok = False
                break
        if not (fv_ok and not bad):
            break
    return all_ok


def check_single(case, scratch, stats=None):
    out = []
    sh, seed = case['shape'], case['seed']
    root = fresh_root(scratch)
    build_tree(case).write(root)
    todo = single_dirs(sh, seed, root)
    if case.get('dirs') == 'packages':
        # the 'pre' family: the pre-existing Manifest only matters to the run on the package directory itself
        todo = [(d, klass) for d, klass in todo if klass == 'package']
    if case.get('dirs') == 'listing':
        # the 'size' family, quick: the run on the eligible directory whose Manifest lists the sized file (the
        # deepest eligible directory at or above it: the pass is bottom-up)
        todo = [(d, klass) for d, klass in todo if refverify.comp_prefix(sized_path(case), d)][:1]
    all_ok = single_pass(case, root, todo, stats, out)
    return out, all_ok


# ------------------------------------------------------------------ generate, edit, generate again (family 'rerun')

def sorted_tree_of(root):
    """The tree on disk with its files in sorted order (Tree.write then creates them in that order, whatever the
    order the first generator run made them in)."""
    snap = snapshot(root)
    return Tree({p: snap[p][1] for p in sorted(snap) if snap[p][0] == 'f'},
                dirs={p for p, v in snap.items() if v[0] == 'd'})


def first_generation(case, scratch, stats, out):
    """The state after the first generator run of a history (no edit yet) -> Tree or None.  meta: one run of
    gen_fast_metamanifest; single: gen_fast_manifest on every eligible directory, bottom-up."""
    sh, seed = case['shape'], case['seed']
    if case['entry'] == 'meta':
        root = generate_meta(case, scratch, stats, out)
        if root is None:
            return None
    else:
        root = fresh_root(scratch)
        build_tree(case).write(root)
        if not single_pass(case, root, single_dirs(sh, seed, root), stats, out, judge=False, lab='rerun/single1'):
            return None
    return sorted_tree_of(root)


def special_on_disk(root, sh):
    """special() for a repository whose categories and packages were edited."""
    out = [w for w in special(sh) if not w.startswith('category without packages')]
    for c in read_categories(root):
        cd = os.path.join(root, c)
        if os.path.isdir(cd) and not any(os.path.isdir(os.path.join(cd, n)) for n in os.listdir(cd)):
            out.append('category without packages (generator writes an empty Manifest)')
            break
    return out


def pkg_state(snap, pd):
    """What the property lets the first package directory expect from the scripts: 'absent' (no Manifest),
    'ebuild' (plain Manifest), 'noebuild' (Manifest.gz)."""
    if snap.get(pd, (None,))[0] != 'd':
        return 'absent'
    own = [p for p in snap if p.startswith(pd + '/') and '/' not in p[len(pd) + 1:] and snap[p][0] == 'f']
    return 'ebuild' if any(p.endswith('.ebuild') for p in own) else 'noebuild'


def check_rerun(case, scratch, stats, out, gen1=None):
    """One history: first generation (``gen1``: its cached result), the edits case['redits'], the same entry point
    again, then the oracle of the entry point: meta (1)-(3) on the repository; single (1), (2) on every directory
    the second pass ran in (the eligible directories at or above a changed path - all of them when nothing was
    edited - the repository root last, which verifies the whole tree).  -> True / False / None (no target)."""
    sh, seed, entry = case['shape'], case['seed'], case['entry']
    redits = [tuple(e) for e in case['redits']]
    if gen1 is None:
        gen1 = first_generation(case, scratch, stats, out)
        if gen1 is None:
            return False
    root = fresh_root(scratch, 'e')
    gen1.write(root)
    s1 = snapshot(root)
    if not apply_rerun_edits(root, sh, seed, redits, case.get('extra')):
        if stats is not None:
            stats.dontcare['rerun: an edit atom has no target in this repository'] += 1
        return None
    s2 = snapshot(root)
    touched = [p for p in set(s1) | set(s2) if s1.get(p) != s2.get(p)]
    pk = repogen.packages(sh, seed)
    pd = f'{pk[0][0]}/{pk[0][1]}'
    case = dict(case, transition=f'{pkg_state(s1, pd)}->{pkg_state(s2, pd)}')
    if stats is not None:
        for e in redits:
            stats.counters[f'rerun/{entry}/atom/{e[0]}_{e[1]}'] += 1
        stats.counters[f'rerun/{entry}/sets/size{len(redits)}'] += 1
        stats.counters[f'rerun/{entry}/first_package/{case["transition"]}'] += 1
        stats.counters[f'rerun/{entry}/histories'] += 1
    n0 = len(out)
    if entry == 'meta':
        rc, err = run_script('gen_fast_metamanifest.py', root)
        if stats is not None:
            stats.evaluations += 1
            stats.transitions += 1
            stats.compared += 1
            stats.counters['programs'] += 1
            stats.counters['programs/gen_fast_metamanifest'] += 1
            stats.outcomes[f'rerun/meta/generator_exit_{rc}'] += 1
        if rc != 0:
            _v(out, case, 'generator_failed', f'gen_fast_metamanifest.py (second run) exit {rc}: {err[-200:]}',
               script='metamanifest')
            return False
        ok = check_generated(case, root, stats, out, why=special_on_disk(root, sh), lab='rerun/meta') is not None
        return ok and len(out) == n0
    todo = single_dirs(sh, seed, root, read_categories(root))
    if redits:
        todo = [(d, k) for d, k in todo if d == '' or any(refverify.comp_prefix(p, d) for p in touched)]
    ok = single_pass(case, root, todo, stats, out, lab='rerun/single')
    return ok and len(out) == n0


def replay(case, scratch):
    case = dict(case)
    if case['part'] == 'single':
        return check_single(case, scratch)[0]
    out = []
    if case['part'] == 'rerun':
        check_rerun(case, scratch, None, out)
        return out
    root = generate_meta(case, scratch, None, out)
    if root is None:
        return out
    if case.get('edits') is None:
        check_generated(case, root, None, out)
        return out
    check_edit(case, tree_of(root), scratch, None, out)
    return out


# ------------------------------------------------------------------ enumeration

NSHARDS = 64


def shards(tier, seed):
    n = NSHARDS if tier == 'quick' else 4 * NSHARDS
    return [(i, n) for i in range(n)]


def all_cases(tier):
    """-> [(family, shape, pre-existing-Manifest variant or None, extra files named like a Manifest or None,
    entry point of a rerun history or None, (directory kind, size) of the sized file or None)].  New families are appended: the stride sharding keeps the older
    cases where they were."""
    out = [(fam, sh, None, None, None, None) for fam, sh in repogen.shapes_c20(tier)]
    out += [(fam, sh, pre, None, None, None) for fam, sh, pre in pre_shapes(tier)]
    out += [(fam, sh, None, extra, None, None) for fam, sh, _p, extra in name_shapes(tier)]
    for fam, sh, _p, extra in rerun_shapes(tier):
        out += [(fam, sh, None, extra, entry, None) for entry in ('meta', 'single')]
    out += [(fam, sh, None, None, None, sized) for fam, sh, sized in size_shapes(tier)]
    return out


def case_rerun_sets(tier, sh, extra):
    if extra:
        return [()] + [(a,) for a in EXTRA_ATOMS + KIND_ATOMS]
    first = tuple(sh['cats'][0][0])
    return rerun_sets(tier, plain=first in [tuple(sorted(k)) for k in RERUN_PLAIN],
                      pairs=first in [tuple(sorted(k)) for k in RERUN_KINDS] and 'md5cache' in sh['repo'])


def case_edit_sets(tier, fam, sh, extra=None):
    if fam == 'size':
        # the sized file changes (one byte appended) / disappears; thorough: or any other single atom
        return edit_sets(1, EXTRA_ATOMS if tier == 'quick' else ATOMS + EXTRA_ATOMS)
    if fam == 'name':
        # every single atom, those aimed at the (first) file named like a Manifest included; thorough: pairs too
        # where every kind of directory holds such a file
        return edit_sets(1 if tier == 'quick' or len(extra) == 1 else 2, ATOMS + EXTRA_ATOMS)
    if fam != 'pre':
        return edit_sets(max_edits(tier, fam, sh))
    # family pre: the edits inside / next to the package whose Manifest pre-existed (quick: one of them; thorough:
    # up to two of them, and every other single atom)
    if tier == 'quick':
        return edit_sets(1, PKG_ATOMS)
    near = edit_sets(2, PKG_ATOMS + [('add', 'lookalike')])
    return near + [e for e in edit_sets(1) if e not in near]


def max_edits(tier, fam, sh):
    grid = (len(sh['cats']), max([len(c) for c in sh['cats']] or [0]))
    if fam == 'opt':
        return 1
    if tier == 'quick':
        return 2
    small = grid in ((1, 1), (2, 2)) or (fam == 'alike' and grid[0] * grid[1] <= 4 and grid[0] <= 2)
    return 3 if small else 2


def run_shard(spec, tier, seed, scratch):
    i, n = spec
    stats = Stats()
    allshapes = all_cases(tier)
    for idx in range(i, len(allshapes), n):
        fam, sh, pre, extra, entry, sized = allshapes[idx]
        if fam == 'rerun':
            run_rerun_case(sh, extra, entry, tier, seed, scratch, stats)
            continue
        stats.counters['repositories'] += 1
        stats.counters['repositories/' + fam] += 1
        for kind, name in extra or ():
            stats.counters['name/dir/' + kind] += 1
            stats.counters['name/name/' + name] += 1
            stats.counters[f'name/pair/{kind}|{name}'] += 1
        if extra:
            stats.counters['name/' + ('alone' if len(extra) == 1 else 'every_directory')] += 1
        if pre is not None:
            stats.counters['pre/' + pre] += 1
        if sized:
            stats.counters['size/dir/' + sized[0]] += 1
            stats.counters[f'size/size/{sized[1]}'] += 1
            stats.counters['size/repositories'] += 1
        if set(sh['repo']) >= set(repogen.C20_BASE + repogen.C20_OPT) and \
                any(set(p) >= set(repogen.PKG) for c in sh['cats'] for p in c):
            stats.counters['repositories_with_every_optional_component'] += 1
        if any('man' in p for c in sh['cats'] for p in c) and pre != 'absent':
            stats.counters['repositories_with_preexisting_package_Manifest'] += 1
        else:
            stats.counters['repositories_without_preexisting_package_Manifest'] += 1
        # ---- whole repository
        case = {'part': 'meta', 'shape': sh, 'seed': seed, 'edits': None}
        ckey = repogen.key(sh)
        if pre is not None:
            case['pre'] = pre
            ckey = (ckey, pre)
        if extra:
            case['extra'] = [list(x) for x in extra]
            ckey = (ckey, 'extra', tuple(extra))
        if sized:
            case['sized'] = list(sized)
            ckey = (ckey, 'sized', tuple(sized))
        out = []
        root = generate_meta(case, scratch, stats, out)
        gen_tree = check_generated(case, root, stats, out) if root is not None else None
        stats.case(('meta', ckey), nontrivial=gen_tree is not None)
        if gen_tree is not None:
            if extra:
                stats.counters['name/generated_tree_sound'] += 1
            if sized:
                stats.counters['size/generated_tree_sound'] += 1
            for edits in case_edit_sets(tier, fam, sh, extra):
                if not edits:
                    continue
                ecase = dict(case, edits=[list(e) for e in edits])
                ok = check_edit(ecase, gen_tree, scratch, stats, out)
                stats.case(('meta', ckey, edits), nontrivial=bool(ok))
            if len(stats.samples) < 1:
                stats.sample({'shape': sh, 'generated': sorted(p for p in gen_tree.files
                                                                if os.path.basename(p).startswith('Manifest'))})
        for x in out:
            stats.violation(x['sig'], x['case'], x['message'])
        # ---- single directories
        scase = {'part': 'single', 'shape': sh, 'seed': seed}
        if pre is not None:
            scase.update(pre=pre, dirs='packages')
        if extra:
            scase['extra'] = [list(x) for x in extra]
        if sized:
            scase['sized'] = list(sized)
            if tier == 'quick':
                scase['dirs'] = 'listing'
        vs, ok = check_single(scase, scratch, stats)
        stats.case(('single', ckey), nontrivial=ok)
        for x in vs:
            stats.violation(x['sig'], x['case'], x['message'])
    return stats


def run_rerun_case(sh, extra, entry, tier, seed, scratch, stats):
    """Every history generate, edit set, generate again of one repository and one entry point."""
    stats.counters['rerun/repositories'] += 1
    base = {'part': 'rerun', 'entry': entry, 'shape': sh, 'seed': seed, 'redits': []}
    ckey = repogen.key(sh)
    if extra:
        base['extra'] = [list(x) for x in extra]
        ckey = (ckey, 'extra', tuple(extra))
    out = []
    gen1 = first_generation(base, scratch, stats, out)
    if gen1 is None:
        stats.case(('rerun', entry, ckey), nontrivial=False)
    else:
        for redits in case_rerun_sets(tier, sh, extra):
            case = dict(base, redits=[list(e) for e in redits])
            ok = check_rerun(case, scratch, stats, out, gen1)
            stats.case(('rerun', entry, ckey, redits), nontrivial=bool(ok))
    for x in out:
        stats.violation(x['sig'], x['case'], x['message'])


def finish(total, tier):
    errs = []
    c = total.counters
    if c.get('programs', 0) < 1000:
        errs.append(f'vacuity: only {c.get("programs", 0)} generator runs')
    for k in ('programs/gen_fast_metamanifest', 'programs/gen_fast_manifest'):
        if c.get(k, 0) < 100:
            errs.append(f'vacuity: {k} = {c.get(k, 0)}')
    for k in ('meta/generator_exit_0', 'meta/verify_exit_0', 'meta/untouched_update/exit_0/quiet',
              'meta/edit_update_verify/ok'):
        if total.outcomes.get(k, 0) < 1:
            errs.append(f'vacuity: outcome class {k} never observed')
    if not any(k.startswith('meta/untouched_update/') and k.endswith('/dontcare') for k in total.outcomes):
        errs.append('vacuity: the DONT_CARE region of step (3) was never reached')
    if not any(k.startswith('single/Manifest.gz/ret:True') for k in total.outcomes) or \
            not any(k.startswith('single/Manifest/ret:True') for k in total.outcomes):
        errs.append('vacuity: single-directory runs did not produce both plain (package) and compressed Manifests')
    for k, p in itertools.product(KINDS, PLACES):
        if c.get(f'edit_atom/{k}_{p}', 0) < 1:
            errs.append(f'vacuity: edit atom {k} {p} never applied')
    need = 2 if tier == 'quick' else 3
    if c.get(f'edit_sets/size{need}', 0) < 1:
        errs.append(f'vacuity: no edit set of size {need}')
    for k in ('repositories_with_every_optional_component', 'repositories_with_preexisting_package_Manifest',
              'repositories_without_preexisting_package_Manifest'):
        if c.get(k, 0) < 1:
            errs.append(f'vacuity: {k} = 0')
    # the pre-existing-package-Manifest family
    for v in PRE_VARIANTS:
        if c.get('pre/' + v, 0) < 1:
            errs.append(f'vacuity: pre-existing package Manifest variant {v} never generated')
    if c.get('pre/single_package_runs', 0) < len(PRE_VARIANTS):
        errs.append(f'vacuity: only {c.get("pre/single_package_runs", 0)} single-directory runs in the pre family')
    for part in ('meta', 'single'):
        classes = sorted(k for k in total.outcomes if k.startswith(f'pre/{part}/'))
        if len(classes) < 2:
            errs.append(f'vacuity: pre family [{part}] produced {len(classes)} outcome class(es): {classes}')
        for top in ('Manifest/', 'Manifest.gz/'):
            if not any(k.startswith(f'pre/{part}/{top}') for k in classes):
                errs.append(f'vacuity: pre family [{part}] never produced a package {top[:-1]}')
    for k in ('package', 'category', 'cat', 'md5-cache', 'metadata', 'root', 'glsa', 'eclass'):
        if c.get('single_dir/' + k, 0) < 1:
            errs.append(f'vacuity: gen_fast_manifest never run on a directory of class {k}')
    # files named like a Manifest: every (kind of directory, name) pair was in some repository, every kind of
    # directory held such a file alone, every name was in every kind of directory at once
    pairs = {(k, n) for k in NAME_DIRS for n in LOOKALIKE_NAMES if name_allowed(k, n)}
    seen = {tuple(x[len('name/pair/'):].split('|')) for x in c if x.startswith('name/pair/')}
    if seen != pairs:
        errs.append(f'vacuity: (directory, Manifest-like name) pairs never generated: {sorted(pairs - seen)[:5]}')
    if len(pairs) < 250 or any(n in RESERVED_NAMES for _k, n in pairs):
        errs.append('vacuity: alphabet of Manifest-like names')
    if c.get('name/every_directory', 0) < len(LOOKALIKE_NAMES):
        errs.append('vacuity: a Manifest-like name was not put into every kind of directory at once')
    alone = len(pairs) if tier != 'quick' else len(NAME_DIRS)
    if c.get('name/alone', 0) < alone:
        errs.append(f'vacuity: only {c.get("name/alone", 0)} repositories with a single Manifest-like file')
    # file size
    want = len(size_shapes(tier))
    if c.get('size/repositories', 0) != want or want < 40:
        errs.append(f'vacuity: size family: {c.get("size/repositories", 0)} repositories of {want}')
    for s in (SIZES_QUICK if tier == 'quick' else SIZES_THOROUGH):
        if c.get(f'size/size/{s}', 0) < 3:
            errs.append(f'vacuity: size family: size {s} in {c.get(f"size/size/{s}", 0)} directories')
    if c.get('size/generated_tree_sound', 0) < 1:
        errs.append('vacuity: size family: no generated repository passed (1) and (2)')
    for lab in ('meta', 'single'):
        classes = sorted(k for k in total.outcomes if k.startswith(f'size/{lab}/'))
        if len(classes) < 2:
            errs.append(f'vacuity: size family [{lab}] produced {len(classes)} outcome class(es): {classes}')
        if sum(total.outcomes[k] for k in classes) < want:
            errs.append(f'vacuity: size family [{lab}]: the sized file was judged in fewer than {want} runs')
    for a in EXTRA_ATOMS:
        if c.get(f'edit_atom/{a[0]}_{a[1]}', 0) < want // 2:
            errs.append(f'vacuity: edit atom {a} applied {c.get(f"edit_atom/{a[0]}_{a[1]}", 0)} times')
    # generate, edit, generate again
    for entry in ('meta', 'single'):
        pre = f'rerun/{entry}/'
        for a in KIND_ATOMS:
            if c.get(f'{pre}atom/{a[0]}_{a[1]}', 0) < 1:
                errs.append(f'vacuity: rerun [{entry}]: edit atom {a} never applied between two runs')
        for k in ('noebuild->ebuild', 'ebuild->noebuild', 'ebuild->ebuild', 'noebuild->noebuild'):
            if c.get(f'{pre}first_package/{k}', 0) < 1:
                errs.append(f'vacuity: rerun [{entry}]: no history takes the first package {k}')
        if not any(k.startswith(pre + 'first_package/') and k.endswith('->absent') for k in c):
            errs.append(f'vacuity: rerun [{entry}]: no history removes the first package')
        for n in range(2 if tier == 'quick' else 3):
            if c.get(f'{pre}sets/size{n}', 0) < 1:
                errs.append(f'vacuity: rerun [{entry}]: no edit set of size {n}')
        if c.get(pre + 'histories', 0) < 100:
            errs.append(f'vacuity: rerun [{entry}]: only {c.get(pre + "histories", 0)} histories')
    if not any(k.startswith('rerun/single/Manifest.gz/') for k in total.outcomes) or \
            not any(k.startswith('rerun/single/Manifest/') for k in total.outcomes):
        errs.append('vacuity: second single-directory passes did not judge both plain and compressed Manifests')
    if not any(k.startswith('rerun/meta/verify_exit_') for k in total.outcomes):
        errs.append('vacuity: no second gen_fast_metamanifest run was judged')
    return errs


def extra_evidence(total, tier):
    return {'space': {k: v for k, v in sorted(total.counters.items())
                      if k.startswith(('repositories', 'programs', 'edit_sets', 'single_dir', 'pre/', 'name/', 'rerun/', 'size/'))
                      and not k.startswith('name/pair/')}}
