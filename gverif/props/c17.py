"""C17 — reported digests and sizes are those of the whole file content.

Bounded-exhaustive exploration of gemato's hashing entry points:

  hash_file          gemato.hash.hash_file(f, hashlib names + '__size__', _apparent_size=hint)
  hash_file_mapped   the same, names being Manifest names translated by gemato's own
                     manifest_hashes_to_hashlib (exactly what HashCommand / get_file_metadata do)
  cli_stdin          `gemato hash -H NAMES -`   (sys.stdin.buffer is the scripted reader)
  hash_path[_mapped] gemato.hash.hash_path on a real file in scratch
  get_file_metadata  gemato.verify.get_file_metadata on a real file (hint = st_size)
  cli_hash           `gemato hash -H NAMES PATH [PATH]`
  hash_bytes         gemato.hash.hash_bytes (BytesIO)
  metadata_stepwise  get_file_metadata driven one next() at a time, the way verify_path and
                     update_entry_for_path consume it: after st_size and st_mtime have been
                     handed out (the fstat is done, the descriptor is open) the file is changed
                     (grown / truncated / rewritten in place) and only then the checksum dict is
                     fetched.  The st_size that get_file_metadata passes on as the size hint is
                     then stale: __size__ and every digest must be those of the content as it is
                     when it is read
  verify_path_racing verify_path end to end against an entry that describes the file as it was
                     at fstat time, the same change applied between the st_mtime step and the
                     checksum step (a forwarding generator around the module attribute
                     gemato.verify.get_file_metadata; no hook in /repo)
  verify_path_static / update_entry_static
                     verify_path / update_entry_for_path on an entry WITHOUT checksums (size only)
                     whose size is / is not the size of an unchanging file
  hash_file_iter / hash_path_iter / get_file_metadata_iter
                     the same calls with the hash names handed over in every KIND OF ITERABLE
                     (list, tuple, set, frozenset, dict keys view, iter(list), generator expression,
                     the iterable gemato.manifest.manifest_hashes_to_hashlib() returns, lists and
                     generators naming every hash twice) and '__size__' absent / last / first:
                     every requested name must be in the result with the reference digest
  get_hash_by_name / verify_path_names + the entry points above
                     over the SPELLING alphabet of hash names: every name hashlib / the Manifest
                     table knows, in every case / separator / blank variant, the digest names,
                     aliases and OIDs OpenSSL documents, and special strings ('null', '',
                     misspelt '__size__', ...), alone and before / after a supported name
  the same entry points under a SIMULATED BUILD
                     in which hashlib LISTS an algorithm (algorithms_available) whose constructor raises
                     ValueError (FIPS-style OpenSSL, OpenSSL 3 without the legacy provider): a seam on the
                     module attribute gemato.hash.hashlib (no hook in /repo) forwards everything to the real
                     hashlib, but hashlib.new(name) / hashlib.<name>() of a disabled ALGORITHM (whatever the
                     spelling) raises ValueError or a subclass of it; every supported hashlib name is disabled in turn
                     (thorough: also every pair)

For the first three the file object is an io.BufferedReader over ScriptedRaw, an
io.RawIOBase whose readinto() never crosses a scripted cut position, i.e. it returns
short reads according to a schedule.  Contents are prefixes of one position-dependent
pattern (every aligned 32-bit word is unique), so a dropped, duplicated or reordered chunk
changes every digest.

Oracle (three-valued):
  MUST digest      every name is in the independent table refmanifest.HASHES (Manifest
                   kind) / accepted by hashlib.new() with a fixed digest length (hashlib
                   kind), and the algorithm is available: result[name] == one-shot digest of
                   the complete content, result['__size__'] == len(content)
  MUST unsupported a name outside the table, or unavailable in this OpenSSL, or (hashlib kind) a
                   name hashlib lists but cannot serve: the extendable-output functions (shake_*:
                   digest_size == 0, hexdigest() needs a length) and, in a simulated build, the
                   names whose constructor raises ValueError: the call must
                   raise gemato.exceptions.UnsupportedHash (CLI: exit 1 with an ERROR log
                   line); a result (get_hash_by_name: an object), or any other exception type
                   (TypeError, ValueError, ...), is a violation
  DONT_CARE        the size pseudo-name '__size__' used as a
                   Manifest name; verify_path answering (False, diff) for an entry that carries
                   an unsupported name; a simulated-build case in which gemato never asked the seam
                   for the disabled algorithm and returned a result (the simulation did not reach it)

A name is supported iff it is, character for character, one of the ten Manifest names of the
independent table whose algorithm can be constructed (Manifest kind) / a member of
hashlib.algorithms_available for which hashlib.new(name) succeeds AND yields an object with a
digest of fixed non-zero length (digest_size > 0, hexdigest() works without arguments), or
'__size__' (hashlib kind) - computed at run time from hashlib (in a simulated build: from the
simulated hashlib), never from gemato.  Nothing else is: not another spelling of a supported
name, not a name only the crypto backend resolves, not an XOF, not a listed name whose
constructor fails.

The buffering thresholds of gemato.hash are tuning constants, not part of the property: the
length windows always include the ones around 64 KiB, 128 KiB and 1 MiB; the current values of
gemato.hash.MAX_SLURP_SIZE / HASH_BUFFER_SIZE, when those attributes exist, only ADD windows;
when they do not exist, windows around every power of two from 4 KiB to 4 MiB are added.
"""

import array
import hashlib
import io
import itertools
import json
import os
import re
import subprocess
import sys

import gemato.hash as ghash
import gemato.manifest as gman
import gemato.verify as gverify

from gverif import gem, refmanifest as rm
from gverif.common import fresh_root, rot
from gverif.evidence import Stats, digest, jsonable

PID = 'C17'
LEVEL = 'exploration'
RULE = ('every content length in 0..300, 65534..65538, 131070..131074, 1048574..1048578 (thorough: '
        '+2097151..2097153); ADAPTIVE windows: +-2 around the current values of gemato.hash.HASH_BUFFER_SIZE, '
        '2 x HASH_BUFFER_SIZE and MAX_SLURP_SIZE when those attributes exist, are positive ints <= 4 MiB and '
        'are not a default centre (the constants are only a hint where to look; full treatment, in the quick tier '
        'with the reduced 1/2/3/7-byte schedules above 200000 bytes); if either attribute is absent or not such an int: '
        '+-1 around every power of two 4 KiB..4 MiB not covered yet (light treatment: group name sets + one name per '
        'kind, schedules whole / 4096 / 65536 / halving / one short read within +-2 of the window centre and at '
        '1, 2, n/2, n-2, n-1, every hint, no peek, no 1/2/3/7-byte schedules; real files as for every length); '
        'content = prefix of a position-dependent pattern; x every name set '
        '(each of the 10 Manifest names, 4 names outside the table, every hashlib.algorithms_available '
        'name accepted by hashlib.new() without parameters - the extendable-output names (digest_size 0) among them, '
        'which are UNSUPPORTED -, 2 unavailable hashlib names, the all-available '
        'Manifest group, the all-fixed-length hashlib group, supported+unsupported mixes (one of them a supported '
        'hashlib name + every XOF name), the empty set) '
        'x every size hint in {0, n, n-1, n+1, 1, 2**40} x every read schedule: for n <= 10 all 2^(n-1) '
        'compositions of n into short reads, for n > 10 the families whole / k-byte steps '
        '(1,2,3,7,4096,65535,65536,65537) / halving / one read cut short at position p for every p within '
        '+-2 (thorough +-8) of 8192, 65536, 131072, 1 MiB (2 MiB) and at 1, 2, n/2, n-2, n-1; the file object '
        'is io.BufferedReader over a scripted RawIOBase (group name sets also with a pre-filled buffer via '
        'peek()); plus real files of every length through hash_path, get_file_metadata and `gemato hash`. '
        'Quick tier reductions: at n >= 1 MiB the 1-byte schedule runs one hashlib name (+__size__) under every '
        'hint, the 2- and 3-byte schedules one name under hints {0, n}, the 7-byte schedule one name per kind '
        '(+ `gemato hash -`) under every hint, instead of the full group name sets; for n > 300 single-name sets '
        'use the schedules whole/4096/65536 only and the peek() variant runs under hints {0, n} only (thorough: '
        'no reduction). '
        'Changing files: every length in {0, 1, 2, 100, 65535..65537, 1048575..1048577} (thorough: + 8191..8193, '
        '131071..131073) x every change in {none, append 1 byte, append 65537 bytes, append 1 MiB, truncate by 1, '
        'truncate to n/2, truncate to 0, rewrite in place with other content of the same length} applied after '
        'get_file_metadata has yielded st_size and st_mtime and before the checksum dict is requested x every name '
        'set in {empty, each of the 10 Manifest names, the all-available group} (metadata_stepwise); the same '
        'lengths x changes x {empty, one name, group} through verify_path with an entry describing the file '
        'before the change (verify_path_racing); every length x entry size in {n, n+1, n-1, 0, 2n} with an entry '
        'without checksums through verify_path and update_entry_for_path (hashes=None and hashes=[]) on an '
        'unchanging file. '
        'KINDS OF ITERABLE (hash_file_iter, hash_path_iter, get_file_metadata_iter): every length in {0, 1, 2, 3, 100, 300} '
        '(thorough: 0..16, 100, 300) and c, c+1 (thorough: c-1, c, c+1) for every fully treated window centre c x every name set '
        '(above 300 bytes in the quick tier: the group / mixed / empty sets and one name per kind) x every container in {list, tuple, '
        'set, frozenset, dict keys view, iter(list), generator expression, the iterable returned by gemato.manifest.'
        'manifest_hashes_to_hashlib (Manifest kind), list naming every hash twice (a b a b / a a b b), generator naming every hash '
        'twice} x __size__ in {absent, last, first} x {hash_file over the scripted reader with hint in {0, n} and schedule in {whole, '
        '1-byte steps (n <= 300) / 4096-byte steps}, hash_path on a real file}; get_file_metadata with the Manifest names in every '
        'container but the mapped one (quick tier above 300 bytes: __size__ in {absent, last}, schedule whole only). '
        'SPELLINGS (get_hash_by_name, hash_bytes, hash_file, hash_path / hash_file_mapped, hash_path_mapped, get_file_metadata, '
        'verify_path_names, cli_hash, cli_stdin): every length in {0, 100} (thorough: + 1, 65537) x every name in the spelling alphabet: '
        'for every base name in hashlib.algorithms_available + algorithms_guaranteed + the ten Manifest names + ripemd160 + whirlpool: '
        'the name itself, its separator variants (_ to -, - to _, separators dropped, - or _ inserted before the first digit run), '
        'each of those in upper / lower / capitalised / title / swapped / alternating case, and the name and its upper case with a '
        'leading blank, trailing blank, leading tab, trailing newline, trailing NUL; every digest name, alias and signature-algorithm '
        'name in a fixed list taken from the OpenSSL documentation as written / upper / lower / capitalised; the dotted OIDs of those digests; '
        'special strings (empty, blank, null, none, undefined, default, prefixes and extensions of real names, misspelt __size__); '
        'x position in {alone, before a supported name, after a supported name} (hash_file / hash_file_mapped with hint 0, get_file_metadata; '
        'cli_hash: alone and together with a supported name) and alone under hints {0, n} / '
        'through the other entry points; names that are empty or contain white space or NUL are not driven through the CLI (argument splitting). '
        'SIMULATED BUILDS (a listed algorithm whose constructor raises; seam on gemato.hash.hashlib): every length in {0, 100} '
        '(thorough: + 1, 65537) x every build in {one supported hashlib name disabled, for each supported name in turn} (thorough: + every '
        'unordered pair of supported names) x exception flavour in {ValueError, a subclass of ValueError} x: every hashlib-accepted name '
        '(XOF names included) alone through get_hash_by_name, hash_bytes, hash_path, hash_file (hints {0, n}); every disabled name before / '
        'after a supported partner through hash_file and hash_path; the all-fixed-length group with and without the disabled names; each of the ten '
        'Manifest names alone through hash_file_mapped (hints {0, n}), hash_path_mapped, get_file_metadata, verify_path_names, cli_hash, '
        'cli_stdin; every Manifest name whose algorithm is disabled before / after a supported partner through hash_file_mapped, '
        'get_file_metadata, cli_hash; the all-available Manifest group.  "The same algorithm" = same digest_size and same digest of a '
        'probe string under the real hashlib, so a disabled algorithm is disabled under every spelling the backend resolves. '
        'A case = (entry point, n, name set, hint, schedule, peek | change, entry size | container, __size__ position | build, flavour); distinct by that tuple; non-trivial = '
        'n > 0 and the reference verdict is definite (digest or unsupported, not DONT_CARE)')
ASSUMPTIONS = [
    'trusted base: CPython hashlib one-shot digests (cross-checked against coreutils md5sum/sha1sum/'
    'sha256sum/sha512sum/b2sum on every threshold-sized content), io.BufferedReader/RawIOBase, and the '
    'independent name table gverif/refmanifest.HASHES',
    'raw objects whose readinto returns None (would-block), raises, or returns 0 before end of content are '
    'out of scope; BufferedReader uses the default buffer size',
    'names outside the Manifest table / unavailable algorithms must surface as UnsupportedHash '
    '(library) or exit 1 + ERROR log (CLI); hashlib XOFs (shake_*: digest_size 0, no parameterless hexdigest) are '
    'UNSUPPORTED hashlib names: the statement quantifies over all hashlib names and a name gemato cannot produce '
    'a digest for is either reported as unsupported or it is not reported at all (TypeError) - get_hash_by_name '
    'returning an object for such a name is a violation as well',
    'simulated builds: the only thing changed is what the name `hashlib` inside gemato.hash resolves to (an object that '
    'forwards every attribute to the real hashlib, lists the same algorithms_available, and whose new() / named constructors / '
    'file_digest() raise for a disabled algorithm); the reference digests come from the real hashlib.  The simulated constructor '
    'failure is ValueError or a subclass, the types hashlib documents / _hashlib.UnsupportedDigestmodError has.  If gemato.hash '
    'has no module attribute `hashlib` that is the hashlib module the family cannot be driven: that is a HARNESS-ERROR (not a '
    'violation); a case in which the seam was never asked for a disabled algorithm and a result came back is DONT_CARE',
    'real files live on tmpfs where st_size is exact; file systems reporting st_size 0 are covered only '
    'through the scripted hint 0',
    'lengths between the windows (301..65533 etc.) and beyond 2 MiB+1 (4 MiB+1 when the power-of-two fallback windows '
    'are in use) are not enumerated; gemato.hash.MAX_SLURP_SIZE / HASH_BUFFER_SIZE are read only to ADD windows around '
    'their current values (values above 4 MiB are noted and not explored); the check does not depend on their presence or value; '
    'the self-checks that need to know where the slurp / chunked switch is (path-observation counters) are enforced only '
    'while both constants have their default values and are downgraded to notes otherwise; which read sizes the raw stream '
    'was asked for (8192-byte readall vs HASH_BUFFER_SIZE read1) is recorded as an observation and never enforced',
    'supported names are exactly: the ten Manifest names of gverif/refmanifest.HASHES whose algorithm this OpenSSL provides '
    '(Manifest kind); the members of hashlib.algorithms_available that hashlib.new() accepts and that have digest_size > 0, and the size pseudo-name __size__ '
    '(hashlib kind).  Every other string must raise UnsupportedHash (CLI: exit 1 + ERROR log) and never yield a digest; the '
    'spelling alphabet is judged by membership in those sets computed at run time, so a Python whose algorithms_available also '
    'lists e.g. upper-case names turns those spellings into digest cases.  Non-string names are out of scope.  __size__ used as '
    'a Manifest name and verify_path returning (False, diff) for an entry with an unsupported name are DONT_CARE; verify_path '
    'returning (True, ...) for such an entry is a violation (name ignored)',
    'kinds of iterable: a requested name missing from the result, or with another value than the one-shot digest, is a '
    'violation whatever container the names came in; keys that were not requested are counted, not judged; sets iterate in '
    'the order PYTHONHASHSEED=0 gives',
    'changing files: the change happens strictly between two next() calls of the consumer (after st_mtime, '
    'before the checksum dict), so "the content" is the file as it is from then on; writers running '
    'concurrently with the read itself are out of scope.  update_entry_for_path is not driven over a file '
    'that changes size (it asserts st_size == real size by design)',
]

SMALL_MAX = 300
COMP_MAX = 10
STEPS_HEAVY = (1, 2, 3, 7)
STEPS_LIGHT = (4096, 65535, 65536, 65537)
BIG = 2 ** 40

# ---- length windows.  The defaults are fixed; gemato.hash's tuning constants are only a hint where to look in addition.
DEFAULT_BUFFER = 65536
DEFAULT_SLURP = 1048576
DEFAULT_CENTRES = (65536, 131072, 1048576)
THOROUGH_CENTRE = 2097152                       # +-1, thorough tier only
BASE_SHORT_AT = (8192, 65536, 131072, 1048576, 2097152)
FALLBACK_CENTRES = tuple(1 << k for k in range(12, 23))      # 4 KiB .. 4 MiB, +-1, light treatment
MAX_CENTRE = 1 << 22
HEAVY_FULL_MAX = 200000     # quick tier: above this the 1/2/3/7-byte schedules run with reduced name sets


def _tuning_value(name):
    v = getattr(ghash, name, None)
    return v if type(v) is int and v > 0 else None


def tuning():
    """Current values of gemato's tuning constants, None where the attribute is absent / not a positive int."""
    return {'slurp': _tuning_value('MAX_SLURP_SIZE'), 'buffer': _tuning_value('HASH_BUFFER_SIZE')}


def tuning_is_default():
    return tuning() == {'slurp': DEFAULT_SLURP, 'buffer': DEFAULT_BUFFER}


def hinted_centres():
    """-> (centres to add because a tuning constant points there, values beyond the bound)"""
    t = tuning()
    cand = [t['buffer'], 2 * t['buffer'] if t['buffer'] else None, t['slurp']]
    add, beyond = [], []
    for v in cand:
        if v is None or v in DEFAULT_CENTRES or v in add or v in beyond:
            continue
        if v > MAX_CENTRE:
            beyond.append(v)
        elif v - 2 > SMALL_MAX:          # otherwise every length around it is enumerated anyway
            add.append(v)
    return add, beyond


_WIN = {}


def windows(tier):
    """-> {length: (treatment, centre)} for the enumerated lengths above SMALL_MAX; treatment 'full' | 'light'."""
    w = _WIN.get(tier)
    if w is None:
        w = {}
        full = [(c, 2) for c in DEFAULT_CENTRES]
        if tier != 'quick':
            full.append((THOROUGH_CENTRE, 1))
        full += [(c, 2) for c in hinted_centres()[0]]
        for c, r in full:
            for L in range(c - r, c + r + 1):
                w.setdefault(L, ('full', c))
        t = tuning()
        if t['slurp'] is None or t['buffer'] is None:
            for c in FALLBACK_CENTRES:
                for L in range(c - 1, c + 2):
                    w.setdefault(L, ('light', c))
        _WIN[tier] = w
    return w


def full_centres(tier):
    return sorted({c for t, c in windows(tier).values() if t == 'full'})


def max_length(tier):
    """Longest content any shard of the tier builds (changing files append up to 1 MiB)."""
    return max(max(windows(tier)), max(changing_lengths(tier)) + max(APPEND.values()))

MANIFEST_NAMES = tuple(rm.HASHES)
UNKNOWN_MANIFEST = ('FOO', 'sha256', 'SHA224', 'SHA3_384')
COREUTILS = (('MD5', 'md5sum'), ('SHA1', 'sha1sum'), ('SHA256', 'sha256sum'),
             ('SHA512', 'sha512sum'), ('BLAKE2B', 'b2sum'))
BUILD_REASON = ('simulated build: gemato returned a result without ever asking the hashlib seam for the disabled algorithm '
                '(the simulation did not reach the code that serves this call)')
SIZE_REASON = "the size pseudo-name '__size__' used as a Manifest name: the statement does not say whether it is a hash name"
DIFF_REASON = ('verify_path answered (False, diff) for an entry with an unsupported hash name: reported as a mismatch, '
               'the statement does not fix the channel')

SCRIPTED = ('hash_file', 'hash_file_mapped', 'cli_stdin')


# ---------------------------------------------------------------- contents

_PATTERN = {}
_PATTERN_MIN = [0]       # setup() raises this to the longest content of the tier so that the pattern is built once


def pattern(seed, n):
    """First n bytes of the seed's pattern: little-endian 32-bit words
    (i * 0x9E3779B1 + off) mod 2^32 — a bijection of i, so every aligned word is unique."""
    need = 4096 if n <= 4096 else max(2 * 1048576 + 64, _PATTERN_MIN[0], (n + 67) // 4 * 4)
    have = _PATTERN.get(seed)
    if have is None or len(have) < need:
        off = (0x5BD1E995 + seed * 0x01000193) & 0xFFFFFFFF
        while True:
            a = array.array('I', [(i * 0x9E3779B1 + off) & 0xFFFFFFFF for i in range(need // 4)])
            assert a.itemsize == 4
            if sys.byteorder == 'big':
                a.byteswap()
            have = a.tobytes()
            if len(set(have[:12])) == 12:      # the exhaustive-composition prefix has distinct bytes
                break
            off = (off + 0x01010101) & 0xFFFFFFFF
        _PATTERN[seed] = have
    return have[:n]


# ---------------------------------------------------------------- name sets

_HL = None


def hashlib_accepted():
    """-> (names accepted by hashlib.new() without parameters, those with a digest of fixed non-zero length).
    The second tuple is the set of SUPPORTED hashlib names; the difference are the extendable-output functions."""
    global _HL
    if _HL is None:
        acc, fixed = [], []
        for n in sorted(hashlib.algorithms_available):
            try:
                h = hashlib.new(n)
            except (ValueError, TypeError):
                continue
            acc.append(n)
            try:
                if getattr(h, 'digest_size', 0) > 0 and isinstance(h.hexdigest(), str):
                    fixed.append(n)
            except TypeError:
                pass
        _HL = (tuple(acc), tuple(fixed))
    return _HL


def xof_names():
    """hashlib lists and constructs them, but there is no digest without a length argument."""
    acc, fixed = hashlib_accepted()
    return tuple(n for n in acc if n not in fixed)


# ---------------------------------------------------------------- simulated builds: a listed algorithm cannot be constructed

PROBE = b'gverif C17: which function is this?'
FLAVOURS = ('ValueError', 'subclass')
BUILD_PAIRS_TIER = 'thorough'


class SimulatedDigestmodError(ValueError):
    """Stands for _hashlib.UnsupportedDigestmodError, which is a ValueError too."""


_PROBES = {}


def probe(kind, name):
    """What function the name computes: (digest_size, digest of PROBE) under the REAL hashlib / the independent
    Manifest table; None when there is no parameterless fixed-length digest (unknown name, XOF, non-string)."""
    key = (kind, name)
    if key not in _PROBES:
        r = None
        try:
            if kind == 'manifest':
                h = rm.HASHES[name]() if name in rm.HASHES else None
            else:
                h = hashlib.new(name) if isinstance(name, str) else None
            if h is not None and getattr(h, 'digest_size', 0) > 0:
                h.update(PROBE)
                r = (h.digest_size, h.digest())
        except (ValueError, TypeError, KeyError):
            r = None
        _PROBES[key] = r
    return _PROBES[key]


def disabled_probes(disabled):
    return {probe('hashlib', d) for d in disabled} - {None}


def is_disabled(kind, name, disabled):
    p = probe(kind, name)
    return p is not None and p in disabled_probes(disabled)


class SimulatedHashlib:
    """What `hashlib` looks like in a build whose crypto backend refuses some of the algorithms it lists.

    Every attribute is the real one (algorithms_available included: the disabled names ARE listed); new(),
    the named constructors and file_digest() construct the real object first (so unknown names fail as they
    always do) and then raise when that object computes a disabled algorithm, whatever spelling was used."""

    def __init__(self, disabled, flavour):
        self.__dict__['_disabled'] = tuple(disabled)
        self.__dict__['_exc'] = ValueError if flavour == 'ValueError' else SimulatedDigestmodError
        self.__dict__['fired'] = 0          # constructions of a disabled algorithm that were refused
        self.__dict__['asked'] = 0          # attribute look-ups

    def _refuse(self, name):
        if isinstance(name, str) and is_disabled('hashlib', name, self._disabled):
            self.__dict__['fired'] += 1
            raise self._exc(f'[digital envelope routines] unsupported (simulated build: {name} is disabled)')

    def new(self, name, *a, **kw):
        self.__dict__['asked'] += 1
        h = hashlib.new(name, *a, **kw)
        self._refuse(name)
        return h

    def __getattr__(self, attr):
        self.__dict__['asked'] += 1
        v = getattr(hashlib, attr)
        if attr == 'file_digest':
            def file_digest(fileobj, digest, *a, **kw):
                if isinstance(digest, str):
                    hashlib.new(digest)
                    self._refuse(digest)
                elif callable(digest):
                    digest()            # one of our own wrappers raises here
                return v(fileobj, digest, *a, **kw)
            return file_digest
        if callable(v) and (attr in hashlib.algorithms_available or attr in hashlib.algorithms_guaranteed):
            def constructor(*a, **kw):
                h = v(*a, **kw)
                self._refuse(attr)
                return h
            return constructor
        return v

    def __setattr__(self, attr, value):
        raise AttributeError('the simulated hashlib is read-only')


def seam_available():
    return ghash.__dict__.get('hashlib') is hashlib


class simulated_build:
    """with simulated_build(disabled, flavour) as sim: gemato.hash sees the simulated hashlib.  sim is None (and
    nothing is changed) when gemato.hash has no module attribute `hashlib` that is the hashlib module."""

    def __init__(self, disabled, flavour):
        self.disabled, self.flavour = disabled, flavour
        self.sim = None

    def __enter__(self):
        if seam_available():
            self.sim = SimulatedHashlib(self.disabled, self.flavour)
            ghash.hashlib = self.sim
        return self.sim

    def __exit__(self, *a):
        if self.sim is not None:
            ghash.hashlib = hashlib
        return False


def builds(tier):
    """-> list of (disabled names, flavour): every supported hashlib name in turn (thorough: every pair too)."""
    _acc, fixed = hashlib_accepted()
    sets = [(d,) for d in fixed]
    if tier == BUILD_PAIRS_TIER:
        sets += list(itertools.combinations(fixed, 2))
    return [(d, fl) for d in sets for fl in FLAVOURS]


def build_lengths(tier):
    return [0, 100] if tier == 'quick' else [0, 1, 100, 65537]


def build_partner(kind, disabled):
    """A supported name of the kind whose algorithm is not disabled."""
    if kind == 'hashlib':
        cands = ('sha1', 'sha256') + hashlib_accepted()[1]
    else:
        cands = ('SHA1', 'SHA256') + tuple(n for n in MANIFEST_NAMES if rm.available(n))
    for c in cands:
        if probe(kind, c) is not None and not is_disabled(kind, c, disabled):
            return c
    return None


def namesets():
    """-> list of (kind, names, is_group)."""
    acc, fixed = hashlib_accepted()
    avail = tuple(sorted(n for n in MANIFEST_NAMES if rm.available(n)))
    out = [('manifest', (n,), False) for n in MANIFEST_NAMES + UNKNOWN_MANIFEST]
    out += [('manifest', avail, True), ('manifest', ('FOO', 'MD5'), True),
            ('manifest', ('SHA1', 'WHIRLPOOL'), True), ('manifest', (), True)]
    out += [('hashlib', (n,), False) for n in acc]
    out += [('hashlib', (n,), False) for n in ('nosuchhash', 'whirlpool') if n not in acc]
    out += [('hashlib', fixed, True), ('hashlib', ('md5', 'nosuchhash'), True)]
    if xof_names():
        out.append(('hashlib', ('sha1',) + xof_names(), True))
    return out


def reduced_namesets():
    """One cheap hash per kind (+__size__) for the very long schedules of the quick tier."""
    return [('manifest', ('MD5',), False), ('hashlib', ('blake2b',), False)]


_EXP = {}


def expectation(kind, names, disabled=()):
    """disabled = the hashlib names whose algorithm cannot be constructed in the (simulated) build."""
    key = (kind, names, disabled)
    r = _EXP.get(key)
    if r is None:
        if kind == 'manifest':
            bad = [n for n in names if n != '__size__' and (n not in rm.HASHES or not rm.available(n)
                                                           or (disabled and is_disabled(kind, n, disabled)))]
            if bad:
                r = ('unsupported', bad)
            elif '__size__' in names:
                r = ('dontcare', SIZE_REASON)
            else:
                r = ('digest', None)
        else:
            # supported = listed, constructible, and with a digest of fixed non-zero length (so not an XOF)
            _acc, fixed = hashlib_accepted()
            bad = [n for n in names if n not in fixed or (disabled and is_disabled(kind, n, disabled))]
            r = ('unsupported', bad) if bad else ('digest', None)
        _EXP[key] = r
    return r


# ---------------------------------------------------------------- kinds of iterable

CONTAINERS = ('list', 'tuple', 'set', 'frozenset', 'dict_keys', 'iter_list', 'genexpr', 'mapped_gen',
              'list_dup', 'list_dup_adjacent', 'genexpr_dup')
ONE_SHOT = ('iter_list', 'genexpr', 'mapped_gen', 'genexpr_dup')
SIZEPOS = ('absent', 'last', 'first')
ITER_ENTRIES = ('hash_file_iter', 'hash_path_iter', 'get_file_metadata_iter')


def make_container(container, req):
    """A fresh iterable of kind ``container`` over the names ``req`` (a list)."""
    if container == 'list':
        return list(req)
    if container == 'tuple':
        return tuple(req)
    if container == 'set':
        return set(req)
    if container == 'frozenset':
        return frozenset(req)
    if container == 'dict_keys':
        return dict.fromkeys(req).keys()
    if container == 'iter_list':
        return iter(list(req))
    if container == 'genexpr':
        return (x for x in list(req))
    if container == 'list_dup':
        return list(req) + list(req)
    if container == 'list_dup_adjacent':
        return [x for x in req for _ in (0, 1)]
    if container == 'genexpr_dup':
        return (x for x in list(req) * 2)
    raise ValueError(container)


def with_size(seq, sizepos):
    if sizepos == 'absent':
        return list(seq)
    return list(seq) + ['__size__'] if sizepos == 'last' else ['__size__'] + list(seq)


def hashlib_request(container, sizepos, kind, names):
    """The iterable of hashlib-level names handed to hash_file / hash_path."""
    if container == 'mapped_gen':
        g = gman.manifest_hashes_to_hashlib(list(names))       # whatever kind of iterable gemato returns
        if sizepos == 'last':
            return itertools.chain(g, ['__size__'])
        if sizepos == 'first':
            return itertools.chain(['__size__'], g)
        return g
    if kind == 'manifest':
        names = list(gman.manifest_hashes_to_hashlib(list(names)))
    return make_container(container, with_size(names, sizepos))


def iter_namesets(L, tier):
    sets = namesets()
    if L > SMALL_MAX and tier == 'quick':
        red = {n for _k, n, _g in reduced_namesets()}
        sets = [x for x in sets if x[2] or x[1] in red]
    return sets


def iter_lengths(tier):
    small = [0, 1, 2, 3, 100, 300] if tier == 'quick' else list(range(0, 17)) + [100, 300]
    large = []
    for c in full_centres(tier):
        large += [c, c + 1] if tier == 'quick' else [c - 1, c, c + 1]
    return small + [L for L in sorted(set(large)) if L in windows(tier)]


def iter_combos(L, tier):
    """-> list of (sizepos, hint selector, schedule) for hash_file_iter and list of sizepos for hash_path_iter"""
    if L > SMALL_MAX and tier == 'quick':
        poss, scheds = ('absent', 'last'), [('whole', 0, ())]
    else:
        poss = SIZEPOS
        scheds = [('whole', 0, ()), ('step1', 1, ())] if L <= SMALL_MAX else [('whole', 0, ()), ('step4096', 4096, ())]
    hints = sorted({0, L})
    return [(sp, h, sc) for sp in poss for h in hints for sc in scheds], list(poss)


# ---------------------------------------------------------------- spellings of hash names

# digest names, aliases and signature-algorithm names as the OpenSSL documentation (EVP_MD-*(7), objects.txt) writes them
OPENSSL_NAMES = (
    'MD2', 'MD4', 'MD5', 'MD5-SHA1', 'MDC2', 'SSL3-MD5', 'SSL3-SHA1', 'SHA', 'SHA1', 'SHA-1', 'DSA-SHA', 'RSA-SHA1',
    'SHA2-224', 'SHA-224', 'SHA224', 'SHA2-256', 'SHA-256', 'SHA256', 'SHA2-384', 'SHA-384', 'SHA384',
    'SHA2-512', 'SHA-512', 'SHA512', 'SHA2-512/224', 'SHA-512/224', 'SHA512-224', 'SHA2-512/256', 'SHA-512/256',
    'SHA512-256', 'SHA3-224', 'SHA3-256', 'SHA3-384', 'SHA3-512', 'SHAKE-128', 'SHAKE128', 'SHAKE-256', 'SHAKE256',
    'KECCAK-224', 'KECCAK-256', 'KECCAK-384', 'KECCAK-512', 'KECCAK-KMAC-128', 'KECCAK-KMAC128', 'KECCAK-KMAC-256',
    'KECCAK-KMAC256', 'BLAKE2B-512', 'BLAKE2b512', 'BLAKE2S-256', 'BLAKE2s256', 'RIPEMD-160', 'RIPEMD160', 'RIPEMD',
    'RMD160', 'SM3', 'WHIRLPOOL', 'GOST', 'md_gost94', 'streebog256', 'streebog512', 'NULL', 'UNDEF', 'undefined',
    'RSA-MD5', 'RSA-SHA256', 'RSA-SHA512', 'RSA-SHA3-256', 'sha256WithRSAEncryption', 'sha1WithRSAEncryption',
    'md5WithRSAEncryption', 'ecdsa-with-SHA256', 'id-sha256', 'id-sha512', 'id-rsassa-pkcs1-v1_5-with-sha3-256',
    'hmacWithSHA256', 'hmac-md5', 'HMAC',
)
OIDS = (
    '1.2.840.113549.2.2', '1.2.840.113549.2.4', '1.2.840.113549.2.5',                  # md2 md4 md5
    '1.3.14.3.2.26', '1.3.14.3.2.18',                                                    # sha1 sha
    '2.16.840.1.101.3.4.2.1', '2.16.840.1.101.3.4.2.2', '2.16.840.1.101.3.4.2.3',        # sha256 sha384 sha512
    '2.16.840.1.101.3.4.2.4', '2.16.840.1.101.3.4.2.5', '2.16.840.1.101.3.4.2.6',        # sha224 sha512-224 sha512-256
    '2.16.840.1.101.3.4.2.7', '2.16.840.1.101.3.4.2.8', '2.16.840.1.101.3.4.2.9',        # sha3-224 sha3-256 sha3-384
    '2.16.840.1.101.3.4.2.10', '2.16.840.1.101.3.4.2.11', '2.16.840.1.101.3.4.2.12',     # sha3-512 shake128 shake256
    '1.3.36.3.2.1', '1.0.10118.3.0.55', '1.2.156.10197.1.401',                          # ripemd160 whirlpool sm3
    '1.3.6.1.4.1.1722.12.2.1.16', '1.3.6.1.4.1.1722.12.2.2.8',                           # blake2b512 blake2s256
    '1.2.840.113549.1.1.11', '1.2.840.113549.2.9', '2.5.8.3.101',                        # sha256WithRSA hmacWithSHA256 mdc2
    'OID.2.16.840.1.101.3.4.2.1', '2.16.840.1.101.3.4.2', '0.0',
)
SPECIALS = (
    '', ' ', '\t', 'null', 'Null', 'none', 'None', 'nil', 'default', 'any', '*', 'x', '0', 'md', 'sha', 'sha2', 'sha3',
    'sha25', 'sha2567', 'sha3_987', 'sha512_257', 'blake2', 'blake2b_512', 'blake2b-256', 'md5sum', 'md55', 'nosuchhash',
    'FOO', 'hash', 'digest', 'size', 'SIZE', '__SIZE__', '__Size__', ' __size__', '__size__ ', '_size_', '__size', 'size__',
    '__size__\x00', '__size__,md5', 'md5,sha1', 'md5 sha1', '__len__', '__md5__', '__sha256__',
)
SPELLING_CLASSES = ('identity', 'separator', 'case', 'blank', 'openssl_name', 'oid', 'special')


def _case_variants(b):
    alt = ''.join(c.upper() if i % 2 else c.lower() for i, c in enumerate(b))
    alt2 = ''.join(c.lower() if i % 2 else c.upper() for i, c in enumerate(b))
    return [b.upper(), b.lower(), b.capitalize(), b.title(), b.swapcase(), alt, alt2]


def _separator_variants(b):
    out = [b.replace('_', '-'), b.replace('-', '_'), b.replace('_', '').replace('-', '')]
    for sep in '-_':
        out.append(re.sub(r'(?<=[A-Za-z])(?=[0-9])', sep, b, count=1))
    return out


_SPELL = None


def spellings():
    """-> ordered {name: class}; the class is the first rule that produced the name."""
    global _SPELL
    if _SPELL is None:
        out = {}

        def add(name, cls):
            out.setdefault(name, cls)
        bases = sorted(set(hashlib.algorithms_available) | set(hashlib.algorithms_guaranteed)
                       | set(MANIFEST_NAMES) | {'ripemd160', 'whirlpool'})
        for b in bases:
            add(b, 'identity')
        for b in bases:
            seps = [v for v in _separator_variants(b) if v != b]
            for v in seps:
                add(v, 'separator')
            for v in [b] + seps:
                for c in _case_variants(v):
                    add(c, 'case')
            for v in (b, b.upper()):
                for c in (' ' + v, v + ' ', '\t' + v, v + '\n', v + '\x00'):
                    add(c, 'blank')
        for b in OPENSSL_NAMES:
            for v in (b, b.upper(), b.lower(), b.capitalize()):
                add(v, 'openssl_name')
        for b in OIDS:
            add(b, 'oid')
        for b in SPECIALS:
            add(b, 'special')
        _SPELL = out
    return _SPELL


def cli_representable(name):
    """`gemato hash -H` splits its argument at white space: such names cannot be handed over."""
    return bool(name) and not any(c.isspace() or c == '\x00' for c in name)


def spelling_lengths(tier):
    return [0, 100] if tier == 'quick' else [0, 1, 100, 65537]


SPELLING_CHUNKS = 6
PARTNER = {'hashlib': 'sha1', 'manifest': 'SHA1'}


_REF = {}


def refdigest(kind, name, seed, L):
    key = (kind, name, seed, L)
    r = _REF.get(key)
    if r is None:
        data = pattern(seed, L)
        if kind == 'manifest':
            r = rm.hexdigest(name, data)
        else:
            r = hashlib.new(name, data).hexdigest()
        if len(_REF) > 200000:
            _REF.clear()
        _REF[key] = r
    return r


# ---------------------------------------------------------------- schedules

class ScriptedRaw(io.RawIOBase):
    """Unseekable raw stream over ``data``; a read never crosses a multiple of ``step``
    (0 = no step) nor a position in ``cuts`` (sorted), so it comes back short there."""

    def __init__(self, data, step=0, cuts=()):
        super().__init__()
        self._mv = memoryview(data)
        self._n = len(data)
        self._pos = 0
        self._step = step
        self._cuts = cuts
        self._ci = 0
        self.chunks = 0          # reads that returned data
        self.max_req = 0         # largest buffer offered by the consumer

    def readable(self):
        return True

    def readinto(self, b):
        pos = self._pos
        req = len(b)
        if req > self.max_req:
            self.max_req = req
        n = self._n - pos
        if n <= 0 or req == 0:
            return 0
        if req < n:
            n = req
        if self._step:
            m = self._step - pos % self._step
            if m < n:
                n = m
        cuts = self._cuts
        if cuts:
            ci = self._ci
            nc = len(cuts)
            while ci < nc and cuts[ci] <= pos:
                ci += 1
            self._ci = ci
            if ci < nc and cuts[ci] - pos < n:
                n = cuts[ci] - pos
        b[:n] = self._mv[pos:pos + n]
        self._pos = pos + n
        self.chunks += 1
        return n


def halving_cuts(L):
    cuts, pos = [], 0
    while pos < L:
        pos += (L - pos + 1) // 2
        if pos < L:
            cuts.append(pos)
    return tuple(cuts)


def small_schedules(L):
    """-> list of (label, step, cuts); explicit cut sets, de-duplicated."""
    if L <= COMP_MAX:
        if L <= 1:
            return [('comp', 0, ())]
        return [('comp', 0, tuple(i + 1 for i in range(L - 1) if mask >> i & 1))
                for mask in range(1 << (L - 1))]
    seen, out = set(), []

    def add(label, cuts):
        if cuts not in seen:
            seen.add(cuts)
            out.append((label, 0, cuts))
    add('whole', ())
    for k in STEPS_HEAVY + STEPS_LIGHT:
        add(f'step{k}', tuple(range(k, L, k)))
    add('halving', halving_cuts(L))
    for p in sorted({1, 2, L // 2, L - 2, L - 1}):
        if 0 < p < L:
            add(f'short@{p}', (p,))
    return out


def short_positions(L, tier):
    w = 2 if tier == 'quick' else 8
    ps = set()
    for t in sorted(set(BASE_SHORT_AT) | set(hinted_centres()[0])):
        ps.update(p for p in range(t - w, t + w + 1) if 0 < p < L)
    ps.update(p for p in (1, 2, L // 2, L - 2, L - 1) if 0 < p < L)
    return sorted(ps)


def light_schedules(L, tier):
    out = [('whole', 0, ())]
    steps = STEPS_LIGHT if tier == 'quick' else STEPS_LIGHT + (8191, 8192, 8193)
    out += [(f'step{k}', k, ()) for k in steps if k < L]
    out.append(('halving', 0, halving_cuts(L)))
    out += [(f'short@{p}', 0, (p,)) for p in short_positions(L, tier)]
    return out


def fallback_schedules(L, centre):
    """Light treatment of a power-of-two fallback window."""
    out = [('whole', 0, ())]
    out += [(f'step{k}', k, ()) for k in (4096, 65536) if k < L]
    out.append(('halving', 0, halving_cuts(L)))
    ps = {p for p in range(centre - 2, centre + 3)} | {1, 2, L // 2, L - 2, L - 1}
    out += [(f'short@{p}', 0, (p,)) for p in sorted(ps) if 0 < p < L]
    return out


def single_schedules(L, tier):
    if tier != 'quick':
        return light_schedules(L, tier)
    return [('whole', 0, ()), ('step4096', 4096, ()), ('step65536', 65536, ())]


def hints_for(L):
    return sorted({0, L, L - 1, L + 1, 1, BIG})


def large_lengths(tier):
    return sorted(windows(tier))


# ---------------------------------------------------------------- execution

class _Stdin:
    def __init__(self, buffer):
        self.buffer = buffer


def _mapped_hash_file(f, names, hint):
    mapped = list(gman.manifest_hashes_to_hashlib(names))
    res = ghash.hash_file(f, mapped + ['__size__'], _apparent_size=hint)
    out = {m: res.get(h) for m, h in zip(names, mapped)}
    out['__size__'] = res.get('__size__')
    return out


def _mapped_hash_path(path, names):
    mapped = list(gman.manifest_hashes_to_hashlib(names))
    res = ghash.hash_path(path, mapped + ['__size__'])
    out = {m: res.get(h) for m, h in zip(names, mapped)}
    out['__size__'] = res.get('__size__')
    return out


def _metadata(path, names):
    g = gverify.get_file_metadata(path, list(names))
    try:
        return list(g)
    finally:
        g.close()


def exec_scripted(entry, data, names, hint, step, cuts, peek):
    raw = ScriptedRaw(data, step, cuts)
    f = io.BufferedReader(raw)
    if peek:
        f.peek(1)
    if entry == 'hash_file':
        o = gem.call(ghash.hash_file, f, list(names) + ['__size__'], _apparent_size=hint)
    elif entry == 'hash_file_mapped':
        o = gem.call(_mapped_hash_file, f, list(names), hint)
    elif entry == 'cli_stdin':
        old = sys.stdin
        sys.stdin = _Stdin(f)
        try:
            o = gem.cli(['hash', '-H', ' '.join(names), '-'])
        finally:
            sys.stdin = old
    else:
        raise ValueError(entry)
    return o, raw


def _backmap(kind, names, res):
    """Result of hash_file / hash_path re-keyed by the names of ``kind`` -> (mapping, keys nobody asked for)."""
    if not isinstance(res, dict):
        return res, 0
    if kind == 'manifest':
        try:
            mapped = list(gman.manifest_hashes_to_hashlib(list(names)))
        except Exception:       # a name gemato does not map, and yet there is a result: hand it on as it is
            return res, 0
        out = {m: res[h] for m, h in zip(names, mapped) if h in res}
        asked = set(mapped)
    else:
        out = {n: res[n] for n in names if n in res}
        asked = set(names)
    if '__size__' in res:
        out['__size__'] = res['__size__']
    return out, len(set(res) - asked - {'__size__'})


def exec_iter(entry, kind, names, container, sizepos, data=None, path=None, hint=0, step=0, cuts=()):
    """-> observation whose value is (mapping keyed like ``names``, number of unrequested keys)"""
    if entry == 'hash_file_iter':
        f = io.BufferedReader(ScriptedRaw(data, step, cuts))

        def go():
            return _backmap(kind, names, ghash.hash_file(f, hashlib_request(container, sizepos, kind, names),
                                                         _apparent_size=hint))
    elif entry == 'hash_path_iter':
        def go():
            return _backmap(kind, names, ghash.hash_path(path, hashlib_request(container, sizepos, kind, names)))
    elif entry == 'get_file_metadata_iter':
        def go():
            g = gverify.get_file_metadata(path, make_container(container, list(names)))
            try:
                return list(g), 0
            finally:
                g.close()
    else:
        raise ValueError(entry)
    return gem.call(go)


FILLER_DIGEST = 'd41d8cd98f00b204e9800998ecf8427e'


def _verify_names(path, names, data):
    sums = {n: (rm.hexdigest(n, data) if n in rm.HASHES and rm.available(n) else FILLER_DIGEST) for n in names}
    return gverify.verify_path(path, _entry(len(data), sums))


def exec_real(entry, path, names, repeat=1, data=None):
    if entry == 'get_hash_by_name':
        def one():
            h = ghash.get_hash_by_name(names[0])
            try:
                h.update(data)
                return {names[0]: h.hexdigest()}
            except TypeError as e:      # an object came back, but it has no digest without further arguments
                return {'<object without a parameterless digest>': f'{type(h).__name__}: {e}'[:80]}
        return gem.call(one)
    if entry == 'verify_path_names':
        return gem.call(_verify_names, path, names, data)
    if entry == 'hash_path':
        return gem.call(ghash.hash_path, path, list(names) + ['__size__'])
    if entry == 'hash_path_mapped':
        return gem.call(_mapped_hash_path, path, list(names))
    if entry == 'get_file_metadata':
        return gem.call(_metadata, path, names)
    if entry == 'cli_hash':
        return gem.cli(['hash', '-H', ' '.join(names)] + [path] * repeat)
    if entry == 'hash_bytes':
        def go():
            return {'__size__': ghash.hash_bytes(data, '__size__'),
                    names[0]: ghash.hash_bytes(data, names[0])}
        return gem.call(go)
    raise ValueError(entry)


def under_build(build, fn):
    """Run fn() in the simulated build (None = the real one) -> (fn(), what the seam saw | None)"""
    if build is None:
        return fn(), None
    with simulated_build(build[0], build[1]) as sim:
        r = fn()
    if ghash.__dict__.get('hashlib') is not hashlib and sim is not None:
        raise RuntimeError('the hashlib seam on gemato.hash was not taken out again')
    return r, ({'available': False} if sim is None else {'available': True, 'fired': sim.fired, 'asked': sim.asked})


# ---------------------------------------------------------------- judging

def cli_exit(o):
    """Process exit status `gemato` would end with: sys.exit(main()) maps None to 0."""
    code = o.get('exit')
    if o['kind'] == 'ret' or o.get('class') == 'exit':
        return 0 if code is None else code
    return None


def _exc_sig(check, entry, o):
    sig = {'check': check, 'entry': entry, 'exc': o['exc']}
    if o.get('where'):
        sig['where'] = o['where']
    if o.get('class') == 'oserror':
        sig['errno'] = o.get('errno')
    return sig


def _check_mapping(entry, kind, names, seed, L, v, out, want_size=True):
    if not isinstance(v, dict):
        out.append(({'check': 'result_not_mapping', 'entry': entry},
                    f'{entry}: result is {type(v).__name__}, not a mapping'))
        return
    sz = v.get('__size__')
    if want_size and (type(sz) is not int or sz != L):
        out.append(({'check': 'size_mismatch', 'entry': entry},
                    f'{entry}: __size__ = {sz!r} for content of {L} bytes'))
    for n in names:
        ref = refdigest(kind, n, seed, L)
        if v.get(n) != ref:
            have = (f'digest {v[n]!r} !=' if n in v else
                    f'is missing from the result (keys {sorted(map(str, v))[:6]}), expected the')
            out.append(({'check': 'digest_mismatch', 'entry': entry, 'name': n},
                        f'{entry}: {n} {have} one-shot digest {ref!r} of the '
                        f'{L}-byte content'))


WHY_UNSUPPORTED = {'manifest': 'not one of the ten Manifest names, or its algorithm is unavailable',
                   'hashlib': 'not a hashlib.algorithms_available name that hashlib.new() accepts and that has a digest '
                              'of fixed non-zero length'}
WHY_BUILD = '; in this simulated build the constructor of {} raises'
BUILD_TAG = 'listed_constructor_raises'
SEAM_REASON = 'simulated build: gemato.hash has no module attribute `hashlib` to put the seam on (reported as a harness error)'


def returned_result(entry, o):
    return cli_exit(o) == 0 if entry.startswith('cli') else o['kind'] == 'ret'


def judge_build(entry, kind, names, seed, L, o, build, seam, repeat=1):
    """A case run in a simulated build -> (verdict label, outcome label, [(sig, message), ...], dontcare reason | None)"""
    disabled = tuple(build[0])
    if not seam['available']:
        return 'dontcare', gem.brief(o), [], SEAM_REASON
    what, got, viols = judge(entry, kind, names, seed, L, o, repeat, disabled=disabled)
    only_the_build = expectation(kind, names, disabled)[0] == 'unsupported' and expectation(kind, names)[0] == 'digest'
    if only_the_build and not seam['fired'] and returned_result(entry, o):
        return 'dontcare', got, [], BUILD_REASON
    how = f'simulated build: {"/".join(disabled)} listed but the constructor raises {build[1]}'
    viols = [(dict(sig, build=BUILD_TAG), f'{msg} [{how}; refused constructions: {seam["fired"]}]') for sig, msg in viols]
    return what, got, viols, (DIFF_REASON if what == 'dontcare' else None)


def judge(entry, kind, names, seed, L, o, repeat=1, want_size=True, disabled=()):
    """-> (verdict label, outcome label, [(sig, message), ...])"""
    what, info = expectation(kind, names, disabled)
    got = gem.brief(o) if o['kind'] != 'ret' or entry.startswith('cli') else 'ret'
    if what == 'dontcare':
        return what, got, []
    out = []
    is_cli = entry.startswith('cli')
    if entry in ITER_ENTRIES and o['kind'] == 'ret':
        o = dict(o, value=o['value'][0])
    if entry == 'verify_path_names':
        return _judge_verify_names(entry, what, info, names, o, got)
    if what == 'unsupported':
        desc = (f'{entry}: name(s) {info!r} not supported ({WHY_UNSUPPORTED[kind]}'
                f'{WHY_BUILD.format("/".join(disabled)) if disabled else ""})')
        if is_cli:
            if o['kind'] == 'exc' and o.get('class') != 'exit':
                out.append((_exc_sig('unsupported_name_wrong_exception', entry, o),
                            f'{desc} but {o["exc"]}({o.get("msg", "")}) escaped instead of UnsupportedHash'))
            elif cli_exit(o) == 0:
                out.append(({'check': 'unsupported_name_yielded_result', 'entry': entry},
                            f'{desc} but the command succeeded: {o["stdout"][:120]!r}'))
            elif not (cli_exit(o) == 1 and any(lv == 'ERROR' for lv, _ in o['log'])):
                out.append(({'check': 'unsupported_name_wrong_exit', 'entry': entry, 'got': got},
                            f'{desc} but exit={o.get("exit")!r} log={o["log"][:2]!r}'))
        else:
            if o['kind'] == 'ret':
                out.append(({'check': 'unsupported_name_yielded_result', 'entry': entry},
                            f'{desc} but a result was returned: {str(o["value"])[:120]}'))
            elif o['exc'] != 'UnsupportedHash':
                out.append((_exc_sig('unsupported_name_wrong_exception', entry, o),
                            f'{desc} but {o["exc"]}({o.get("msg", "")}) was raised instead of UnsupportedHash'))
        return what, got, out

    # a digest is due
    if is_cli:
        if o['kind'] == 'exc' and o.get('class') != 'exit':
            chk = 'internal_error' if o.get('class') == 'internal' else 'unexpected_exception'
            out.append((_exc_sig(chk, entry, o), f'{entry}: {o["exc"]} escaped for supported names {names}'))
        elif cli_exit(o) != 0:
            out.append(({'check': 'supported_name_rejected', 'entry': entry, 'got': got},
                        f'{entry}: exit={o.get("exit")!r} log={o["log"][:2]!r} for supported names {names}'))
        else:
            lines = o['stdout'].splitlines()
            if len(lines) != repeat:
                out.append(({'check': 'cli_output_line_count', 'entry': entry},
                            f'{entry}: {len(lines)} output lines for {repeat} path(s)'))
            for ln in lines:
                f = ln.split(' ')
                v = {}
                try:
                    v['__size__'] = int(f[2])
                except (IndexError, ValueError):
                    pass
                v.update(zip(f[3::2], f[4::2]))
                _check_mapping(entry, kind, names, seed, L, v, out)
        return what, got, out

    if o['kind'] == 'exc':
        if o['exc'] == 'UnsupportedHash':
            out.append(({'check': 'supported_name_rejected', 'entry': entry, 'got': got},
                        f'{entry}: UnsupportedHash for supported names {names}'))
        else:
            chk = 'internal_error' if o.get('class') == 'internal' else 'unexpected_exception'
            out.append((_exc_sig(chk, entry, o),
                        f'{entry}: {o["exc"]}({o.get("msg", "")}) for supported names {names}'))
        return what, got, out
    v = o['value']
    if entry in ('get_file_metadata', 'get_file_metadata_iter'):
        if not (isinstance(v, list) and len(v) == 6 and v[0] is True):
            out.append(({'check': 'metadata_shape', 'entry': entry},
                        f'{entry}: generator yielded {str(v)[:120]} for a regular file'))
            return what, got, out
        v = v[5]
    _check_mapping(entry, kind, names, seed, L, v, out, want_size and entry != 'get_hash_by_name')
    return what, got, out


def _judge_verify_names(entry, what, info, names, o, got):
    """verify_path on an unchanging file against an entry with the true size and, for every supported name, the
    reference digest: supported names -> (True, []); an unsupported name -> UnsupportedHash, never (True, ...)."""
    out = []
    if what == 'unsupported':
        desc = f'{entry}: entry carries name(s) {info!r} ({WHY_UNSUPPORTED["manifest"]})'
        if o['kind'] == 'ret':
            r = _norm_diff(o['value'])
            if r is None or r[0]:
                out.append(({'check': 'unsupported_name_ignored', 'entry': entry},
                            f'{desc} but verify_path returned {str(o["value"])[:120]}'))
            else:
                return 'dontcare', got, []
        elif o['exc'] != 'UnsupportedHash':
            out.append((_exc_sig('unsupported_name_wrong_exception', entry, o),
                        f'{desc} but {o["exc"]}({o.get("msg", "")}) was raised instead of UnsupportedHash'))
        return what, got, out
    if o['kind'] == 'exc':
        chk = ('supported_name_rejected' if o['exc'] == 'UnsupportedHash' else
               'internal_error' if o.get('class') == 'internal' else 'unexpected_exception')
        sig = {'check': chk, 'entry': entry, 'got': got} if chk == 'supported_name_rejected' else _exc_sig(chk, entry, o)
        out.append((sig, f'{entry}: {o["exc"]}({o.get("msg", "")}) for supported names {names}'))
    elif _norm_diff(o['value']) != (True, []):
        out.append(({'check': 'verify_digest_not_of_content', 'entry': entry},
                    f'{entry}: entry with the true size and the one-shot digests for {names} of an unchanging file: '
                    f'verify_path returned {str(o["value"])[:160]}, expected (True, [])'))
    return what, got, out


# ---------------------------------------------------------------- files that change after fstat

CHANGES = ('none', 'append1', 'append_buf', 'append_slurp', 'trunc1', 'trunc_half', 'trunc0', 'rewrite')
APPEND = {'append1': 1, 'append_buf': 65536 + 1, 'append_slurp': 1048576}
CHANGING = ('metadata_stepwise', 'verify_path_racing', 'verify_path_static', 'update_entry_static')
ENTRY_PATH = 'entry-path'       # verify_path / update_entry_for_path do not look at the entry's path


def changing_lengths(tier):
    out = [0, 1, 2, 100]
    t = tuning()
    extra = [v for v in (t['buffer'], t['slurp'])
             if v is not None and v not in (DEFAULT_BUFFER, DEFAULT_SLURP) and 3 < v <= MAX_CENTRE]
    for c in ((65536, 1048576) if tier == 'quick' else (8192, 65536, 131072, 1048576)) + tuple(extra):
        out += [c - 1, c, c + 1]
    return sorted(set(out))


def stepwise_namesets():
    avail = tuple(sorted(n for n in MANIFEST_NAMES if rm.available(n)))
    return [()] + [(n,) for n in MANIFEST_NAMES] + [avail]


def racing_namesets(seed):
    avail = tuple(sorted(n for n in MANIFEST_NAMES if rm.available(n)))
    return [(), (rot(avail, seed)[0],), avail]


def entry_sizes(L):
    return sorted({L, L + 1, L - 1, 0, 2 * L} - {-1})


def changed_content(seed, L, change):
    """Content of the file once ``change`` has been applied to pattern(seed, L); None where the change
    does not apply (nothing to cut from an empty file; n/2 coincides with another change below 4)."""
    if change == 'none':
        return pattern(seed, L)
    if change in APPEND:
        return pattern(seed, L + APPEND[change])
    if L == 0:
        return None
    if change == 'trunc1':
        return pattern(seed, L - 1)
    if change == 'trunc0':
        return b''
    if change == 'trunc_half':
        return pattern(seed, L // 2) if L >= 4 else None
    if change == 'rewrite':
        return pattern(seed, L + 4)[4:]      # every aligned word differs from the one it replaces
    raise ValueError(change)


def apply_change(path, pre, post, change):
    """In place: the inode the open descriptor refers to is the one that changes."""
    if change == 'none':
        return
    if change in APPEND:
        with open(path, 'ab') as f:
            f.write(post[len(pre):])
    elif change.startswith('trunc'):
        os.truncate(path, len(post))
    else:
        with open(path, 'r+b') as f:
            f.write(post)


_REFC = {}


def refdigest_changed(name, seed, L, change, post):
    if change != 'rewrite':
        return refdigest('manifest', name, seed, len(post))     # still a prefix of the pattern
    key = (name, seed, L)
    r = _REFC.get(key)
    if r is None:
        r = _REFC[key] = rm.hexdigest(name, post)
    return r


def _stepwise(path, names, between):
    """-> (the first five yields, everything yielded after ``between()``)"""
    g = gverify.get_file_metadata(path, list(names))
    try:
        head = []
        for _ in range(5):
            try:
                head.append(next(g))
            except StopIteration:
                return head, None
        between()
        return head, list(g)
    finally:
        g.close()


class _ChangeAfterMtime:
    """Seam on the module attribute gemato.verify.get_file_metadata: forwards the real generator
    unchanged and runs ``between()`` when the consumer asks for the item after the fifth."""

    def __init__(self, between):
        self.between = between
        self.fired = 0

    def __enter__(self):
        self.orig = orig = gverify.get_file_metadata

        def wrapped(path, hashes):
            g = orig(path, hashes)

            def forward():
                try:
                    for i, v in enumerate(g):
                        yield v
                        if i == 4:
                            self.fired += 1
                            self.between()
                finally:
                    g.close()
            return forward()
        gverify.get_file_metadata = wrapped
        return self

    def __exit__(self, *a):
        gverify.get_file_metadata = self.orig
        return False


def _entry(size, checksums):
    return gman.new_manifest_entry('DATA', ENTRY_PATH, size, dict(checksums))


def exec_changing(entry, path, names, between, esize=None, pre_sums=None, hashes=None):
    """-> (observation, extra)"""
    if entry == 'metadata_stepwise':
        return gem.call(_stepwise, path, names, between), None
    if entry == 'verify_path_racing':
        with _ChangeAfterMtime(between) as seam:
            o = gem.call(gverify.verify_path, path, _entry(esize, pre_sums))
        return o, seam.fired
    if entry == 'verify_path_static':
        return gem.call(gverify.verify_path, path, _entry(esize, {})), None
    if entry == 'update_entry_static':
        e = _entry(esize, {})
        o = gem.call(gverify.update_entry_for_path, path, e, hashes=hashes)
        return o, (e.size, e.checksums)
    raise ValueError(entry)


def _norm_diff(v):
    """(ok, diff) of verify_path -> (ok, sorted list of tuples) or None if it is not of that shape"""
    try:
        ok, diff = v
        return bool(ok), sorted(tuple(d) for d in diff)
    except (TypeError, ValueError):
        return None


def judge_changing(entry, names, seed, L, change, post, o, extra, esize=None, pre_sums=None):
    """-> (verdict label, outcome label, [(sig, message), ...]); names are Manifest names"""
    what, _info = expectation('manifest', names)
    if what != 'digest' or o['kind'] == 'exc':
        return judge(entry, 'manifest', names, seed, L, o)
    out = []
    v = o['value']
    n = len(post)
    if entry == 'metadata_stepwise':
        head, tail = v
        if not (len(head) == 5 and head[0] is True and isinstance(tail, list) and len(tail) == 1):
            out.append(({'check': 'metadata_shape', 'entry': entry},
                        f'{entry}: generator yielded {str(head)[:100]} then {str(tail)[:100]} for a regular file'))
            return what, 'ret', out
        m = tail[0]
        if not isinstance(m, dict):
            out.append(({'check': 'result_not_mapping', 'entry': entry},
                        f'{entry}: checksum item is {type(m).__name__}, not a mapping'))
            return what, 'ret', out
        sz = m.get('__size__')
        if type(sz) is not int or sz != n:
            out.append(({'check': 'size_mismatch', 'entry': entry, 'change': change},
                        f'{entry}: __size__ = {sz!r} but the content read is {n} bytes (the file was {L} bytes '
                        f'at fstat time, st_size yielded {head[3]!r}, then: {change})'))
        for name in names:
            ref = refdigest_changed(name, seed, L, change, post)
            if m.get(name) != ref:
                out.append(({'check': 'digest_mismatch', 'entry': entry, 'name': name, 'change': change},
                            f'{entry}: {name} digest {m.get(name)!r} != one-shot digest {ref!r} of the {n}-byte '
                            f'content the file has when it is read ({L} bytes at fstat time, then: {change})'))
        return what, 'ret', out
    if entry in ('verify_path_racing', 'verify_path_static'):
        want = [('__size__', esize, n)] if n != esize else []
        for name in sorted(names):
            ref = refdigest_changed(name, seed, L, change, post)
            if pre_sums[name] != ref:
                want.append((name, pre_sums[name], ref))
        want = (not want, sorted(want))
        got = _norm_diff(v)
        if got != want:
            def size_part(r):
                return [d for d in r[1] if d[0] == '__size__']
            same_size_part = got is not None and got[0] == want[0] and size_part(got) == size_part(want)
            chk = 'verify_digest_not_of_content' if same_size_part else 'verify_size_not_of_content'
            out.append(({'check': chk, 'entry': entry, 'change': change},
                        f'{entry}: entry size {esize} checksums {sorted(pre_sums)}; the file is {n} bytes when '
                        f'read ({L} at fstat time, then: {change}); verify_path returned {str(v)[:160]}, '
                        f'expected {str(want)[:160]}'))
        return what, 'ret', out
    if entry == 'update_entry_static':
        size, sums = extra
        want = (n != esize, n, {})
        got = (v, size, sums)
        if got != want or type(size) is not int:
            out.append(({'check': 'update_size_not_of_content', 'entry': entry},
                        f'{entry}: entry without checksums, size {esize}, file of {n} bytes: returned {v!r}, '
                        f'entry now size={size!r} checksums={sums!r}; expected {want!r}'))
        return what, 'ret', out
    raise ValueError(entry)


def applicable(L, change):
    return not (L == 0 and change not in APPEND and change != 'none') and not (change == 'trunc_half' and L < 4)


def changing_case(entry, seed, L, change, names, esize=None, hashes=None):
    c = {'entry': entry, 'seed': seed, 'L': L, 'kind': 'manifest', 'names': list(names), 'change': change}
    if entry.endswith('_static'):
        c['esize'] = esize
    if entry == 'update_entry_static':
        c['hashes'] = hashes
    return c


def run_changing_case(case, path):
    """Create the file, run the case -> (observation, content at read time, verdict, outcome, violations)"""
    entry, seed, L, change = case['entry'], case['seed'], case['L'], case['change']
    names = tuple(case['names'])
    pre = pattern(seed, L)
    post = changed_content(seed, L, change)
    if post is None:
        return None
    with open(path, 'wb') as f:
        f.write(pre)
    esize = L if entry == 'verify_path_racing' else case.get('esize')
    pre_sums = {}
    if entry == 'verify_path_racing':
        pre_sums = {n: refdigest('manifest', n, seed, L) for n in names}
    o, extra = exec_changing(entry, path, names, lambda: apply_change(path, pre, post, change),
                             esize, pre_sums, case.get('hashes'))
    what, got, viols = judge_changing(entry, names, seed, L, change, post, o, extra, esize, pre_sums)
    return o, extra, post, what, got, viols


# ---------------------------------------------------------------- kinds of iterable: one case

def iter_case(entry, seed, L, kind, names, container, sizepos, hint=None, sched=None):
    c = {'entry': entry, 'seed': seed, 'L': L, 'kind': kind, 'names': list(names), 'container': container,
         'sizepos': sizepos}
    if entry == 'hash_file_iter':
        c['hint'] = hint
        c['sched'] = [sched[0], sched[1], list(sched[2])]
        c['peek'] = 0
    return c


def run_iter_case(case, path):
    """``path`` holds pattern(seed, L) already (hash_path_iter / get_file_metadata_iter).
    -> (observation, verdict, outcome, violations)"""
    entry, seed, L, kind = case['entry'], case['seed'], case['L'], case['kind']
    names = tuple(case['names'])
    container, sizepos = case['container'], case['sizepos']
    if entry == 'hash_file_iter':
        _label, step, cuts = case['sched']
        o = exec_iter(entry, kind, names, container, sizepos, data=pattern(seed, L), hint=case['hint'],
                      step=step, cuts=tuple(cuts))
    else:
        o = exec_iter(entry, kind, names, container, sizepos, path=path)
    want_size = sizepos != 'absent' or entry == 'get_file_metadata_iter'
    what, got, viols = judge(entry, kind, names, seed, L, o, want_size=want_size)
    how = f'names given as {container}' + ('' if entry == 'get_file_metadata_iter' else f', __size__ {sizepos}')
    # one signature per (check, entry point, container): the hash name stays in the message only
    viols = [(dict({k: v for k, v in sig.items() if k != 'name'}, container=container), f'{msg} [{how}]')
             for sig, msg in viols]
    return o, what, got, viols


# ---------------------------------------------------------------- one case

def make_case(entry, seed, L, kind, names, hint=None, sched=None, peek=0, repeat=1, build=None):
    c = {'entry': entry, 'seed': seed, 'L': L, 'kind': kind, 'names': list(names)}
    if build is not None:
        c['build'] = {'disabled': list(build[0]), 'flavour': build[1]}
    if entry in SCRIPTED:
        c['hint'] = hint
        c['sched'] = [sched[0], sched[1], list(sched[2])]
        c['peek'] = peek
    if repeat != 1:
        c['repeat'] = repeat
    return c


_REGISTRY = None        # directory shared by the workers of one run (created by setup())
REPORTS_PER_SIG = 3


def claim(sigkey):
    """Stats keeps the first 40 violations of a shard and the runner the first 160 of a run,
    whatever their signature; so that every *distinct* signature reaches the runner, at most
    REPORTS_PER_SIG witnesses per signature are reported per run (first come, first served
    through O_EXCL marker files); the rest are only counted in counters['violations_raw']."""
    if _REGISTRY is None:
        return True
    name = digest(sigkey).hex()
    for i in range(REPORTS_PER_SIG):
        try:
            os.close(os.open(os.path.join(_REGISTRY, f'{name}.{i}'), os.O_CREAT | os.O_EXCL | os.O_WRONLY))
            return True
        except FileExistsError:
            continue
    return False


class Ctx:
    """Per-shard state shared by the case runners."""

    def __init__(self, stats, seed, scratch):
        self.stats = stats
        self.seed = seed
        self.scratch = scratch
        self.max_slurp = tuning()['slurp'] or DEFAULT_SLURP      # labels of the path-observation counters only
        self.seen_sigs = set()
        self.sampled_changing = False
        self.sampled_iter = False
        self.sampled_build = False
        self.xof = frozenset(xof_names())

    def record(self, entry, L, kind, names, what, got, viols, case_fn, desc, reason=None):
        st = self.stats
        st.evaluations += 1
        st.transitions += 1
        if what == 'dontcare':
            e = expectation(kind, names)
            st.dontcare[reason or (e[1] if e[0] == 'dontcare' else DIFF_REASON)] += 1
        else:
            st.compared += 1
        st.case(desc, nontrivial=(L > 0 and what != 'dontcare'))
        if what == 'unsupported' and kind == 'hashlib' and not self.xof.isdisjoint(names):
            st.counters['xof_cases_' + entry] += 1
            if not viols:
                st.counters['xof_ok_unsupported'] += 1
        st.outcomes[f'{entry}/{what}/{got if what != "digest" or viols or got != "ret" else "ok"}'] += 1
        if viols:
            case = None
            for sig, msg in viols:
                key = json.dumps(jsonable(sig), sort_keys=True)
                if key in self.seen_sigs or (self.seen_sigs.add(key) or not claim(key)):
                    st.counters['violations_raw'] += 1
                    continue
                case = case or case_fn()
                small = self.minimise(key, case)
                if small:
                    st.violation(sig, small[0], small[1])
                else:
                    st.violation(sig, case, f'{msg} [case {describe(case)}]')

    def minimise(self, sigkey, case):
        """Witness minimisation: the same entry point and name set on the shortest content, delivered
        in one read with hint 0, if that reproduces the same signature.  -> (case, message) | None"""
        for n in (0, 1, 2, COMP_MAX + 1):
            if n >= case['L']:
                break
            c2 = dict(case, L=n)
            if 'hint' in c2:
                c2.update(hint=0, sched=['whole', 0, []], peek=0)
            self.stats.counters['witness_minimisation_runs'] += 1
            for r in replay(c2, os.path.join(self.scratch, 'minimise')):
                if json.dumps(jsonable(r['sig']), sort_keys=True) == sigkey:
                    return c2, r['message']
        return None

    def built(self, entry, L, data, path, kind, names, build, hint=None, repeat=1):
        """One case in a simulated build; scripted entry points get the content in one read."""
        if entry in SCRIPTED:
            (o, _raw), seam = under_build(build, lambda: exec_scripted(entry, data, names, hint, 0, (), 0))
        else:
            o, seam = under_build(build, lambda: exec_real(entry, path, names, repeat, data))
        what, got, viols, reason = judge_build(entry, kind, names, self.seed, L, o, build, seam, repeat)
        c = self.stats.counters
        c['build_cases'] += 1
        c['build_cases_' + entry] += 1
        if not seam['available']:
            c['build_seam_unavailable'] += 1
        else:
            c['build_refused_constructions'] += seam['fired']
            c['build_cases_seam_consulted'] += bool(seam['asked'])
            base = expectation(kind, names)[0]
            if what == 'unsupported' and base == 'digest':
                c['build_cases_unsupported_only_because_of_the_build'] += 1
                c['build_unsupported_' + entry] += 1
                if not viols:
                    c['build_ok_unsupported'] += 1
            elif what == 'digest':
                c['build_cases_digest_due'] += 1
                if not viols:
                    c['build_ok_digest'] += 1
            if reason == BUILD_REASON:
                c['build_cases_not_reached_by_the_simulation'] += 1
        self.record(entry, L, kind, names, what, got, viols,
                    lambda: make_case(entry, self.seed, L, kind, names, hint, WHOLE, 0, repeat, build),
                    (entry, L, kind, names, hint, repeat, build), reason)
        st = self.stats
        if not self.sampled_build and what == 'unsupported' and L and entry == 'hash_bytes':
            self.sampled_build = True
            st.sample({'entry': entry, 'length': L, 'names': list(names), 'simulated_build_disables': list(build[0]),
                       'constructor_raises': build[1], 'verdict': what, 'got': got, 'violations': len(viols)})

    def scripted(self, entry, L, data, kind, names, hint, sched, peek=0):
        label, step, cuts = sched
        o, raw = exec_scripted(entry, data, names, hint, step, cuts, peek)
        what, got, viols = judge(entry, kind, names, self.seed, L, o)
        st = self.stats
        if what == 'digest' and not viols:
            c = st.counters
            if raw.chunks > 1:
                c['ok_multi_chunk_reads'] += 1
            c[f'ok_largest_read_request_{raw.max_req}'] += 1
            if entry != 'cli_stdin' and hint == L and L > 0:
                c['ok_true_hint_below_slurp_limit' if L < self.max_slurp
                  else 'ok_true_hint_at_or_above_slurp_limit'] += 1
        self.record(entry, L, kind, names, what, got, viols,
                    lambda: make_case(entry, self.seed, L, kind, names, hint, sched, peek),
                    (entry, L, kind, names, hint, step, cuts, peek))
        if len(st.samples) < 2 and raw.chunks > 2 and L > 4 and label != 'whole' and what == 'digest':
            st.sample({'entry': entry, 'length': L, 'names': list(names), 'hint': hint,
                       'schedule': label, 'step': step, 'cuts': list(cuts[:12]), 'peek': peek,
                       'reads_returning_data': raw.chunks, 'verdict': what, 'got': got})

    def real(self, entry, L, data, path, kind, names, repeat=1):
        o = exec_real(entry, path, names, repeat, data)
        what, got, viols = judge(entry, kind, names, self.seed, L, o, repeat)
        self.record(entry, L, kind, names, what, got, viols,
                    lambda: make_case(entry, self.seed, L, kind, names, repeat=repeat),
                    (entry, L, kind, names, repeat))
        st = self.stats
        if len(st.samples) < 1 and what == 'unsupported':
            st.sample({'entry': entry, 'length': L, 'names': list(names), 'verdict': what, 'got': got})
        return o

    def iter(self, entry, L, path, kind, names, container, sizepos, hint=None, sched=None):
        case = iter_case(entry, self.seed, L, kind, names, container, sizepos, hint, sched)
        o, what, got, viols = run_iter_case(case, path)
        c = self.stats.counters
        c['iter_cases_' + container] += 1
        c['iter_cases_' + entry] += 1
        if what == 'digest' and not viols:
            c['iter_ok_digest_' + container] += 1
        elif what == 'unsupported' and not viols:
            c['iter_ok_unsupported'] += 1
        if o['kind'] == 'ret' and o['value'][1]:
            c['iter_results_with_unrequested_keys'] += 1
        self.record(entry, L, kind, names, what, got, viols, lambda: case,
                    (entry, L, kind, names, container, sizepos, hint, tuple(case.get('sched', ())[:2])))
        if container == 'genexpr' and entry == 'hash_file_iter' and L == 100 and len(names) > 2 and not self.sampled_iter \
                and what == 'digest' and sizepos == 'last':
            self.sampled_iter = True
            self.stats.sample({'entry': entry, 'length': L, 'names': list(names), 'container': container,
                               'size_position': sizepos, 'hint': hint, 'verdict': what, 'got': got,
                               'violations': len(viols)})

    def changing(self, entry, L, change, names, path, esize=None, hashes=None):
        case = changing_case(entry, self.seed, L, change, names, esize, hashes)
        o, extra, post, what, got, viols = run_changing_case(case, path)
        st = self.stats
        c = st.counters
        c['changing_cases_' + entry] += 1
        n = len(post)
        if entry == 'metadata_stepwise' and o['kind'] == 'ret':
            head = o['value'][0]
            if len(head) == 5 and head[3] == L and n != L:
                # the size get_file_metadata has seen (and passes on as the hint) is stale
                path_kind = 'slurp' if 0 < L < self.max_slurp else 'chunked'
                c[f'stepwise_stale_hint_too_{"small" if n > L else "large"}_{path_kind}_path'] += 1
                if not names:
                    c['stepwise_stale_hint_no_checksums'] += 1
                if (L < self.max_slurp) != (n < self.max_slurp):
                    c['stepwise_length_moved_across_slurp_limit'] += 1
            if len(head) == 5 and head[3] == L and change == 'rewrite':
                c['stepwise_same_length_other_content'] += 1
        elif entry == 'verify_path_racing':
            c['racing_change_applied_between_mtime_and_checksums'] += extra
            if n != L and not viols:
                c['racing_ok_size_difference_reported'] += 1
        elif entry.endswith('_static') and not viols:
            c['static_ok_size_differs' if esize != L else 'static_ok_size_equal'] += 1
        self.record(entry, L, 'manifest', names, what, got, viols, lambda: case,
                    (entry, L, names, change, esize, repr(hashes)))
        if entry == 'metadata_stepwise' and change == 'append_buf' and L == 100 and len(names) == 1 \
                and what == 'digest' and not self.sampled_changing:
            self.sampled_changing = True
            st.sample({'entry': entry, 'length_at_fstat': L, 'change': change, 'length_when_read': n,
                       'names': list(names), 'verdict': what, 'got': got, 'violations': len(viols)})


def describe(case):
    s = f'{case["entry"]} n={case["L"]} names={case["names"]}'
    if 'build' in case:
        s += f' simulated_build_disables={case["build"]["disabled"]} constructor_raises={case["build"]["flavour"]}'
    if 'change' in case:
        s += f' change={case["change"]}'
        if 'esize' in case:
            s += f' entry_size={case["esize"]}'
        if 'hashes' in case:
            s += f' hashes={case["hashes"]!r}'
    if 'container' in case:
        s += f' container={case["container"]} size_position={case["sizepos"]}'
    if 'hint' in case:
        sc = case['sched']
        s += f' hint={case["hint"]} schedule={sc[0]} step={sc[1]} cuts={sc[2][:8]} peek={case.get("peek", 0)}'
    return s


def file_name(seed):
    return rot(['data.bin', 'a', 'blob.x', 'q'], seed)[0]


def replay(case, scratch):
    entry, seed, L, kind = case['entry'], case['seed'], case['L'], case['kind']
    names = tuple(case['names'])
    data = pattern(seed, L)
    repeat = case.get('repeat', 1)
    if entry in CHANGING:
        root = fresh_root(scratch)
        r = run_changing_case(case, os.path.join(root, file_name(seed)))
        return [{'sig': sig, 'case': case, 'message': f'{msg} [case {describe(case)}]'}
                for sig, msg in (r[5] if r else [])]
    if entry in ITER_ENTRIES:
        root = fresh_root(scratch)
        path = os.path.join(root, file_name(seed))
        if entry != 'hash_file_iter':
            with open(path, 'wb') as f:
                f.write(data)
        _o, _what, _got, viols = run_iter_case(case, path)
        return [{'sig': sig, 'case': case, 'message': f'{msg} [case {describe(case)}]'} for sig, msg in viols]
    build = (tuple(case['build']['disabled']), case['build']['flavour']) if case.get('build') else None
    if entry in SCRIPTED:
        label, step, cuts = case['sched']
        (o, _raw), seam = under_build(build, lambda: exec_scripted(entry, data, names, case['hint'], step, tuple(cuts),
                                                                  case.get('peek', 0)))
    else:
        root = fresh_root(scratch)
        path = os.path.join(root, file_name(seed))
        with open(path, 'wb') as f:
            f.write(data)
        o, seam = under_build(build, lambda: exec_real(entry, path, names, repeat, data))
    if build is not None:
        _what, _got, viols, _reason = judge_build(entry, kind, names, seed, L, o, build, seam, repeat)
    else:
        _what, _got, viols = judge(entry, kind, names, seed, L, o, repeat)
    return [{'sig': sig, 'case': case, 'message': f'{msg} [case {describe(case)}]'} for sig, msg in viols]


# ---------------------------------------------------------------- shards

def _entry_for(kind):
    return 'hash_file_mapped' if kind == 'manifest' else 'hash_file'


def _cli_sets(sets, with_singles):
    return [s for s in sets if s[0] == 'manifest' and (s[2] or with_singles)]


def run_small(spec, tier, seed, ctx):
    _t, lengths, kindfilter = spec
    sets = rot(namesets(), seed)
    for L in lengths:
        data = pattern(seed, L)
        scheds = small_schedules(L)
        hints = hints_for(L)
        primary = kindfilter in (None, 'manifest')
        if primary:
            ctx.stats.counters['lengths_scripted'] += 1
            if L <= COMP_MAX:
                ctx.stats.counters[f'compositions_n{L}'] += len(scheds)
        for sched in scheds:
            for kind, names, group in sets:
                if kindfilter and kind != kindfilter:
                    continue
                entry = _entry_for(kind)
                for hint in hints:
                    ctx.scripted(entry, L, data, kind, names, hint, sched)
                    if group:
                        ctx.scripted(entry, L, data, kind, names, hint, sched, peek=1)
            if primary:
                singles = sched[0] in ('whole', 'step1') or (L <= COMP_MAX and len(sched[2]) in (0, L - 1))
                for kind, names, _g in _cli_sets(sets, singles):
                    ctx.scripted('cli_stdin', L, data, kind, names, 0, sched)


def run_large(spec, tier, seed, ctx):
    _t, L, hi = spec
    sets = rot(namesets(), seed)
    data = pattern(seed, L)
    hint = hints_for(L)[hi]
    treatment, centre = windows(tier)[L]
    if treatment == 'light':
        red = {n for _k, n, _g in reduced_namesets()}
        sets = [x for x in sets if x[2] or x[1] in red]
        light = fallback_schedules(L, centre)
        single = set(light)
        with_peek = False
        ctx.stats.counters['lengths_light_treatment'] += hi == 0
    else:
        light = light_schedules(L, tier)
        single = set(single_schedules(L, tier))
        with_peek = tier != 'quick' or hint in (0, L)
    if hi == 0:
        ctx.stats.counters['lengths_scripted'] += 1
        ctx.stats.counters['short_read_positions'] += sum(1 for s in light if s[0].startswith('short@'))
    for sched in light:
        for kind, names, group in sets:
            if not group and sched not in single:
                continue
            entry = _entry_for(kind)
            ctx.scripted(entry, L, data, kind, names, hint, sched)
            if group and with_peek:
                ctx.scripted(entry, L, data, kind, names, hint, sched, peek=1)
        if hi == 0:
            for kind, names, _g in _cli_sets(sets, sched in single):
                ctx.scripted('cli_stdin', L, data, kind, names, 0, sched)


def run_heavy(spec, tier, seed, ctx):
    """1/2/3/7-byte schedules on the threshold-sized contents.

    mode 'full': every group name set (+ cli_stdin); 'both': one hash per kind (+ cli_stdin);
    'one': a single hashlib name.  The reduced modes exist only in the quick tier at >= 1 MiB."""
    _t, L, k, his, mode = spec
    data = pattern(seed, L)
    if mode == 'full':
        sets = [s for s in rot(namesets(), seed) if s[2]]
    else:
        sets = reduced_namesets() if mode == 'both' else reduced_namesets()[1:]
        ctx.stats.counters['heavy_schedule_shards_with_reduced_name_sets'] += 1
    hints = hints_for(L)
    sched = (f'step{k}', k, ())
    for hi in his:
        for kind, names, _g in sets:
            ctx.scripted(_entry_for(kind), L, data, kind, names, hints[hi], sched)
        if hi == 0 and mode != 'one':
            for kind, names, _g in sets:
                if kind == 'manifest':
                    ctx.scripted('cli_stdin', L, data, kind, names, 0, sched)


def _real_cases(ctx, L, data, path, sets, coreutils=None):
    for kind, names, group in sets:
        if kind == 'manifest':
            o = ctx.real('hash_path_mapped', L, data, path, kind, names)
            ctx.real('get_file_metadata', L, data, path, kind, names)
            ctx.real('cli_hash', L, data, path, kind, names)
            if group:
                ctx.real('cli_hash', L, data, path, kind, names, repeat=2)
            if coreutils and len(names) == 1 and names[0] in coreutils:
                if o['kind'] == 'ret' and o['value'].get(names[0]) == coreutils[names[0]]:
                    ctx.stats.counters['gemato_equals_coreutils'] += 1
        else:
            ctx.real('hash_path', L, data, path, kind, names)
            if len(names) == 1:
                ctx.real('hash_bytes', L, data, path, kind, names)


def run_real(spec, tier, seed, ctx):
    _t, lengths = spec
    sets = rot(namesets(), seed)
    root = fresh_root(ctx.scratch)
    path = os.path.join(root, file_name(seed))
    for L in lengths:
        data = pattern(seed, L)
        with open(path, 'wb') as f:
            f.write(data)
        ctx.stats.counters['lengths_real_files'] += 1
        _real_cases(ctx, L, data, path, sets)


def coreutils_digests(path):
    out = {}
    for name, tool in COREUTILS:
        r = subprocess.run([tool, path], stdout=subprocess.PIPE, stderr=subprocess.PIPE, check=True)
        out[name] = r.stdout.split()[0].decode('ascii').lstrip('\\')
    return out


def run_real_large(spec, tier, seed, ctx):
    _t, L = spec
    sets = rot(namesets(), seed)
    root = fresh_root(ctx.scratch)
    path = os.path.join(root, file_name(seed))
    data = pattern(seed, L)
    with open(path, 'wb') as f:
        f.write(data)
    cu = coreutils_digests(path)
    for name, dig in cu.items():
        ref = refdigest('manifest', name, seed, L)
        if ref != dig:
            raise RuntimeError(f'trusted base broken: coreutils {name} of the {L}-byte content is {dig}, '
                               f'hashlib says {ref}')
        ctx.stats.counters['coreutils_crosschecks'] += 1
    ctx.stats.counters['lengths_real_files'] += 1
    _real_cases(ctx, L, data, path, sets, cu)
    os.unlink(path)


def run_changing(spec, tier, seed, ctx):
    """One (length, change): the step-by-step generator and the racing verify_path under every name set;
    for the unchanging file also the entries without checksums."""
    _t, L, change = spec
    root = fresh_root(ctx.scratch)
    path = os.path.join(root, file_name(seed))
    sets = rot(stepwise_namesets(), seed)
    for names in sets:
        ctx.changing('metadata_stepwise', L, change, names, path)
    for names in sets:
        if expectation('manifest', names)[0] == 'digest':      # the entry carries the digests of the old content
            ctx.changing('verify_path_racing', L, change, names, path)
    if change == 'none':
        for esize in entry_sizes(L):
            ctx.changing('verify_path_static', L, change, (), path, esize=esize)
            for hashes in (None, []):
                ctx.changing('update_entry_static', L, change, (), path, esize=esize, hashes=hashes)
    os.unlink(path)


WHOLE = ('whole', 0, ())


def run_iter(spec, tier, seed, ctx):
    """One container kind over some lengths: every name set x __size__ position x hint x schedule."""
    _t, lengths, container = spec
    root = fresh_root(ctx.scratch)
    path = os.path.join(root, file_name(seed))
    for L in lengths:
        with open(path, 'wb') as f:
            f.write(pattern(seed, L))
        combos, poss = iter_combos(L, tier)
        for kind, names, _group in rot(iter_namesets(L, tier), seed):
            if container == 'mapped_gen' and kind != 'manifest':
                continue
            for sizepos, hint, sched in combos:
                ctx.iter('hash_file_iter', L, path, kind, names, container, sizepos, hint, sched)
            for sizepos in poss:
                ctx.iter('hash_path_iter', L, path, kind, names, container, sizepos)
            if kind == 'manifest' and container != 'mapped_gen':
                ctx.iter('get_file_metadata_iter', L, path, kind, names, container, 'absent')
    os.unlink(path)


def iter_expected(tier):
    """Number of cases run_iter must have run, per container."""
    out = {c: 0 for c in CONTAINERS}
    for L in iter_lengths(tier):
        combos, poss = iter_combos(L, tier)
        for kind, _names, _g in iter_namesets(L, tier):
            for c in CONTAINERS:
                if c == 'mapped_gen' and kind != 'manifest':
                    continue
                out[c] += len(combos) + len(poss) + (kind == 'manifest' and c != 'mapped_gen')
    return out


def spelling_candidates(kind):
    names = list(spellings())
    if kind == 'manifest':
        names.append('__size__')
    return names


def run_spelling(spec, tier, seed, ctx):
    """One slice of the spelling alphabet at one length through every entry point of the kind."""
    _t, kind, L, chunk = spec
    data = pattern(seed, L)
    root = fresh_root(ctx.scratch)
    path = os.path.join(root, file_name(seed))
    with open(path, 'wb') as f:
        f.write(data)
    partner = PARTNER[kind]
    classes = spellings()
    c = ctx.stats.counters
    hints = sorted({0, L})
    for x in rot(spelling_candidates(kind)[chunk::SPELLING_CHUNKS], seed):
        verdict = expectation(kind, (x,))[0]
        before = ctx.stats.evaluations
        alone, first, last = (x,), (x, partner), (partner, x)
        if kind == 'hashlib':
            ctx.real('get_hash_by_name', L, data, path, kind, alone)
            ctx.real('hash_bytes', L, data, path, kind, alone)
            ctx.real('hash_path', L, data, path, kind, alone)
            for hint in hints:
                ctx.scripted('hash_file', L, data, kind, alone, hint, WHOLE)
            for names in (first, last):
                ctx.scripted('hash_file', L, data, kind, names, 0, WHOLE)
        else:
            for hint in hints:
                ctx.scripted('hash_file_mapped', L, data, kind, alone, hint, WHOLE)
            for names in (first, last):
                ctx.scripted('hash_file_mapped', L, data, kind, names, 0, WHOLE)
            ctx.real('hash_path_mapped', L, data, path, kind, alone)
            for names in (alone, first, last):
                ctx.real('get_file_metadata', L, data, path, kind, names)
            ctx.real('verify_path_names', L, data, path, kind, alone)
            if cli_representable(x):
                ctx.real('cli_hash', L, data, path, kind, alone)
                ctx.real('cli_hash', L, data, path, kind, last)
                ctx.scripted('cli_stdin', L, data, kind, alone, 0, WHOLE)
            else:
                c['spelling_names_not_representable_on_the_command_line'] += 1
        c['spelling_names_' + kind] += 1
        c[f'spelling_names_{classes.get(x, "special")}'] += 1
        c[f'spelling_names_verdict_{verdict}'] += 1
        c['spelling_cases'] += ctx.stats.evaluations - before
    os.unlink(path)


def build_chunks(tier):
    return 4 if tier == 'quick' else 16


BUILD_HASHLIB_ENTRIES = ('get_hash_by_name', 'hash_bytes', 'hash_path', 'hash_file')
BUILD_MANIFEST_ENTRIES = ('hash_file_mapped', 'hash_path_mapped', 'get_file_metadata', 'verify_path_names', 'cli_hash',
                          'cli_stdin')


def build_cases(build, L):
    """-> list of (entry, kind, names, hint, repeat) run in one simulated build at one length."""
    disabled = build[0]
    acc, fixed = hashlib_accepted()
    hints = sorted({0, L})
    out = []
    for x in acc:
        out += [(e, 'hashlib', (x,), None, 1) for e in ('get_hash_by_name', 'hash_bytes', 'hash_path')]
        out += [('hash_file', 'hashlib', (x,), h, 1) for h in hints]
    partner = build_partner('hashlib', disabled)
    for d in disabled:
        for names in ((d, partner), (partner, d)) if partner else ():
            out += [('hash_file', 'hashlib', names, 0, 1), ('hash_path', 'hashlib', names, None, 1)]
    rest = tuple(n for n in fixed if not is_disabled('hashlib', n, disabled))
    for names in (fixed, rest):
        out += [('hash_file', 'hashlib', names, 0, 1), ('hash_path', 'hashlib', names, None, 1)]
    for m in MANIFEST_NAMES:
        out += [('hash_file_mapped', 'manifest', (m,), h, 1) for h in hints]
        out += [(e, 'manifest', (m,), 0 if e == 'cli_stdin' else None, 1) for e in BUILD_MANIFEST_ENTRIES[1:]]
    mpartner = build_partner('manifest', disabled)
    for m in MANIFEST_NAMES:
        if mpartner and rm.available(m) and is_disabled('manifest', m, disabled):
            for names in ((m, mpartner), (mpartner, m)):
                out += [('hash_file_mapped', 'manifest', names, 0, 1), ('get_file_metadata', 'manifest', names, None, 1),
                        ('cli_hash', 'manifest', names, None, 1)]
    avail = tuple(sorted(n for n in MANIFEST_NAMES if rm.available(n)))
    out += [('hash_file_mapped', 'manifest', avail, 0, 1), ('get_file_metadata', 'manifest', avail, None, 1),
            ('cli_hash', 'manifest', avail, None, 2)]
    return out


def run_build(spec, tier, seed, ctx):
    """Some simulated builds at one length through every entry point."""
    _t, L, chunk = spec
    data = pattern(seed, L)
    root = fresh_root(ctx.scratch)
    path = os.path.join(root, file_name(seed))
    with open(path, 'wb') as f:
        f.write(data)
    for build in rot(builds(tier)[chunk::build_chunks(tier)], seed):
        ctx.stats.counters['builds_run'] += 1
        for entry, kind, names, hint, repeat in build_cases(build, L):
            ctx.built(entry, L, data, path, kind, names, build, hint, repeat)
    os.unlink(path)


RUNNERS = {'C': run_changing, 'S': run_small, 'L': run_large, 'K': run_heavy, 'R': run_real, 'RL': run_real_large,
           'I': run_iter, 'N': run_spelling, 'B': run_build}


def _cost(spec):
    t = spec[0]
    if t == 'K':
        return spec[1] / spec[2] * len(spec[3]) * {'full': 8, 'both': 3, 'one': 1.5}[spec[4]]
    if t == 'L':
        return spec[1] * 30
    if t == 'C':
        return (2 * spec[1] + APPEND.get(spec[2], 0)) * 40 + 200000
    if t == 'RL':
        return spec[1] * 8
    if t == 'I':
        return sum(400000 + 12 * L for L in spec[1]) * (1 if spec[2] == 'mapped_gen' else 2)
    if t == 'N':
        return 400000 + 400 * spec[2]
    if t == 'B':
        return 300000 + 300 * spec[1]
    if t == 'S':
        return sum((1 << max(L - 1, 0)) * 40 if L <= COMP_MAX else 2500 + 25 * L for L in spec[1]) * 60
    return sum(3000 + L for L in spec[1]) * 60


def shards(tier, seed):
    out = [('S', tuple(range(0, 8)), None), ('S', (8,), None)]
    for L in (9, 10):
        out += [('S', (L,), 'manifest'), ('S', (L,), 'hashlib')]
    n = 24
    out += [('S', tuple(range(COMP_MAX + 1 + i, SMALL_MAX + 1, n)), None) for i in range(n)]
    out += [('R', tuple(range(i, SMALL_MAX + 1, 8))) for i in range(8)]
    for L in large_lengths(tier):
        nh = len(hints_for(L))
        out += [('L', L, hi) for hi in range(nh)]
        out.append(('RL', L))
        allh = tuple(range(nh))
        if windows(tier)[L][0] == 'light':
            continue
        if L < HEAVY_FULL_MAX:
            out += [('K', L, k, allh, 'full') for k in STEPS_HEAVY]
        elif tier == 'quick':
            # 1 MiB in 1-byte reads costs ~1 s per execution: one hashlib name under every hint for k=1,
            # hints {0, n} for k=2,3, one name per kind (+ cli_stdin) under every hint for k=7
            true_hint = hints_for(L).index(L)
            out += [('K', L, 1, (hi,), 'one') for hi in allh]
            out += [('K', L, 2, (0, true_hint), 'one'), ('K', L, 3, (0, true_hint), 'one'),
                    ('K', L, 7, allh, 'both')]
        else:
            out += [('K', L, k, (hi,), 'full') for k in (1, 2) for hi in allh]
            out += [('K', L, k, allh, 'full') for k in (3, 7)]
    out += [('C', L, ch) for L in changing_lengths(tier) for ch in CHANGES if applicable(L, ch)]
    il = iter_lengths(tier)
    for cont in CONTAINERS:
        out.append(('I', tuple(L for L in il if L <= SMALL_MAX), cont))
        out += [('I', (L,), cont) for L in il if L > SMALL_MAX]
    out += [('N', kind, L, i) for kind in ('hashlib', 'manifest') for L in spelling_lengths(tier)
            for i in range(SPELLING_CHUNKS)]
    out += [('B', L, i) for L in build_lengths(tier) for i in range(build_chunks(tier))]
    out.sort(key=_cost, reverse=True)
    return out


def setup(tier, seed, base):
    global _REGISTRY
    _PATTERN_MIN[0] = (max_length(tier) + 67) // 4 * 4
    pattern(seed, 1 << 21)           # built once in the parent, inherited by the forked workers
    spellings()
    hashlib_accepted()
    for n in hashlib_accepted()[0] + MANIFEST_NAMES:
        probe('manifest' if n in MANIFEST_NAMES else 'hashlib', n)
    _REGISTRY = os.path.join(base, 'c17-reported-signatures')
    os.makedirs(_REGISTRY, exist_ok=True)


def run_shard(spec, tier, seed, scratch):
    stats = Stats()
    ctx = Ctx(stats, seed, scratch)
    RUNNERS[spec[0]](spec, tier, seed, ctx)
    stats.counters['shards_' + spec[0]] += 1
    return stats


# ---------------------------------------------------------------- self checks

def finish(total, tier):
    errs = []
    c = total.counters
    t = tuning()
    strict = tuning_is_default()
    soft = []            # self-checks that presuppose where gemato switches between its reading strategies
    if not strict:
        add, beyond = hinted_centres()
        total.notes.append(
            f'gemato.hash tuning constants are not at their usual values (MAX_SLURP_SIZE={t["slurp"]!r}, '
            f'HASH_BUFFER_SIZE={t["buffer"]!r}; None = absent): default windows kept, windows added around {add}'
            + (f', values {beyond} are beyond the {MAX_CENTRE}-byte bound and not explored' if beyond else '')
            + ('; power-of-two fallback windows in use' if None in t.values() else '')
            + '; path-observation self-checks downgraded to notes')
    buf = t['buffer'] or DEFAULT_BUFFER
    n_lengths = SMALL_MAX + 1 + len(large_lengths(tier))
    if c['lengths_scripted'] != n_lengths:
        errs.append(f'vacuity: {c["lengths_scripted"]} lengths went through the scripted reader, expected {n_lengths}')
    if c['lengths_real_files'] != n_lengths:
        errs.append(f'vacuity: {c["lengths_real_files"]} lengths went through real files, expected {n_lengths}')
    for L in range(0, COMP_MAX + 1):
        want = 1 << max(L - 1, 0)
        if c[f'compositions_n{L}'] != want:
            errs.append(f'vacuity: {c[f"compositions_n{L}"]} compositions of {L} enumerated, expected {want}')
    for key, why in (('ok_true_hint_below_slurp_limit', 'no correct digest with a true size hint below MAX_SLURP_SIZE (slurp path)'),
                     ('ok_true_hint_at_or_above_slurp_limit', 'no correct digest with a true size hint >= MAX_SLURP_SIZE (chunked path)'),
                     ('ok_multi_chunk_reads', 'no correct digest under a schedule that delivered the content in more than one read'),
                     (f'ok_largest_read_request_{buf}', 'the raw stream never saw a HASH_BUFFER_SIZE read request (chunked path not observed)'),
                     (f'ok_largest_read_request_{io.DEFAULT_BUFFER_SIZE}', 'the raw stream never saw only DEFAULT_BUFFER_SIZE requests (slurp path not observed)'),
                     ('short_read_positions', 'no single-short-read schedule around the thresholds')):
        if not c[key]:
            if key.startswith('ok_largest'):
                # what the raw stream is asked for is gemato's reading strategy, not the property: a correct
                # implementation may read differently, so this observation is recorded, never enforced
                total.notes.append('observation: ' + why)
                continue
            path_guard = key.startswith('ok_true_hint')
            (errs if strict or not path_guard else soft).append('vacuity: ' + why)
    if c['coreutils_crosschecks'] != len(COREUTILS) * len(large_lengths(tier)):
        errs.append(f'vacuity: {c["coreutils_crosschecks"]} coreutils cross-checks, expected '
                    f'{len(COREUTILS) * len(large_lengths(tier))}')
    if c['gemato_equals_coreutils'] != c['coreutils_crosschecks']:
        # not a harness error: judge() has already reported those cases as digest_mismatch
        total.notes.append(f'gemato agreed with coreutils in {c["gemato_equals_coreutils"]} of '
                           f'{c["coreutils_crosschecks"]} cross-checked (length, algorithm) pairs')
    pairs = [(L, ch) for L in changing_lengths(tier) for ch in CHANGES if applicable(L, ch)]
    sets = stepwise_namesets()
    n_static = sum(len(entry_sizes(L)) for L in changing_lengths(tier))
    for entry, want in (('metadata_stepwise', len(pairs) * len(sets)),
                        ('verify_path_racing', len(pairs) * sum(1 for s in sets if expectation('manifest', s)[0] == 'digest')),
                        ('verify_path_static', n_static), ('update_entry_static', 2 * n_static)):
        if c['changing_cases_' + entry] != want:
            errs.append(f'vacuity: {c["changing_cases_" + entry]} {entry} cases ran, expected {want}')
    for key, why in (('stepwise_stale_hint_too_small_slurp_path', 'no file grew after an fstat that selects the slurp path'),
                     ('stepwise_stale_hint_too_large_slurp_path', 'no file shrank after an fstat that selects the slurp path'),
                     ('stepwise_stale_hint_too_small_chunked_path', 'no file grew after an fstat that selects the chunked path'),
                     ('stepwise_stale_hint_too_large_chunked_path', 'no file shrank after an fstat that selects the chunked path'),
                     ('stepwise_stale_hint_no_checksums', 'no changed file was read with an empty hash list'),
                     ('stepwise_length_moved_across_slurp_limit', 'no file moved across MAX_SLURP_SIZE after the fstat'),
                     ('stepwise_same_length_other_content', 'no file was rewritten in place with the same length'),
                     ('racing_change_applied_between_mtime_and_checksums', 'the seam around get_file_metadata never fired inside verify_path'),
                     ('racing_ok_size_difference_reported', 'verify_path never reported the size of a file that changed after the fstat'),
                     ('static_ok_size_differs', 'no entry without checksums with a size other than the file\'s was judged correct'),
                     ('static_ok_size_equal', 'no entry without checksums with the file\'s size was judged correct')):
        # the *_ok_* counters also drop to zero when gemato gets all of those cases wrong; the violations say so
        if not c[key] and not (('_ok_' in key) and c['violations_raw']):
            path_guard = '_path' in key or 'slurp_limit' in key
            (errs if strict or not path_guard else soft).append('vacuity (changing files): ' + why)
    for msg in soft:
        total.notes.append('not enforced while the tuning constants are moved/absent: ' + msg)

    # kinds of iterable
    complete = not total.capped          # a shard that drowned in violations stopped early: its counts are short
    for cont, want in iter_expected(tier).items():
        if (c['iter_cases_' + cont] != want and complete) or not want:
            errs.append(f'vacuity (kinds of iterable): {c["iter_cases_" + cont]} cases with container {cont}, expected {want}')
        if not c['iter_ok_digest_' + cont] and not c['violations_raw']:
            errs.append(f'vacuity (kinds of iterable): no correct digest with the names given as {cont}')
    for e in ITER_ENTRIES:
        if not c['iter_cases_' + e]:
            errs.append(f'vacuity (kinds of iterable): entry point {e} never ran')
    if not c['iter_ok_unsupported'] and not c['violations_raw']:
        errs.append('vacuity (kinds of iterable): no unsupported name inside a container was judged correct')
    iter_classes = {k.split('/')[1] for k in total.outcomes if k.split('/')[0] in ITER_ENTRIES}
    if len(iter_classes) < 2:
        errs.append(f'vacuity (kinds of iterable): single verdict class {sorted(iter_classes)}')

    # spellings
    n_len = len(spelling_lengths(tier))
    for kind in ('hashlib', 'manifest'):
        want = len(spelling_candidates(kind)) * n_len
        if (c['spelling_names_' + kind] != want and complete) or not want:
            errs.append(f'vacuity (spellings): {c["spelling_names_" + kind]} (name, length) pairs of kind {kind}, expected {want}')
    for cls in SPELLING_CLASSES:
        if not c['spelling_names_' + cls]:
            errs.append(f'vacuity (spellings): no name of class {cls}')
    for v in ('digest', 'unsupported'):
        if not c['spelling_names_verdict_' + v]:
            errs.append(f'vacuity (spellings): no spelling with reference verdict {v!r}')
    if c['spelling_names_verdict_unsupported'] < 20 * c['spelling_names_verdict_digest'] / 10:
        errs.append('vacuity (spellings): fewer than two unsupported spellings per supported name')
    if not c['spelling_cases']:
        errs.append('vacuity (spellings): no case ran')
    for e in ('get_hash_by_name', 'verify_path_names'):
        classes = {k.split('/')[1] for k in total.outcomes if k.split('/')[0] == e}
        if not {'digest', 'unsupported'} <= classes:
            errs.append(f'vacuity (spellings): {e} saw verdict classes {sorted(classes)} only')
    # extendable-output names: listed and constructible, yet unsupported
    xof = xof_names()
    if not xof:
        errs.append('vacuity (XOF): hashlib lists no constructible name with digest_size 0 (shake_* are guaranteed since 3.6)')
    for e in ('get_hash_by_name', 'hash_bytes', 'hash_path', 'hash_file', 'hash_file_iter', 'hash_path_iter'):
        if xof and not c['xof_cases_' + e]:
            errs.append(f'vacuity (XOF): no extendable-output name went through {e} with the verdict unsupported')
    if xof and not c['xof_ok_unsupported'] and not c['violations_raw'] and not total.violations:
        errs.append('vacuity (XOF): no extendable-output name was judged correctly rejected')

    # simulated builds
    n_builds = len(builds(tier)) * len(build_lengths(tier))
    want_cases = sum(len(build_cases(b, L)) for b in builds(tier) for L in build_lengths(tier))
    if not seam_available() or c['build_seam_unavailable']:
        errs.append('simulated builds: gemato.hash has no module attribute `hashlib` that is the hashlib module; the family '
                    f'"listed algorithm whose constructor raises" could not be driven ({c["build_seam_unavailable"]} cases skipped)')
    else:
        if (c['builds_run'] != n_builds and complete) or not n_builds:
            errs.append(f'vacuity (simulated builds): {c["builds_run"]} (build, length) pairs ran, expected {n_builds}')
        if (c['build_cases'] != want_cases and complete) or not want_cases:
            errs.append(f'vacuity (simulated builds): {c["build_cases"]} cases ran, expected {want_cases}')
        if not c['build_refused_constructions']:
            errs.append('vacuity (simulated builds): the seam never refused a construction - gemato does not construct its hash '
                        'objects through gemato.hash.hashlib, the simulated build was never in effect')
        if not c['build_cases_seam_consulted']:
            errs.append('vacuity (simulated builds): gemato never looked anything up on the simulated hashlib')
        for e in BUILD_HASHLIB_ENTRIES + BUILD_MANIFEST_ENTRIES:
            if not c['build_cases_' + e]:
                errs.append(f'vacuity (simulated builds): entry point {e} never ran in a simulated build')
            elif not c['build_unsupported_' + e]:
                errs.append(f'vacuity (simulated builds): no name disabled by the build went through {e}')
        if not c['build_cases_digest_due']:
            errs.append('vacuity (simulated builds): no case in which a digest is due although another algorithm is disabled')
        quiet = not c['violations_raw'] and not total.violations
        if not c['build_ok_unsupported'] and quiet:
            errs.append('vacuity (simulated builds): no disabled name was judged correctly rejected')
        if not c['build_ok_digest'] and quiet:
            errs.append('vacuity (simulated builds): no digest of a name that is not disabled was judged correct')
        if c['build_cases_not_reached_by_the_simulation'] * 2 > c['build_cases_unsupported_only_because_of_the_build']:
            errs.append(f'vacuity (simulated builds): {c["build_cases_not_reached_by_the_simulation"]} of '
                        f'{c["build_cases_unsupported_only_because_of_the_build"]} cases with a disabled name were not reached by the '
                        'simulation (result returned, seam never asked for the algorithm)')
    mdis = [m for m in MANIFEST_NAMES if rm.available(m) and any(is_disabled('manifest', m, b[0]) for b in builds(tier))]
    if len(mdis) != sum(1 for m in MANIFEST_NAMES if rm.available(m)):
        errs.append(f'vacuity (simulated builds): only {mdis} of the available Manifest algorithms are disabled by some build')

    kinds = {k.split('/')[1] for k in total.outcomes}
    for need in ('digest', 'unsupported'):
        if need not in kinds:
            errs.append(f'vacuity: no case with reference verdict {need!r}')
    if len(MANIFEST_NAMES) != 10:
        errs.append('reference table does not list the ten Manifest hash names')
    if not any(not rm.available(n) for n in MANIFEST_NAMES):
        total.notes.append('every Manifest hash is available in this OpenSSL; the "unavailable" class is '
                           'represented only by names outside the table')
    return errs


def extra_evidence(total, tier):
    acc, fixed = hashlib_accepted()
    sp = spellings()
    unsup = {k: [n for n in spelling_candidates(k) if expectation(k, (n,))[0] == 'unsupported']
             for k in ('hashlib', 'manifest')}
    return {
        'tuning_constants_seen': tuning(),
        'window_centres_full_treatment': full_centres(tier),
        'window_centres_light_treatment': sorted({ce for tr, ce in windows(tier).values() if tr == 'light'}),
        'iterable_kinds': list(CONTAINERS),
        'iterable_size_positions': list(SIZEPOS),
        'iterable_lengths': iter_lengths(tier),
        'iterable_cases_expected': sum(iter_expected(tier).values()),
        'spelling_alphabet_size': len(sp),
        'spelling_alphabet_by_class': {cls: sum(1 for v in sp.values() if v == cls) for cls in SPELLING_CLASSES},
        'spelling_lengths': spelling_lengths(tier),
        'spellings_unsupported_hashlib_kind': len(unsup['hashlib']),
        'spellings_unsupported_manifest_kind': len(unsup['manifest']),
        'spellings_unsupported_sample': unsup['hashlib'][:40],
        'lengths': SMALL_MAX + 1 + len(large_lengths(tier)),
        'large_lengths': large_lengths(tier),
        'name_sets': len(namesets()),
        'changing_file_lengths': changing_lengths(tier),
        'changing_file_changes': list(CHANGES),
        'changing_file_name_sets': len(stepwise_namesets()),
        'manifest_names_available': [n for n in MANIFEST_NAMES if rm.available(n)],
        'manifest_names_unavailable': [n for n in MANIFEST_NAMES if not rm.available(n)],
        'names_outside_table': list(UNKNOWN_MANIFEST),
        'hashlib_names_accepted': list(acc),
        'hashlib_names_variable_length': [n for n in acc if n not in fixed],
        'hashlib_names_supported': list(fixed),
        'simulated_builds': len(builds(tier)),
        'simulated_build_flavours': list(FLAVOURS),
        'simulated_build_lengths': build_lengths(tier),
        'simulated_build_cases_expected': sum(len(build_cases(b, L)) for b in builds(tier) for L in build_lengths(tier)),
        'simulated_build_seam': 'module attribute gemato.hash.hashlib' if seam_available() else 'UNAVAILABLE',
        'compositions_total': sum(total.counters[f'compositions_n{L}'] for L in range(COMP_MAX + 1)),
        'trusted_base': ['CPython hashlib', 'coreutils md5sum/sha1sum/sha256sum/sha512sum/b2sum',
                         'gverif/refmanifest.HASHES', 'io.BufferedReader'],
    }
