"""C02 — sub-Manifests are trusted only through an unbroken hash chain from the top.

For every chain top -> d1/Manifest -> d1/d2/Manifest ... (depth <= 3 quick / <= 5
thorough), every compression assignment, every tampered object at level j and
every level k <= j up to which the attacker recomputes all Manifests consistently
(level k-1 left untouched), every one of the five consumer APIs is queried on a
fresh loader: whatever needs the level-k Manifest must raise ManifestMismatch
naming it; whatever needs only levels < k must answer as on the untampered tree.
"""

import itertools
import os

from gverif import gem, refmanifest as rm
from gverif.common import fresh_root, rot
from gverif.evidence import Stats
from gverif.treemodel import COMPS, MSpec, Tree, mname, render_layout

PID = 'C02'
LEVEL = 'model_checking'
RULE = ('chains of depth 1..D x compression assignment x MANIFEST-entry hash set x sibling variant x '
        '(tampered object kind, level j) x recompute-up-to level k x query (5 APIs, every directory / '
        'path / DIST name on the chain); case = that tuple; non-trivial = tampered (k>=1) and the '
        'reference gives a definite demand')
ASSUMPTIONS = [
    'attacker model: rewrites data + Manifests at levels j..k consistently using the reference writer; level k-1 untouched',
    'MANIFEST entries without checksums and with unchanged size are DONT_CARE (nothing recorded to compare)',
    'fresh loader per query; loaders that ran an update before are exercised under C10',
    'depth 4-5 use the five cyclic rotations of the compression formats instead of all 5^d assignments',
    'delegation family: depth 1-2 (thorough 3), at every level L the link to the next level goes through a second Manifest '
    'in the SAME directory (Manifest.files, plain/gz; thorough every format); chain positions are then NODES and k ranges '
    'over nodes; a Manifest in directory D is needed by every query at or below D',
    'dup family: the deepest link is recorded by two MANIFEST entries in its parent (identical / disjoint hash sets), or '
    '(depth >= 2) additionally by the TOP-LEVEL Manifest (size only / other hashes), i.e. by a second parent that is '
    'loaded one round earlier; a detection may then name either stale entry',
    'thorough: pairs of independent broken links (second break = a line appended to a Manifest above the first broken '
    'one); the link nearest the top must be the one named',
    'find_timestamp() is one of the queries and the FIRST call of the forward shared-loader sequence (a harmless earlier '
    'call on the same loader must not weaken later queries)',
]

DNAMES = ['d', 'e f', 'gé', 'h', 'i']
MHASHES = [('SHA1',), ('MD5', 'SHA256'), ()]
# hash names this build cannot compute (WHIRLPOOL: not in OpenSSL 3) or does not know at all
UNSUPPORTED = ('WHIRLPOOL', 'BLAKE3')


def other_hashes(mh):
    return ('MD5',) if 'MD5' not in mh else ('SHA512',)


def build(depth, comps, mh, sib, seed, tamper=None, deleg=None, dup=None):
    """-> (Tree with Manifests, info).  tamper = (kind, j) applied to the data
    before rendering (fully consistent result).

    deleg = (L, comp): the Manifest of level L does not list the next level itself but a second Manifest in ITS OWN
    directory ('Manifest.files[.comp]') which lists it (the layout of the Gentoo repository).  The chain is then a
    list of NODES; info['mpaths'] is indexed by node, info['first'][lv] / info['last'][lv] give the first / last node
    living in the directory of level lv.  Without deleg nodes and levels coincide.
    dup = None | 'same' | 'disjoint': the link into the deepest level is recorded by TWO MANIFEST entries of its
    parent (identical lines / second one with a disjoint hash set)."""
    dn = rot(DNAMES, seed)
    dirs = ['']
    for i in range(depth):
        dirs.append((dirs[-1] + '/' if dirs[-1] else '') + dn[i])
    files = {}
    dist = {}
    for lv, d in enumerate(dirs):
        files[os.path.join(d, f'f{lv}')] = b'data%d' % lv
        dist[lv] = (f'dist{lv}.tar', 100 + lv)
    extra = None
    if sib:
        extra = os.path.join(dirs[-1], 'g')
        files[extra] = b'sibling'
    kind = j = None
    if tamper:
        kind, j = tamper
        tgt = os.path.join(dirs[j], f'f{j}')
        if kind == 'change':
            files[tgt] = b'EVIL%d' % j
        elif kind == 'change_same_size':
            files[tgt] = b'DATA%d' % j
        elif kind == 'remove':
            del files[tgt]
        elif kind == 'add':
            files[os.path.join(dirs[j], 'added')] = b'new'
        elif kind == 'dist':
            dist[j] = (dist[j][0], 999)
        elif kind == 'sib_change':
            files[extra] = b'SIBLING-EVIL'
    lpaths = [mname(dirs[lv], comps[lv - 1] if lv else None) for lv in range(depth + 1)]
    sibpath = mname(dirs[-1], None, 'Manifest.b') if sib else None
    specs = []
    nodes, first, last = [], [], []
    for lv, d in enumerate(dirs):
        items = []
        for p in sorted(files):
            if os.path.dirname(p) == d and p != extra:
                items.append(('F', 'DATA', p, ('SHA1',)))
        items.append(('E', ('DIST', dist[lv][0], dist[lv][1], (('SHA1', '0' * 40),))))
        if lv == 0:
            items.append(('L', 'TIMESTAMP 2020-02-02T02:02:02Z'))
        down = []
        if lv < depth:
            down.append(('M', lpaths[lv + 1], mh))
            if dup in ('same', 'disjoint') and lv == depth - 1:
                down.append(('M', lpaths[lv + 1], mh if dup == 'same' else other_hashes(mh)))
        if sib and lv == depth - 1:
            down.append(('M', sibpath, mh))
        if dup in ('cross_weak', 'cross_disjoint') and lv == 0 and depth >= 2:
            # the deepest Manifest is ALSO listed by the top-level Manifest (size only / other hashes): a second
            # parent, met one loading round before its direct parent
            down.append(('M', lpaths[depth], () if dup == 'cross_weak' else other_hashes(mh)))
        first.append(len(nodes))
        nodes.append(lpaths[lv])
        if deleg and deleg[0] == lv and lv < depth:
            dpath = mname(d, deleg[1], 'Manifest.files')
            items.append(('M', dpath, mh))
            specs.append(MSpec(lpaths[lv], items))
            specs.append(MSpec(dpath, down))
            nodes.append(dpath)
        else:
            specs.append(MSpec(lpaths[lv], items + down))
        last.append(len(nodes) - 1)
    if sib:
        specs.append(MSpec(sibpath, [('F', 'DATA', extra, ('SHA1',))]))
    t = Tree(files)
    render_layout(t, specs)
    return t, {'dirs': dirs, 'mpaths': nodes, 'sibpath': sibpath, 'extra': extra,
               'dist': dist, 'first': first, 'last': last}


def queries(info, depth, sib):
    """(label, needs_levels, callable(loader))"""
    dirs, out = info['dirs'], []
    last = info.get('last') or list(range(depth + 1))
    nmax = len(info['mpaths']) - 1
    # a query that needs only the Manifests of the top directory; first in the list = it PRECEDES every other query
    # on the shared loader in forward order (state left behind by a harmless call must not weaken later ones)
    out.append(('find_timestamp:0', (last[0], False), lambda m: m.find_timestamp()))
    for p, d in enumerate(dirs):
        out.append((f'dir:{p}', (nmax, True), lambda m, d=d: m.assert_directory_verifies(d)))
    for lv, d in enumerate(dirs):
        for name in (f'f{lv}', 'added'):
            path = os.path.join(d, name)
            need = (last[lv], bool(sib) and lv == depth)
            out.append((f'verify_path:{lv}:{name}', need, lambda m, path=path: m.verify_path(path)))
            out.append((f'assert_path:{lv}:{name}', need, lambda m, path=path: m.assert_path_verifies(path)))
            out.append((f'find_path:{lv}:{name}', need, lambda m, path=path: m.find_path_entry(path)))
        out.append((f'find_dist:{lv}', (last[lv], bool(sib) and lv == depth),
                    lambda m, d=d, n=info['dist'][lv][0]: m.find_dist_entry(n, d)))
    if sib:
        path = info['extra']
        out.append(('verify_path:sib', (nmax, True), lambda m: m.verify_path(path)))
        out.append(('find_path:sib', (nmax, True), lambda m: m.find_path_entry(path)))
        out.append(('assert_path:sib', (nmax, True), lambda m: m.assert_path_verifies(path)))
    return out


def observe(root, fn):
    def go():
        m = gem.loader(root)
        r = fn(m)
        if r is None or isinstance(r, bool):
            return r
        if isinstance(r, tuple):
            return (r[0], [tuple(x) for x in r[1]])
        return rm.from_gemato(r)
    o = gem.call(go)
    if o['kind'] == 'ret':
        return ('ret', o['value'])
    return ('exc', o['exc'], o.get('path'), o.get('class'), o.get('where'))


def observe_on(m, fn):
    def go():
        r = fn(m)
        if r is None or isinstance(r, bool):
            return r
        if isinstance(r, tuple):
            return (r[0], [tuple(x) for x in r[1]])
        return rm.from_gemato(r)
    o = gem.call(go)
    if o['kind'] == 'ret':
        return ('ret', o['value'])
    return ('exc', o['exc'], o.get('path'), o.get('class'), o.get('where'))


def materialise(case, scratch):
    root = fresh_root(scratch)
    Tree.from_json(case['tree']).write(root)
    return root


def check_case(case, scratch, stats=None):
    """case: tree (tampered, partially recomputed), base (untampered tree),
    depth, sib, k, broken (path of the Manifest that no longer matches its parent
    entry, or None), dc (bool: undetectable because nothing recorded)."""
    depth, sib, k = case['depth'], case['sib'], case['k']
    info = case['info']
    info['dist'] = {int(a): tuple(b) for a, b in info['dist'].items()}
    # History, not a snapshot: the UNTAMPERED tree is materialised and queried first (fresh loader per
    # query), then the attacker rewrites files in place at the same paths, then fresh loaders are queried
    # again.  Anything gemato remembers across loaders within one process is thereby part of the state.
    root = fresh_root(scratch)
    Tree.from_json(case['base']).write(root)
    base_obs = {}
    for label, need, fn in queries(info, depth, sib):
        if case.get('only_query') and label != case['only_query']:
            continue
        base_obs[label] = observe(root, fn)
    root = materialise(case, scratch)
    out = []
    only = case.get('only_query')
    for label, need, fn in queries(info, depth, sib):
        if only and label != only:
            continue
        got = observe(root, fn)
        if stats is not None:
            stats.transitions += 1
        maxlevel, needs_sib = need
        if k is None or k == 0:
            needs_broken = False
        elif case['broken_is_sib']:
            needs_broken = needs_sib
        else:
            needs_broken = 1 <= k <= maxlevel
        if k == 0 or k is None:
            # fully recomputed (or untampered) tree: pins the harness — must not fail on the chain
            expect = 'no_chain_failure'
        elif needs_broken:
            expect = 'dontcare' if case['dc'] else 'raise'
        else:
            expect = 'same_as_base'
        bad = None
        if expect == 'raise':
            if not (got[0] == 'exc' and got[1] == 'ManifestMismatch'
                    and got[2] in case.get('broken_any', [case['broken']])):
                bad = 'broken_chain_not_reported'
                if got[0] == 'exc' and got[1] == 'ManifestMismatch':
                    bad = 'broken_chain_wrong_path'
        elif expect == 'same_as_base':
            base = base_obs[label]
            if got != base:
                bad = 'unrelated_query_changed'
        elif expect == 'no_chain_failure':
            if got[0] == 'exc' and got[1] == 'ManifestMismatch' and got[2] in info['mpaths'] + [info['sibpath']]:
                bad = 'consistent_chain_rejected'
            if got[0] == 'exc' and got[3] == 'internal':
                bad = 'internal_error'
            if label.startswith('dir:') and case['kind'] is None and got != ('ret', True):
                bad = 'consistent_tree_rejected'
        if stats is not None:
            stats.outcomes[f'{expect}/{label.split(":")[0]}/{got[0]}:{got[1] if got[0] == "exc" else type(got[1]).__name__}'] += 1
            if expect == 'dontcare':
                stats.dontcare['MANIFEST entry records no checksum and size unchanged'] += 1
            else:
                stats.compared += 1
        if bad:
            sig = {'check': bad, 'api': label.split(':')[0], 'expect': expect,
                   'got': got[1] if got[0] == 'exc' else 'ret'}
            c = dict(case, only_query=label)
            out.append({'sig': sig, 'case': c,
                        'message': f'{bad}: query {label} on chain depth={depth} k={k} kind={case["kind"]} '
                        f'broken={case["broken"]}: got {got}'})
    # one loader object for a whole sequence of queries (forward and reversed order): a sub-Manifest that was
    # rejected once must not be usable afterwards, and one that was accepted stays subject to its chain
    if k is not None and k >= 1 and not case['dc']:
        qs = [q for q in queries(info, depth, sib) if not only or q[0] == only or True]
        orders = (('fwd', qs), ('rev', qs[::-1]))
        if case.get('tier') == 'quick' and depth >= 3:
            orders = orders[:1] if (k + depth) % 2 else orders[1:]      # alternate to halve the cost
        for order, seq in orders:
            shared = gem.loader(root)
            for label, need, fn in seq:
                maxlevel, needs_sib = need
                needs_broken = needs_sib if case['broken_is_sib'] else (1 <= k <= maxlevel)
                got = observe_on(shared, fn)
                if stats is not None:
                    stats.transitions += 1
                if not needs_broken:
                    continue
                if stats is not None:
                    stats.compared += 1
                    stats.outcomes[f'shared-loader/{label.split(":")[0]}/{got[0]}:{got[1] if got[0] == "exc" else "ret"}'] += 1
                if not (got[0] == 'exc' and got[1] == 'ManifestMismatch'
                        and got[2] in case.get('broken_any', [case['broken']])):
                    if case.get('only_shared') and case['only_shared'] != [order, label]:
                        continue
                    sig = {'check': 'broken_chain_usable_on_reused_loader', 'api': label.split(':')[0],
                           'got': got[1] if got[0] == 'exc' else 'ret'}
                    out.append({'sig': sig, 'case': dict(case, only_shared=[order, label]),
                                'message': f'broken_chain_usable_on_reused_loader: on one loader, query order {order}, '
                                f'{label} on chain depth={depth} k={k} kind={case["kind"]} broken={case["broken"]}: '
                                f'got {got}'})
                    break
    if stats is not None:
        stats.evaluations += 1
    return out


def replay(case, scratch):
    if case.get('unsupported'):
        st = Stats()
        st.ABORT_AFTER = 10 ** 9
        base, tam, info = unsupported_case(2, tuple(case['comps']), case['hname'], case['seed'],
                                           case['kind'] or 'change_same_size', case['j'] or 2, case['at'])
        root = fresh_root(scratch)
        (tam if case['kind'] else base).write(root)
        out = []
        for label, need, fn in queries(info, 2, 0):
            if label != case['only_query']:
                continue
            got = observe(root, fn)
            if not (got[0] == 'exc' and got[1] in ('UnsupportedHash', 'ManifestMismatch')):
                out.append({'sig': {'check': 'unverifiable_link_trusted', 'api': label.split(':')[0],
                                    'hash': case['hname'], 'got': got[1] if got[0] == 'exc' else 'ret'},
                            'case': case, 'message': f'unverifiable_link_trusted: {label} got {got}'})
        return out
    return check_case(case, scratch)


def unsupported_case(depth, comps, hname, seed, kind, j, at):
    """Chain whose MANIFEST entry for the level-``at`` Manifest records ONLY a hash this build cannot
    compute.  Nothing beneath that link can be authenticated: every query that needs it must fail
    (UnsupportedHash or ManifestMismatch), on the untampered tree and after a same-size tamper alike."""
    def patch(tree, info):
        parent = info['mpaths'][at - 1]
        child = info['mpaths'][at]
        from gverif.treemodel import comp_of, compress, decompress
        c = comp_of(os.path.basename(parent))
        text = decompress(tree.files[parent], c).decode('utf8')
        rel = os.path.relpath(child, os.path.dirname(parent) or '.')
        lines = []
        for ln in text.splitlines():
            f = ln.split(' ')
            if f[0] == 'MANIFEST' and rm.unescape_path(f[1])[1] == rel:
                ln = ' '.join(f[:3] + [hname, '0' * 32])
            lines.append(ln)
        tree.files[parent] = compress(''.join(x + '\n' for x in lines).encode('utf8'), c)
        # levels above the patched parent must be consistent with its new bytes
        for lv in range(at - 2, -1, -1):
            up, dn = info['mpaths'][lv], info['mpaths'][lv + 1]
            cu = comp_of(os.path.basename(up))
            t = decompress(tree.files[up], cu).decode('utf8')
            reld = os.path.relpath(dn, os.path.dirname(up) or '.')
            out = []
            for ln in t.splitlines():
                f = ln.split(' ')
                if f[0] == 'MANIFEST' and rm.unescape_path(f[1])[1] == reld:
                    e = rm.file_entry('MANIFEST', reld, tree.files[dn], ('SHA1',))
                    ln = rm.entry_line(e)
                out.append(ln)
            tree.files[up] = compress(''.join(x + '\n' for x in out).encode('utf8'), cu)
    base, info = build(depth, comps, ('SHA1',), 0, seed)
    patch(base, info)
    tam, _ = build(depth, comps, ('SHA1',), 0, seed, tamper=(kind, j))
    patch(tam, info)
    return base, tam, info


def run_unsupported(spec, tier, seed, scratch, stats):
    _u, hname = spec
    depth = 2
    for comps, at, (kind, j) in itertools.product([(None, None), ('gz', 'bz2'), ('xz', None)], (1, 2),
                                                  [(None, None), ('change_same_size', 2), ('dist', 2)]):
        base, tam, info = unsupported_case(depth, comps, hname, seed, kind or 'change_same_size', j or 2, at)
        tree = tam if kind else base
        root = fresh_root(scratch)
        tree.write(root)
        for label, need, fn in queries(info, depth, 0):
            maxlevel, _ns = need
            got = observe(root, fn)
            stats.transitions += 1
            if maxlevel < at:
                continue
            stats.compared += 1
            stats.outcomes[f'unsupported-parent-hash/{label.split(":")[0]}/{got[0]}:{got[1] if got[0] == "exc" else "ret"}'] += 1
            if not (got[0] == 'exc' and got[1] in ('UnsupportedHash', 'ManifestMismatch')):
                case = {'unsupported': True, 'hname': hname, 'comps': list(comps), 'at': at, 'kind': kind, 'j': j,
                        'seed': seed, 'only_query': label}
                stats.violation({'check': 'unverifiable_link_trusted', 'api': label.split(':')[0], 'hash': hname,
                                 'got': got[1] if got[0] == 'exc' else 'ret'}, case,
                                f'unverifiable_link_trusted: MANIFEST entry for level {at} records only {hname}; '
                                f'{label} (tamper={kind}) got {got}')
        stats.evaluations += 1
        stats.case(('unsupported', hname, comps, at, kind), nontrivial=True)


def shards(tier, seed):
    out = [('unsupported', h) for h in UNSUPPORTED]
    maxd = 3 if tier == 'quick' else 5
    for depth in range(1, maxd + 1):
        if depth <= 3:
            assigns = list(itertools.product(COMPS, repeat=depth))
        else:
            assigns = [tuple(rot(list(COMPS), r)[:depth]) for r in range(5)]
        for comps in assigns:
            out.append(('chain', depth, comps))
    # same-directory delegation (top -> Manifest.files -> sub/Manifest) at every level, and doubly recorded links
    for depth in ((1, 2) if tier == 'quick' else (1, 2, 3)):
        cs = [tuple([None] * depth), tuple(rot(list(COMPS), 1)[:depth])]
        for comps in cs:
            for L in range(depth):
                for dcomp in ((None, 'gz') if tier == 'quick' else COMPS):
                    out.append(('deleg', depth, comps, L, dcomp))
            for dup in ('same', 'disjoint') + (('cross_weak', 'cross_disjoint') if depth >= 2 else ()):
                out.append(('dup', depth, comps, dup))
    return out


KINDS = ['change', 'change_same_size', 'remove', 'add', 'dist']


def run_shard(spec, tier, seed, scratch):
    stats = Stats()
    if spec[0] == 'unsupported':
        run_unsupported(spec, tier, seed, scratch, stats)
        return stats
    deleg = dup = None
    if spec[0] == 'deleg':
        _c, depth, comps, L, dcomp = spec
        deleg = (L, dcomp)
    elif spec[0] == 'dup':
        _c, depth, comps, dup = spec
    else:
        _c, depth, comps = spec
    for mh, sib in itertools.product(MHASHES, (0, 1)):
        if tier == 'quick' and depth == 3 and (sib or mh != MHASHES[0]) and comps[0] not in (None, 'gz'):
            continue
        if tier == 'quick' and spec[0] != 'chain' and sib and mh != MHASHES[0]:
            continue
        base, info = build(depth, comps, mh, sib, seed, deleg=deleg, dup=dup)
        nodes, first, last = info['mpaths'], info['first'], info['last']
        nmax = len(nodes) - 1
        jinfo = dict(info, dist={str(a): list(b) for a, b in info['dist'].items()})
        # untampered tree: everything must work
        case0 = {'tree': base.to_json(), 'base': base.to_json(), 'depth': depth, 'sib': sib, 'k': None,
                 'kind': None, 'broken': None, 'dc': False, 'info': jinfo, 'broken_is_sib': False}
        for v in check_case(case0, scratch, stats):
            stats.violation(v['sig'], v['case'], v['message'])
        stats.case((spec, mh, sib, 'untampered'))
        kinds = [(kd, j) for kd in KINDS for j in range(0, depth + 1)]
        if sib:
            kinds.append(('sib_change', depth))
        for kind, j in kinds:
            tam, _ = build(depth, comps, mh, sib, seed, tamper=(kind, j), deleg=deleg, dup=dup)
            is_sib = kind == 'sib_change'
            # k = NODE up to which Manifests were recomputed; k=0: all (consistent).
            # For the sibling object the recomputed set is Manifest.b plus the nodes from the one listing it
            # up to k; 'sibonly' = only Manifest.b was recomputed.
            ks = list(range(0, (last[depth - 1] if is_sib else first[j]) + 1)) + (['sibonly'] if is_sib else [])
            for k in ks:
                t = tam.clone()
                broken_is_sib = k == 'sibonly'
                upto = nmax + 1 if broken_is_sib else k
                # restore untouched Manifests (nodes < k) from the base tree
                for n in range(0, upto):
                    t.files[nodes[n]] = base.files[nodes[n]]
                if k == 0:
                    broken = None
                elif broken_is_sib:
                    broken = info['sibpath']
                else:
                    broken = nodes[k]
                k = nmax + 1 if broken_is_sib else k
                dc = False
                if broken is not None and not mh and not (dup in ('disjoint', 'cross_disjoint')
                                                          and broken == nodes[first[depth]]):
                    dc = len(t.files[broken]) == len(base.files[broken])
                broken_any = [broken]
                deepest = nodes[first[depth]]
                if (dup in ('cross_weak', 'cross_disjoint') and depth >= 2 and k != 0
                        and t.files[deepest] != base.files[deepest]):
                    # the untouched top-level Manifest lists the deepest Manifest too: whoever needs the deepest one
                    # may meet that stale entry before the broken link nodes[k]
                    if dup == 'cross_disjoint' or len(t.files[deepest]) != len(base.files[deepest]):
                        broken_any = [broken, deepest]
                if broken is not None and t.files[broken] == base.files[broken]:
                    continue    # nothing changed at that node (cannot happen for these kinds)
                case = {'tree': t.to_json(), 'base': base.to_json(), 'depth': depth, 'sib': sib,
                        'k': k, 'kind': kind, 'j': j, 'broken': broken, 'dc': dc, 'info': jinfo,
                        'broken_is_sib': broken_is_sib, 'tier': tier, 'broken_any': broken_any}
                vs = check_case(case, scratch, stats)
                stats.case((spec, mh, sib, kind, j, k), nontrivial=(k >= 1 and not dc))
                if spec[0] != 'chain' and k >= 1 and not dc:
                    stats.counters['cases_' + spec[0]] += 1
                if k >= 1 and len(stats.samples) < 2:
                    stats.sample({'depth': depth, 'comps': comps, 'mhashes': mh, 'sib': sib, 'tamper': kind,
                                  'level_j': j, 'recomputed_up_to_node_k': k, 'broken_link': broken,
                                  'deleg': deleg, 'dup': dup})
                for v in vs:
                    stats.violation(v['sig'], v['case'], v['message'])
                # thorough: a SECOND, independent broken link above the first (node k1 < k edited by hand - an IGNORE
                # line appended - without its parent being told): whatever needs node k1 must name k1, the first
                # broken link met from the top
                if tier == 'thorough' and kind == 'change' and not broken_is_sib and k >= 2:
                    from gverif.treemodel import comp_of, compress, decompress
                    for k1 in range(1, k):
                        t2 = t.clone()
                        c1 = comp_of(os.path.basename(nodes[k1]))
                        t2.files[nodes[k1]] = compress(decompress(t2.files[nodes[k1]], c1) + b'IGNORE zz-second-break\n', c1)
                        case2 = dict(case, tree=t2.to_json(), k=k1, broken=nodes[k1], dc=False,
                                     broken_any=[nodes[k1]] + [b for b in broken_any if b == deepest])
                        vs2 = check_case(case2, scratch, stats)
                        stats.case((spec, mh, sib, kind, j, k, 'second_break', k1), nontrivial=True)
                        stats.counters['cases_two_breaks'] += 1
                        for v in vs2:
                            stats.violation(v['sig'], v['case'], v['message'])
    return stats


def finish(total, tier):
    errs = []
    keys = ' '.join(total.outcomes)
    for need in ('raise/dir/exc:ManifestMismatch', 'raise/find_path/exc:ManifestMismatch',
                 'raise/find_dist/exc:ManifestMismatch', 'raise/verify_path/exc:ManifestMismatch',
                 'raise/assert_path/exc:ManifestMismatch', 'same_as_base/', 'no_chain_failure/'):
        if need not in keys:
            errs.append(f'vacuity: outcome class {need} never seen')
    for fam in ('deleg', 'dup'):
        if not total.counters.get('cases_' + fam):
            errs.append(f'vacuity: family {fam} produced no tampered case with a definite demand')
    if 'raise/find_timestamp/exc:ManifestMismatch' not in keys:
        errs.append('vacuity: find_timestamp never needed a broken same-directory Manifest')
    return errs
