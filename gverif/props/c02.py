"""C02 — sub-Manifests are trusted only through an unbroken hash chain from the top.

For every chain top -> d1/Manifest -> d1/d2/Manifest ... (depth <= 3 quick / <= 5
thorough), every compression assignment, every tampered object at level j and
every level k <= j up to which the attacker recomputes all Manifests consistently
(level k-1 left untouched), every one of the five consumer APIs is queried on a
fresh loader: whatever needs the level-k Manifest must raise ManifestMismatch
naming it; whatever needs only levels < k must answer as on the untampered tree.
"""

import itertools
import os

from gverif import gem, refmanifest as rm
from gverif.common import fresh_root, rot
from gverif.evidence import Stats
from gverif.treemodel import COMPS, MSpec, Tree, mname, render_layout

PID = 'C02'
LEVEL = 'model_checking'
RULE = ('chains of depth 1..D x compression assignment x MANIFEST-entry hash set x sibling variant x '
        '(tampered object kind, level j) x recompute-up-to level k x query (5 APIs, every directory / '
        'path / DIST name on the chain); case = that tuple; non-trivial = tampered (k>=1) and the '
        'reference gives a definite demand')
ASSUMPTIONS = [
    'attacker model: rewrites data + Manifests at levels j..k consistently using the reference writer; level k-1 untouched',
    'MANIFEST entries without checksums and with unchanged size are DONT_CARE (nothing recorded to compare)',
    'fresh loader per query; loaders that ran an update before are exercised under C10',
    'depth 4-5 use the five cyclic rotations of the compression formats instead of all 5^d assignments',
]

DNAMES = ['d', 'e f', 'gé', 'h', 'i']
MHASHES = [('SHA1',), ('MD5', 'SHA256'), ()]
# hash names this build cannot compute (WHIRLPOOL: not in OpenSSL 3) or does not know at all
UNSUPPORTED = ('WHIRLPOOL', 'BLAKE3')


def build(depth, comps, mh, sib, seed, tamper=None):
    """-> (Tree with Manifests, info).  tamper = (kind, j) applied to the data
    before rendering (fully consistent result)."""
    dn = rot(DNAMES, seed)
    dirs = ['']
    for i in range(depth):
        dirs.append((dirs[-1] + '/' if dirs[-1] else '') + dn[i])
    files = {}
    dist = {}
    for lv, d in enumerate(dirs):
        files[os.path.join(d, f'f{lv}')] = b'data%d' % lv
        dist[lv] = (f'dist{lv}.tar', 100 + lv)
    extra = None
    if sib:
        extra = os.path.join(dirs[-1], 'g')
        files[extra] = b'sibling'
    kind = j = None
    if tamper:
        kind, j = tamper
        tgt = os.path.join(dirs[j], f'f{j}')
        if kind == 'change':
            files[tgt] = b'EVIL%d' % j
        elif kind == 'change_same_size':
            files[tgt] = b'DATA%d' % j
        elif kind == 'remove':
            del files[tgt]
        elif kind == 'add':
            files[os.path.join(dirs[j], 'added')] = b'new'
        elif kind == 'dist':
            dist[j] = (dist[j][0], 999)
        elif kind == 'sib_change':
            files[extra] = b'SIBLING-EVIL'
    mpaths = [mname(dirs[lv], comps[lv - 1] if lv else None) for lv in range(depth + 1)]
    sibpath = mname(dirs[-1], None, 'Manifest.b') if sib else None
    specs = []
    for lv, d in enumerate(dirs):
        items = []
        for p in sorted(files):
            if os.path.dirname(p) == d and p != extra:
                items.append(('F', 'DATA', p, ('SHA1',)))
        items.append(('E', ('DIST', dist[lv][0], dist[lv][1], (('SHA1', '0' * 40),))))
        if lv < depth:
            items.append(('M', mpaths[lv + 1], mh))
        if sib and lv == depth - 1:
            items.append(('M', sibpath, mh))
        specs.append(MSpec(mpaths[lv], items))
    if sib:
        specs.append(MSpec(sibpath, [('F', 'DATA', extra, ('SHA1',))]))
    t = Tree(files)
    render_layout(t, specs)
    return t, {'dirs': dirs, 'mpaths': mpaths, 'sibpath': sibpath, 'extra': extra,
               'dist': dist}


def queries(info, depth, sib):
    """(label, needs_levels, callable(loader))"""
    dirs, out = info['dirs'], []
    for p, d in enumerate(dirs):
        out.append((f'dir:{p}', (depth, True), lambda m, d=d: m.assert_directory_verifies(d)))
    for lv, d in enumerate(dirs):
        for name in (f'f{lv}', 'added'):
            path = os.path.join(d, name)
            need = (lv, bool(sib) and lv == depth)
            out.append((f'verify_path:{lv}:{name}', need, lambda m, path=path: m.verify_path(path)))
            out.append((f'assert_path:{lv}:{name}', need, lambda m, path=path: m.assert_path_verifies(path)))
            out.append((f'find_path:{lv}:{name}', need, lambda m, path=path: m.find_path_entry(path)))
        out.append((f'find_dist:{lv}', (lv, bool(sib) and lv == depth),
                    lambda m, d=d, n=info['dist'][lv][0]: m.find_dist_entry(n, d)))
    if sib:
        path = info['extra']
        out.append(('verify_path:sib', (depth, True), lambda m: m.verify_path(path)))
        out.append(('find_path:sib', (depth, True), lambda m: m.find_path_entry(path)))
        out.append(('assert_path:sib', (depth, True), lambda m: m.assert_path_verifies(path)))
    return out


def observe(root, fn):
    def go():
        m = gem.loader(root)
        r = fn(m)
        if r is None or isinstance(r, bool):
            return r
        if isinstance(r, tuple):
            return (r[0], [tuple(x) for x in r[1]])
        return rm.from_gemato(r)
    o = gem.call(go)
    if o['kind'] == 'ret':
        return ('ret', o['value'])
    return ('exc', o['exc'], o.get('path'), o.get('class'), o.get('where'))


def observe_on(m, fn):
    def go():
        r = fn(m)
        if r is None or isinstance(r, bool):
            return r
        if isinstance(r, tuple):
            return (r[0], [tuple(x) for x in r[1]])
        return rm.from_gemato(r)
    o = gem.call(go)
    if o['kind'] == 'ret':
        return ('ret', o['value'])
    return ('exc', o['exc'], o.get('path'), o.get('class'), o.get('where'))


def materialise(case, scratch):
    root = fresh_root(scratch)
    Tree.from_json(case['tree']).write(root)
    return root


def check_case(case, scratch, stats=None):
    """case: tree (tampered, partially recomputed), base (untampered tree),
    depth, sib, k, broken (path of the Manifest that no longer matches its parent
    entry, or None), dc (bool: undetectable because nothing recorded)."""
    depth, sib, k = case['depth'], case['sib'], case['k']
    info = case['info']
    info['dist'] = {int(a): tuple(b) for a, b in info['dist'].items()}
    # History, not a snapshot: the UNTAMPERED tree is materialised and queried first (fresh loader per
    # query), then the attacker rewrites files in place at the same paths, then fresh loaders are queried
    # again.  Anything gemato remembers across loaders within one process is thereby part of the state.
    root = fresh_root(scratch)
    Tree.from_json(case['base']).write(root)
    base_obs = {}
    for label, need, fn in queries(info, depth, sib):
        if case.get('only_query') and label != case['only_query']:
            continue
        base_obs[label] = observe(root, fn)
    root = materialise(case, scratch)
    out = []
    only = case.get('only_query')
    for label, need, fn in queries(info, depth, sib):
        if only and label != only:
            continue
        got = observe(root, fn)
        if stats is not None:
            stats.transitions += 1
        maxlevel, needs_sib = need
        if k is None or k == 0:
            needs_broken = False
        elif case['broken_is_sib']:
            needs_broken = needs_sib
        else:
            needs_broken = 1 <= k <= maxlevel
        if k == 0 or k is None:
            # fully recomputed (or untampered) tree: pins the harness — must not fail on the chain
            expect = 'no_chain_failure'
        elif needs_broken:
            expect = 'dontcare' if case['dc'] else 'raise'
        else:
            expect = 'same_as_base'
        bad = None
        if expect == 'raise':
            if not (got[0] == 'exc' and got[1] == 'ManifestMismatch' and got[2] == case['broken']):
                bad = 'broken_chain_not_reported'
                if got[0] == 'exc' and got[1] == 'ManifestMismatch':
                    bad = 'broken_chain_wrong_path'
        elif expect == 'same_as_base':
            base = base_obs[label]
            if got != base:
                bad = 'unrelated_query_changed'
        elif expect == 'no_chain_failure':
            if got[0] == 'exc' and got[1] == 'ManifestMismatch' and got[2] in info['mpaths'] + [info['sibpath']]:
                bad = 'consistent_chain_rejected'
            if got[0] == 'exc' and got[3] == 'internal':
                bad = 'internal_error'
            if label.startswith('dir:') and case['kind'] is None and got != ('ret', True):
                bad = 'consistent_tree_rejected'
        if stats is not None:
            stats.outcomes[f'{expect}/{label.split(":")[0]}/{got[0]}:{got[1] if got[0] == "exc" else type(got[1]).__name__}'] += 1
            if expect == 'dontcare':
                stats.dontcare['MANIFEST entry records no checksum and size unchanged'] += 1
            else:
                stats.compared += 1
        if bad:
            sig = {'check': bad, 'api': label.split(':')[0], 'expect': expect,
                   'got': got[1] if got[0] == 'exc' else 'ret'}
            c = dict(case, only_query=label)
            out.append({'sig': sig, 'case': c,
                        'message': f'{bad}: query {label} on chain depth={depth} k={k} kind={case["kind"]} '
                        f'broken={case["broken"]}: got {got}'})
    # one loader object for a whole sequence of queries (forward and reversed order): a sub-Manifest that was
    # rejected once must not be usable afterwards, and one that was accepted stays subject to its chain
    if k is not None and k >= 1 and not case['dc']:
        qs = [q for q in queries(info, depth, sib) if not only or q[0] == only or True]
        orders = (('fwd', qs), ('rev', qs[::-1]))
        if case.get('tier') == 'quick' and depth >= 3:
            orders = orders[:1] if (k + depth) % 2 else orders[1:]      # alternate to halve the cost
        for order, seq in orders:
            shared = gem.loader(root)
            for label, need, fn in seq:
                maxlevel, needs_sib = need
                needs_broken = needs_sib if case['broken_is_sib'] else (1 <= k <= maxlevel)
                got = observe_on(shared, fn)
                if stats is not None:
                    stats.transitions += 1
                if not needs_broken:
                    continue
                if stats is not None:
                    stats.compared += 1
                    stats.outcomes[f'shared-loader/{label.split(":")[0]}/{got[0]}:{got[1] if got[0] == "exc" else "ret"}'] += 1
                if not (got[0] == 'exc' and got[1] == 'ManifestMismatch' and got[2] == case['broken']):
                    if case.get('only_shared') and case['only_shared'] != [order, label]:
                        continue
                    sig = {'check': 'broken_chain_usable_on_reused_loader', 'api': label.split(':')[0],
                           'got': got[1] if got[0] == 'exc' else 'ret'}
                    out.append({'sig': sig, 'case': dict(case, only_shared=[order, label]),
                                'message': f'broken_chain_usable_on_reused_loader: on one loader, query order {order}, '
                                f'{label} on chain depth={depth} k={k} kind={case["kind"]} broken={case["broken"]}: '
                                f'got {got}'})
                    break
    if stats is not None:
        stats.evaluations += 1
    return out


def replay(case, scratch):
    if case.get('unsupported'):
        st = Stats()
        st.ABORT_AFTER = 10 ** 9
        base, tam, info = unsupported_case(2, tuple(case['comps']), case['hname'], case['seed'],
                                           case['kind'] or 'change_same_size', case['j'] or 2, case['at'])
        root = fresh_root(scratch)
        (tam if case['kind'] else base).write(root)
        out = []
        for label, need, fn in queries(info, 2, 0):
            if label != case['only_query']:
                continue
            got = observe(root, fn)
            if not (got[0] == 'exc' and got[1] in ('UnsupportedHash', 'ManifestMismatch')):
                out.append({'sig': {'check': 'unverifiable_link_trusted', 'api': label.split(':')[0],
                                    'hash': case['hname'], 'got': got[1] if got[0] == 'exc' else 'ret'},
                            'case': case, 'message': f'unverifiable_link_trusted: {label} got {got}'})
        return out
    return check_case(case, scratch)


def unsupported_case(depth, comps, hname, seed, kind, j, at):
    """Chain whose MANIFEST entry for the level-``at`` Manifest records ONLY a hash this build cannot
    compute.  Nothing beneath that link can be authenticated: every query that needs it must fail
    (UnsupportedHash or ManifestMismatch), on the untampered tree and after a same-size tamper alike."""
    def patch(tree, info):
        parent = info['mpaths'][at - 1]
        child = info['mpaths'][at]
        from gverif.treemodel import comp_of, compress, decompress
        c = comp_of(os.path.basename(parent))
        text = decompress(tree.files[parent], c).decode('utf8')
        rel = os.path.relpath(child, os.path.dirname(parent) or '.')
        lines = []
        for ln in text.splitlines():
            f = ln.split(' ')
            if f[0] == 'MANIFEST' and rm.unescape_path(f[1])[1] == rel:
                ln = ' '.join(f[:3] + [hname, '0' * 32])
            lines.append(ln)
        tree.files[parent] = compress(''.join(x + '\n' for x in lines).encode('utf8'), c)
        # levels above the patched parent must be consistent with its new bytes
        for lv in range(at - 2, -1, -1):
            up, dn = info['mpaths'][lv], info['mpaths'][lv + 1]
            cu = comp_of(os.path.basename(up))
            t = decompress(tree.files[up], cu).decode('utf8')
            reld = os.path.relpath(dn, os.path.dirname(up) or '.')
            out = []
            for ln in t.splitlines():
                f = ln.split(' ')
                if f[0] == 'MANIFEST' and rm.unescape_path(f[1])[1] == reld:
                    e = rm.file_entry('MANIFEST', reld, tree.files[dn], ('SHA1',))
                    ln = rm.entry_line(e)
                out.append(ln)
            tree.files[up] = compress(''.join(x + '\n' for x in out).encode('utf8'), cu)
    base, info = build(depth, comps, ('SHA1',), 0, seed)
    patch(base, info)
    tam, _ = build(depth, comps, ('SHA1',), 0, seed, tamper=(kind, j))
    patch(tam, info)
    return base, tam, info


def run_unsupported(spec, tier, seed, scratch, stats):
    _u, hname = spec
    depth = 2
    for comps, at, (kind, j) in itertools.product([(None, None), ('gz', 'bz2'), ('xz', None)], (1, 2),
                                                  [(None, None), ('change_same_size', 2), ('dist', 2)]):
        base, tam, info = unsupported_case(depth, comps, hname, seed, kind or 'change_same_size', j or 2, at)
        tree = tam if kind else base
        root = fresh_root(scratch)
        tree.write(root)
        for label, need, fn in queries(info, depth, 0):
            maxlevel, _ns = need
            got = observe(root, fn)
            stats.transitions += 1
            if maxlevel < at:
                continue
            stats.compared += 1
            stats.outcomes[f'unsupported-parent-hash/{label.split(":")[0]}/{got[0]}:{got[1] if got[0] == "exc" else "ret"}'] += 1
            if not (got[0] == 'exc' and got[1] in ('UnsupportedHash', 'ManifestMismatch')):
                case = {'unsupported': True, 'hname': hname, 'comps': list(comps), 'at': at, 'kind': kind, 'j': j,
                        'seed': seed, 'only_query': label}
                stats.violation({'check': 'unverifiable_link_trusted', 'api': label.split(':')[0], 'hash': hname,
                                 'got': got[1] if got[0] == 'exc' else 'ret'}, case,
                                f'unverifiable_link_trusted: MANIFEST entry for level {at} records only {hname}; '
                                f'{label} (tamper={kind}) got {got}')
        stats.evaluations += 1
        stats.case(('unsupported', hname, comps, at, kind), nontrivial=True)


def shards(tier, seed):
    out = [('unsupported', h) for h in UNSUPPORTED]
    maxd = 3 if tier == 'quick' else 5
    for depth in range(1, maxd + 1):
        if depth <= 3:
            assigns = list(itertools.product(COMPS, repeat=depth))
        else:
            assigns = [tuple(rot(list(COMPS), r)[:depth]) for r in range(5)]
        for comps in assigns:
            out.append(('chain', depth, comps))
    return out


KINDS = ['change', 'change_same_size', 'remove', 'add', 'dist']


def run_shard(spec, tier, seed, scratch):
    stats = Stats()
    if spec[0] == 'unsupported':
        run_unsupported(spec, tier, seed, scratch, stats)
        return stats
    _c, depth, comps = spec
    for mh, sib in itertools.product(MHASHES, (0, 1)):
        if tier == 'quick' and depth == 3 and (sib or mh != MHASHES[0]) and comps[0] not in (None, 'gz'):
            continue
        base, info = build(depth, comps, mh, sib, seed)
        jinfo = dict(info, dist={str(a): list(b) for a, b in info['dist'].items()})
        # untampered tree: everything must work
        case0 = {'tree': base.to_json(), 'base': base.to_json(), 'depth': depth, 'sib': sib, 'k': None,
                 'kind': None, 'broken': None, 'dc': False, 'info': jinfo, 'broken_is_sib': False}
        for v in check_case(case0, scratch, stats):
            stats.violation(v['sig'], v['case'], v['message'])
        stats.case((spec, mh, sib, 'untampered'))
        kinds = [(kd, j) for kd in KINDS for j in range(0, depth + 1)]
        if sib:
            kinds.append(('sib_change', depth))
        for kind, j in kinds:
            tam, _ = build(depth, comps, mh, sib, seed, tamper=(kind, j))
            is_sib = kind == 'sib_change'
            # k = level up to which Manifests were recomputed; k=0: all (consistent).
            # For the sibling object the recomputed set is Manifest.b plus levels
            # depth-1..k; 'sibonly' = only Manifest.b was recomputed.
            ks = list(range(0, depth if is_sib else j + 1)) + (['sibonly'] if is_sib else [])
            for k in ks:
                t = tam.clone()
                broken_is_sib = k == 'sibonly'
                upto = depth if broken_is_sib else k
                # restore untouched Manifests (levels < k) from the base tree
                for lv in range(0, upto):
                    t.files[info['mpaths'][lv]] = base.files[info['mpaths'][lv]]
                if k == 0:
                    broken = None
                elif broken_is_sib:
                    broken = info['sibpath']
                else:
                    broken = info['mpaths'][k]
                k = depth + 1 if broken_is_sib else k
                dc = False
                if broken is not None and not mh:
                    dc = len(t.files[broken]) == len(base.files[broken])
                if broken is not None and t.files[broken] == base.files[broken]:
                    continue    # nothing changed at that level (cannot happen for these kinds)
                case = {'tree': t.to_json(), 'base': base.to_json(), 'depth': depth, 'sib': sib,
                        'k': k, 'kind': kind, 'j': j, 'broken': broken, 'dc': dc, 'info': jinfo,
                        'broken_is_sib': broken_is_sib, 'tier': tier}
                vs = check_case(case, scratch, stats)
                stats.case((spec, mh, sib, kind, j, k), nontrivial=(k >= 1 and not dc))
                if k >= 1 and len(stats.samples) < 2:
                    stats.sample({'depth': depth, 'comps': comps, 'mhashes': mh, 'sib': sib, 'tamper': kind,
                                  'level_j': j, 'recomputed_up_to_k': k, 'broken_link': broken})
                for v in vs:
                    stats.violation(v['sig'], v['case'], v['message'])
    return stats


def finish(total, tier):
    errs = []
    keys = ' '.join(total.outcomes)
    for need in ('raise/dir/exc:ManifestMismatch', 'raise/find_path/exc:ManifestMismatch',
                 'raise/find_dist/exc:ManifestMismatch', 'raise/verify_path/exc:ManifestMismatch',
                 'raise/assert_path/exc:ManifestMismatch', 'same_as_base/', 'no_chain_failure/'):
        if need not in keys:
            errs.append(f'vacuity: outcome class {need} never seen')
    return errs
