"""C19 — profiles place Manifests and type entries as documented; the output verifies.

For every repository shape of gverif.repogen x profile {default, ebuild, old-ebuild} x explicit overrides
(-H, -c, sort through the library) x sequences {create; create -> edit -> update; create with profile P ->
update with profile Q} the real `gemato create/update -p <profile>` (CLI, in-process) or the library is run.
After EVERY step the disk is read back with plain os calls and the reference Manifest parser and compared with
an independent restatement of the profile docstrings (the ref_* functions below — gemato.profile is only
imported to *drive* the library interface, never for the oracle):

  placement   directories holding a Manifest = those that held one before the step ∪ those the policy names
  ignores     a Manifest created by the step carries exactly the documented default IGNORE lines
  tags        entries for files that had no entry before the step carry the tag the profile prescribes
  hashes      BLAKE2B+SHA512 unless -H; sorted unless sort=False; watermark 128 unless -c; top-level Manifest and
              (old-ebuild) Manifests holding EBUILD entries stay plain
  verifies    reference verdict 'match' and a fresh default-profile gemato loader verifies the tree

Family 'explicit' (explicit overrides beat the profile defaults): for the ebuild and old-ebuild profiles the full
product {compress format given (bz2, xz, lzma; thorough also gz) / not} x {watermark given (0, 1; thorough also 200) /
not} x {hashes given (SHA1) / not} x {sort given (False, True — library only, the CLI has no such option) / not} x
interface {CLI -C/-c/-H, library compress_format/compress_watermark/hashes/sort}.  Oracle: every option that was
given is what the written Manifests show, every option that was not given shows the profile default (format gz,
watermark 128, BLAKE2B+SHA512, sorted): a sub-Manifest whose uncompressed size reaches the effective watermark is
stored as Manifest.<effective format>, and nothing else is compressed (so with an explicit watermark of 0 or 1 every
rewritten sub-Manifest is compressed, also those shorter than the profile's 128 bytes).
"""

import itertools
import os

from gverif import gem, refmanifest as rm, refverify, repogen, seams
from gverif.common import fresh_root
from gverif.evidence import Stats
from gverif.treemodel import comp_of, decompress

PID = 'C19'
LEVEL = 'model_checking'
RULE = ('repository shapes of gverif/repogen.py — quick: one varying package over all 64 component subsets on '
        '{1,2}x{1,2} grids x repository level {nothing, everything}; all-alike grids 0..2x0..2; all 128 subsets of the '
        'metadata components x others {none, all}; all 1024 subsets of the other repository-level components x '
        'metadata {none, all}; look-alike extras (3224 trees). thorough: additionally varying package at every '
        'position of 4x4 (first/last on smaller grids), all-alike 0..4x0..4, every subset of 16 repository-level '
        'components (2^16) with {ebuild, old-ebuild reversed}. '
        'Each tree x create with {default, ebuild, old-ebuild under sorted AND reversed scandir order}; package/alike/'
        'odd families x overrides {-H SHA1, -H SHA1 -c 0, -c 10^6, -c S and S+1 for S = size of a real sub-Manifest, '
        'library sort=False/True, library defaults}; family explicit = create with {ebuild, old-ebuild} x full product '
        '{-C/compress_format: not given, bz2, xz, lzma (thorough: +gz)} x {-c/compress_watermark: not given, 0, 1 (thorough: '
        '+200)} x {-H/hashes: not given, SHA1} x {CLI; library with sort not given, False, True} = 192 (thorough 320) '
        'creates per shape, on the odd family with the full repository level, every shape with every optional component and the full repository level '
        'without packages (quick: 25 shapes; thorough: whole odd family, every shape with every optional component on every grid, all-alike square and package-less grids with the full repository level); package family x {6 edits -> update} x profile and all 6 ordered '
        'profile pairs P->Q with and without edits. case = (shape, step list); non-trivial = every step completed and '
        'the reference verdict was definite')
ASSUMPTIONS = [
    'oracle = ref_* functions in this file (restated docstrings of gemato/profile.py and the task statement) + '
    'gverif/refverify.py + gverif/refmanifest.py; gemato.profile is imported only to pass a profile object to the library',
    'a Manifest that existed before a step (pre-existing package Manifest, or written by an earlier step) is '
    'expected to stay; tags/hash sets of entries that existed before a step are not judged (update preserves them)',
    'sorting, compression name and hash set are judged on Manifests the step wrote (new or changed bytes)',
    'an explicitly given option (hashes, sort, compression watermark, compression format) wins over the profile default; '
    'an option not given takes the profile default (ebuild profiles: BLAKE2B SHA512, sorted, watermark 128, format gz); '
    'the compression format is judged only where a watermark is in effect (default profile without -c: left as is)',
    'DONT_CARE: deliberate NotImplementedError when a default-IGNOREd name is already listed in a parent Manifest; '
    'tags of depth-3+ *.ebuild files, of a regular file named files, and of files/-looking paths outside '
    '<category>/<package>; placement in a top-level directory whose only sub-directories are hidden or IGNOREd',
    'names are portable ASCII; no symlinks; file contents a few bytes; VERIF_SEED rotates names and contents only',
]

TOP = 'Manifest'
RESERVED_TOP = ('eclass', 'licenses', 'metadata', 'profiles')
DEFAULT_IGNORED_TOP = ('distfiles', 'local', 'lost+found', 'packages')
META_MANIFEST_DIRS = ('dtd', 'glsa', 'md5-cache', 'news', 'xml-schema')
PROFILES = ('default', 'ebuild', 'old-ebuild')


# ------------------------------------------------------------------ reference policy (independent)

def ref_want_manifest(profile, rel, subdirs, files, ignores):
    """True / False / None (statement silent)."""
    if rel == '':
        return True
    if profile == 'default':
        return False
    if 'metadata.xml' in files:
        return True
    comps = rel.split('/')
    if len(comps) == 1:
        if rel in RESERVED_TOP:
            return True
        visible = [s for s in subdirs if not s.startswith('.') and f'{rel}/{s}' not in ignores]
        if visible:
            return True
        return None if subdirs else False
    has_ebuild = any(f.endswith('.ebuild') and not f.startswith('.') for f in files)
    if len(comps) == 2:
        if has_ebuild:
            return True
        return comps[0] == 'metadata' and comps[1] in META_MANIFEST_DIRS
    if len(comps) == 3 and comps[:2] == ['metadata', 'md5-cache']:
        return True
    return None if has_ebuild else False


def ref_default_ignores(profile, rel):
    if profile == 'default':
        return ()
    if rel == '':
        return DEFAULT_IGNORED_TOP
    if rel == 'metadata':
        return ('timestamp', 'timestamp.chk', 'timestamp.commit', 'timestamp.x')
    if rel in ('metadata/dtd', 'metadata/glsa', 'metadata/news', 'metadata/xml-schema'):
        return ('timestamp.chk', 'timestamp.commit')
    return ()


def ref_tag(profile, path):
    """Tag for a NEW entry; None where the statement is silent."""
    if profile != 'old-ebuild':
        return 'DATA'
    c = path.split('/')
    looks_special = (len(c) >= 3 and (c[2] == 'files' or c[-1].endswith('.ebuild') or
                                      (len(c) == 3 and c[2] == 'metadata.xml')))
    if c[0] in RESERVED_TOP or c[0] in DEFAULT_IGNORED_TOP:
        return None if looks_special else 'DATA'
    if len(c) == 3:
        if c[2].endswith('.ebuild'):
            return 'EBUILD'
        if c[2] == 'metadata.xml':
            return 'MISC'
        if c[2] == 'files':
            return None
        return 'DATA'
    if len(c) >= 4:
        if c[-1].endswith('.ebuild'):
            return None
        if c[2] == 'files':
            return 'AUX'
    return 'DATA'


def ref_settings(profile, o):
    """-> (hash set, sort demanded?, watermark or None, compression format)"""
    ebuildish = profile in ('ebuild', 'old-ebuild')
    hashes = tuple(o['H'].split()) if o.get('H') else (('BLAKE2B', 'SHA512') if ebuildish else None)
    sort = o['sort'] if o.get('sort') is not None else ebuildish
    wm = o['c'] if o.get('c') is not None else (128 if ebuildish else None)
    fmt = o['C'] if o.get('C') else 'gz'
    return hashes, sort, wm, fmt


# ------------------------------------------------------------------ reading the disk

def is_manifest_name(n):
    return n == 'Manifest' or (n.startswith('Manifest.') and n[9:] in ('gz', 'bz2', 'lzma', 'xz'))


def _j(d, n):
    return f'{d}/{n}' if d else n


class State:
    """dirs: rel -> (subdirs, files); man: manifest path -> dict(raw, text, entries);
    covered: full path -> set of tags of its file entries; ignores: full paths"""

    def __init__(self, root):
        self.dirs, self.man, self.covered, self.ignores, self.bad = {}, {}, {}, set(), []
        for dp, dn, fn in os.walk(root):
            rel = os.path.relpath(dp, root)
            rel = '' if rel == '.' else rel
            self.dirs[rel] = (sorted(dn), sorted(fn))
            for n in fn:
                if not is_manifest_name(n):
                    continue
                p = _j(rel, n)
                with open(os.path.join(dp, n), 'rb') as f:
                    raw = f.read()
                try:
                    text = decompress(raw, comp_of(n))
                    st, ents = rm.parse(text.decode('utf8'))
                except Exception as e:      # noqa: BLE001
                    text, st, ents = b'', 'unreadable', repr(e)
                if st != 'ok':
                    self.bad.append((p, st, ents))
                    ents = []
                self.man[p] = {'raw': raw, 'text': text, 'entries': ents, 'dir': rel, 'name': n}
                for e in ents:
                    if e[0] == 'IGNORE':
                        self.ignores.add(_j(rel, e[1]))
                    elif e[0] not in ('TIMESTAMP', 'DIST'):
                        self.covered.setdefault(_j(rel, rm.full_path(e[0], e[1])), set()).add(e[0])

    def manifest_dirs(self):
        out = {}
        for p, m in self.man.items():
            out.setdefault(m['dir'], []).append(m['name'])
        return out

    def reachable(self, ignores):
        out, stack = [], ['']
        while stack:
            d = stack.pop()
            out.append(d)
            for s in self.dirs[d][0]:
                p = _j(d, s)
                if not s.startswith('.') and p not in ignores:
                    stack.append(p)
        return out

    def data_files(self):
        for d, (_s, files) in self.dirs.items():
            for n in files:
                if not is_manifest_name(n):
                    yield _j(d, n)


# ------------------------------------------------------------------ edits

def _pkg0(sh, seed):
    pk = repogen.packages(sh, seed)
    return (pk[0][0], pk[0][1]) if pk else (None, None)


def _pkg_files(root, d):
    out = []
    for dp, dn, fn in os.walk(os.path.join(root, d)):
        dn[:] = sorted(x for x in dn if not x.startswith('.'))
        for n in sorted(fn):
            if not is_manifest_name(n) and not n.startswith('.'):
                out.append(os.path.relpath(os.path.join(dp, n), root))
    return sorted(out)


def _write(root, rel, data, mode='wb'):
    p = os.path.join(root, rel)
    os.makedirs(os.path.dirname(p), exist_ok=True)
    with open(p, mode) as f:
        f.write(data)


EDITS = ('change', 'add', 'delete', 'add_pkg', 'add_files', 'add_ts')


def apply_edit(root, sh, seed, edit):
    """-> True when the edit changed the tree."""
    cat, pkg = _pkg0(sh, seed)
    cats = repogen.categories(sh, seed)
    d = f'{cat}/{pkg}' if cat else None
    if edit == 'none':
        return True
    if edit == 'change':
        fs = _pkg_files(root, d) if d else []
        _write(root, fs[0] if fs else 'profiles/categories', b'+', 'ab')
        return True
    if edit == 'delete':
        fs = _pkg_files(root, d) if d else []
        if not fs:
            return False
        os.unlink(os.path.join(root, fs[-1]))
        return True
    if edit == 'add':
        if not d:
            return False
        _write(root, f'{d}/{pkg}-3.ebuild', b'third\n')
        return True
    if edit == 'add_pkg':
        if cats:
            _write(root, f'{cats[-1]}/zz-new/zz-new-1.ebuild', b'new package\n')
        else:
            _write(root, 'new-cat/zz-new/zz-new-1.ebuild', b'new package\n')
            _write(root, 'profiles/categories', b'new-cat\n', 'ab')
        return True
    if edit == 'add_files':
        if not d or os.path.isfile(os.path.join(root, d, 'files')):
            return False
        _write(root, f'{d}/files/new', b'aux\n')
        _write(root, f'{d}/files/sub2/z', b'')
        return True
    if edit == 'add_ts':
        _write(root, 'metadata/timestamp.x', b'1\n')
        _write(root, 'metadata/glsa/timestamp.commit', b'2\n')
        _write(root, 'metadata/glsa/g2', b'3\n')
        return True
    if edit == 'combo':
        apply_edit(root, sh, seed, 'change')
        apply_edit(root, sh, seed, 'add_pkg')
        apply_edit(root, sh, seed, 'add_files')
        return True
    raise ValueError(edit)


# ------------------------------------------------------------------ running gemato

def run_step(root, step):
    op, profile, o = step['op'], step['profile'], step['opts']
    if o.get('iface') == 'lib':
        from gemato.profile import get_profile_by_name      # driving only

        def go():
            kw = {'profile': get_profile_by_name(profile)}
            if o.get('H'):
                kw['hashes'] = o['H'].split()
            if o.get('sort') is not None:
                kw['sort'] = o['sort']
            if o.get('c') is not None:
                kw['compress_watermark'] = o['c']
            if o.get('C'):
                kw['compress_format'] = o['C']
            if op == 'create':
                kw['allow_create'] = True
            m = gem.loader(root, TOP, **kw)
            m.update_entries_for_directory('')
            m.save_manifests()
            return 0
        fn = (lambda: gem.call(go))
    else:
        argv = [op, '-p', profile]
        if o.get('H'):
            argv += ['-H', o['H']]
        if o.get('c') is not None:
            argv += ['-c', str(o['c'])]
        if o.get('C'):
            argv += ['-C', o['C']]
        argv.append(root)
        fn = (lambda: gem.cli(argv))
    order = step.get('order')
    if order:
        with seams.scandir_order(seams.order_reversed if order == 'reversed' else seams.order_sorted):
            return fn()
    return fn()


# ------------------------------------------------------------------ judging one step

def gemato_aux_typed(path):
    c = path.split('/')
    return c[2:3] == ['files']


def classify_crash(before, profile):
    """Input-side explanation of an internal error (for a narrow, stable signature): which
    not-yet-listed files would be typed AUX by an 'every path with third component files' rule
    and cannot be expressed relative to <Manifest dir>/files/."""
    if profile != 'old-ebuild':
        return 'unclassified'
    ign = set(before.ignores) | ({d for d in DEFAULT_IGNORED_TOP} if TOP not in before.man else set())
    reach = set(before.reachable(ign))
    mdirs = set(before.manifest_dirs())
    for d in reach:
        if ref_want_manifest(profile, d, before.dirs[d][0], before.dirs[d][1], ign):
            mdirs.add(d)
    causes = set()
    for p in before.data_files():
        d = os.path.dirname(p)
        if d not in reach or p in before.covered or p in ign or os.path.basename(p).startswith('.'):
            continue
        if not gemato_aux_typed(p):
            continue
        c = p.split('/')
        if len(c) == 3:
            causes.add('regular_file_named_files_in_package_typed_AUX')
            continue
        g = d
        while g not in mdirs:
            g = os.path.dirname(g)
        if g != '/'.join(c[:2]):
            causes.add('AUX_typed_file_not_governed_by_a_package_Manifest')
    for pref in ('regular_file_named_files_in_package_typed_AUX',
                 'AUX_typed_file_not_governed_by_a_package_Manifest'):
        if pref in causes:
            return pref
    return 'unclassified'


def expect_notimplemented(before, profile):
    """Is some name that a NEW Manifest would IGNORE by default already listed in a parent?"""
    ign = set(before.ignores)
    had = set(before.manifest_dirs())
    for d in before.reachable(ign):
        if d in had:
            continue
        if ref_want_manifest(profile, d, before.dirs[d][0], before.dirs[d][1], ign):
            for n in ref_default_ignores(profile, d):
                if _j(d, n) in before.covered:
                    return True
    return False


def sort_ok(entries):
    ks = [(e[0], rm.full_path(e[0], e[1]) if e[0] in rm.FILE_TAGS else e[1]) for e in entries]
    if ks == sorted(ks):
        return True
    lines = [rm.entry_line(e) for e in entries]
    return lines == sorted(lines)


def judge_step(root, before, after, step, stats=None):
    """-> list of (check, message, extra-sig); DONT_CARE reasons are counted on stats."""
    profile, o = step['profile'], step['opts']
    hashes, sort, wm, fmt = ref_settings(profile, o)
    bad = []

    def dc(reason):
        if stats is not None:
            stats.dontcare[reason] += 1

    def viol(check, msg, **extra):
        bad.append((check, msg, extra))

    if after.bad:
        viol('manifest_unparsable', f'{after.bad[:2]}')
        return bad
    ign = after.ignores
    reach = after.reachable(ign)
    reach_set = set(reach)
    had = before.manifest_dirs()
    have = after.manifest_dirs()
    # ---- placement
    for d in sorted(after.dirs):
        names = have.get(d, [])
        if d not in reach_set:
            if names and d not in had:
                viol('manifest_in_unwalked_directory', f'{d!r} (hidden or IGNOREd) got {names}',
                     kind='hidden' if any(c.startswith('.') for c in d.split('/')) else 'ignored')
            continue
        want = ref_want_manifest(profile, d, after.dirs[d][0], after.dirs[d][1], ign)
        if d in had:
            want = True
        if want is None:
            dc('placement: statement silent for this directory (hidden/IGNOREd sub-directories only, or deep *.ebuild)')
            continue
        klass = ('top' if d == '' else d if d.split('/')[0] in RESERVED_TOP else
                 f'depth{len(d.split("/"))}')
        if want and not names:
            viol('manifest_missing', f'policy names {d!r} but it holds no Manifest', dirclass=klass)
        elif not want and names:
            viol('manifest_unexpected', f'{d!r} holds {names} but the policy does not name it', dirclass=klass)
        elif len(names) > 1:
            viol('two_manifests_in_directory', f'{d!r} holds {names}', dirclass=klass)
        if stats is not None and names:
            stats.counters['manifest_dir/' + klass.split('/')[0]] += 1
    # ---- per Manifest written by this step
    for p, m in sorted(after.man.items()):
        old = before.man.get(p)
        written = old is None or old['raw'] != m['raw']
        d = m['dir']
        created = d not in had
        if created:
            got = sorted(e[1] for e in m['entries'] if e[0] == 'IGNORE')
            exp = sorted(ref_default_ignores(profile, d))
            if got != exp:
                viol('default_ignores', f'new Manifest in {d!r} has IGNORE {got}, documented {exp}',
                     dir=d if d in ('', 'metadata') or d.startswith('metadata/') else 'other')
            if stats is not None and exp:
                stats.counters['default_ignores_checked/' + (d or 'top')] += 1
        if not written:
            continue
        ents = [e for e in m['entries'] if e[0] in rm.FILE_TAGS and e[0] != 'DIST']
        if sort and not sort_ok(m['entries']):
            viol('not_sorted', f'{p}: {[ (e[0], e[1]) for e in m["entries"]]}')
        if wm is not None:
            has_ebuild = any(e[0] == 'EBUILD' for e in m['entries'])
            exp_c = p != 'Manifest' and d != '' and len(m['text']) >= wm and not (profile == 'old-ebuild' and has_ebuild)
            if d == '' and m['name'] != 'Manifest':
                viol('compression', f'top-level Manifest is named {m["name"]}', which='top')
            elif d != '':
                got_c = comp_of(m['name'])
                exp_name = f'Manifest.{fmt}' if exp_c else 'Manifest'
                if (got_c is not None) != exp_c or (got_c not in (None, 'gz') and not o.get('C')):
                    viol('compression', f'{p}: {len(m["text"])} bytes uncompressed, watermark {wm}, EBUILD entries: '
                         f'{has_ebuild}; expected {exp_name}',
                         which='package_with_EBUILD' if has_ebuild else
                         ('should_be_compressed' if exp_c else 'should_be_plain'))
                elif exp_c and got_c != fmt:
                    viol('compression', f'{p}: {len(m["text"])} bytes uncompressed, watermark {wm} '
                         f'({"given" if o.get("c") is not None else "profile default"}), compression format '
                         f'{fmt} ({"explicitly given" if o.get("C") else "default"}): stored as {m["name"]}, '
                         f'expected {exp_name}', which='wrong_format',
                         format_given=bool(o.get('C')), watermark_given=o.get('c') is not None)
                if stats is not None:
                    stats.counters['compression/' + ('gz' if exp_c else 'plain_ebuild' if has_ebuild and
                                                     profile == 'old-ebuild' else 'plain_small')] += 1
                    if o.get('C'):
                        stats.counters['explicit_format_outcome/' + ('compressed' if exp_c else 'plain')] += 1
                    if exp_c:
                        stats.counters[f'compression_format/{fmt}/' + ('given' if o.get('C') else 'default')] += 1
        if hashes is not None:
            for e in ents:
                full = _j(d, rm.full_path(e[0], e[1]))
                names_ = {k for k, _v in e[3]}
                new_entry = full not in before.covered
                if (names_ != set(hashes)) if new_entry else not (set(hashes) <= names_):
                    viol('hash_set', f'{p}: entry for {full} has {sorted(names_)}, wanted {sorted(hashes)}',
                         new_entry=new_entry)
                    break
    # ---- tags of new entries
    for full, tags in sorted(after.covered.items()):
        if full in before.covered or tags == {'MANIFEST'}:
            continue
        exp = ref_tag(profile, full)
        if exp == 'AUX':
            # an AUX path is written relative to <Manifest dir>/files/: when the closest Manifest is not the one
            # of the package directory (no ebuild, no metadata.xml, none pre-existing there; or a Manifest inside
            # files/) the prescribed tag is not expressible
            g = os.path.dirname(full)
            while g and g not in have:
                g = os.path.dirname(g)
            if g != '/'.join(full.split('/')[:2]):
                exp = None
        if exp is None:
            dc('tag: statement silent (deep *.ebuild / file named files / files-looking path outside a package / '
               'files/ of a directory without a package Manifest)')
            continue
        if stats is not None:
            stats.counters['tag/' + exp] += 1
        if tags != {exp}:
            viol('wrong_entry_tag', f'{full}: tags {sorted(tags)}, profile {profile} prescribes {exp}',
                 expected=exp, got=sorted(tags))
    # ---- verification
    v = refverify.expected_verify(root, TOP, '')
    if v.kind == 'dontcare':
        dc('reference verdict: ' + str(v.dc[0]))
    elif v.kind != 'match':
        viol('tree_not_described', f'reference verdict {v.kind}: offenders={dict(v.offenders)} chain={v.chain_broken} '
             f'conflicts={v.conflicts}', offenders=sorted(set(v.offenders.values())))
    fv = gem.lib_verify(root, TOP, '')
    if not (fv['kind'] == 'ret' and fv['value'] is True):
        viol('fresh_verify_fails', gem.brief(fv) + ' ' + str(fv.get('path')), got=gem.brief(fv))
    return bad


def check_case(case, scratch, stats=None):
    sh, seed = case['shape'], case['seed']
    root = fresh_root(scratch)
    repogen.build(sh, seed).write(root)
    out = []
    all_ok = True
    for n, step in enumerate(case['steps']):
        profile = step['profile']
        if step.get('edit'):
            if not apply_edit(root, sh, seed, step['edit']):
                if stats is not None:
                    stats.dontcare['edit not applicable to this shape'] += 1
                all_ok = False
                break
        before = State(root)
        r = run_step(root, step)
        if stats is not None:
            stats.evaluations += 1
            stats.transitions += 1
        ok = r['kind'] == 'ret' and r.get('value') == 0
        label = f'{step["op"]}/{profile}/{gem.brief(r)}'
        if stats is not None:
            stats.outcomes[label] += 1

        def emit(check, msg, extra):
            sig = {'check': check, 'profile': profile, 'op': step['op']}
            sig.update(extra)
            out.append({'sig': sig, 'case': case,
                        'message': f'{check} at step {n} ({step["op"]} -p {profile} opts={step["opts"]} '
                        f'order={step.get("order")} edit={step.get("edit")}; shape={sh}): {msg}'})
        if not ok:
            all_ok = False
            if r.get('exc') == 'NotImplementedError' and expect_notimplemented(before, profile):
                if stats is not None:
                    stats.dontcare['deliberate NotImplementedError: default-IGNOREd name already listed in a parent'] += 1
                    stats.outcomes['dontcare/NotImplementedError'] += 1
                break
            if stats is not None:
                stats.compared += 1
            if r.get('class') == 'internal':
                cause = classify_crash(before, profile)
                sig = {'cause': cause}
                if cause == 'unclassified':
                    sig.update(exc=r['exc'], where=r.get('where'))
                emit('internal_error', f'{r["exc"]} at {r.get("where")}: {r.get("msg")!r} (cause: {cause})', sig)
                # keep the op out of the signature: one defect -> one signature
                out[-1]['sig'].pop('op')
            else:
                emit('run_failed', f'{gem.brief(r)} exit={r.get("exit")} log={r.get("log", [])[-2:]}',
                     {'got': gem.brief(r)})
            break
        after = State(root)
        bad = judge_step(root, before, after, step, stats)
        if stats is not None:
            stats.transitions += 2
            stats.compared += 1
        for check, msg, extra in bad:
            emit(check, msg, extra)
        if bad:
            all_ok = False
            break
    return out, all_ok


def replay(case, scratch):
    return check_case(case, scratch)[0]


# ------------------------------------------------------------------ enumeration

CLI = {'H': None, 'c': None, 'sort': None, 'iface': 'cli'}


def opt(**kw):
    return dict(CLI, **kw)


def step(op, profile, o=None, order=None, edit=None):
    o = dict(o or CLI)
    if profile == 'default' and not o.get('H'):
        o['H'] = 'SHA1'            # the default profile implies no hash set
    return {'op': op, 'profile': profile, 'opts': o, 'order': order, 'edit': edit}


def base_cases(sh, seed, tier, fam):
    if fam == 'repo':        # the 2^16 family of the thorough tier
        yield 'create', [step('create', 'ebuild')]
        yield 'create', [step('create', 'old-ebuild', order='reversed')]
        return
    yield 'create', [step('create', 'default')]
    yield 'create', [step('create', 'ebuild')]
    yield 'create', [step('create', 'old-ebuild', order='sorted')]
    yield 'create', [step('create', 'old-ebuild', order='reversed')]
    if fam in ('pkg', 'alike', 'odd'):
        yield 'create', [step('create', 'ebuild', order='reversed')]


OVERRIDES = [opt(H='SHA1'), opt(H='SHA1', c=0), opt(c=10 ** 6), opt(iface='lib', sort=False),
             opt(iface='lib', sort=True, H='SHA1'), opt(iface='lib')]


def override_cases(sh, seed):
    for o, p in itertools.product(OVERRIDES, ('ebuild', 'old-ebuild')):
        yield 'override', [step('create', p, o, order='reversed' if o.get('sort') is not None else None)]
    yield 'override', [step('create', 'default', opt(H='SHA1', c=0))]
    yield 'override', [step('create', 'default', opt(iface='lib', sort=True, H='SHA1'), order='reversed')]
    yield 'override', [step('create', 'default', opt(iface='lib', sort=False, H='MD5 SHA1', c=150), order='reversed')]


EXPLICIT_FORMATS = {'quick': (None, 'bz2', 'xz', 'lzma'), 'thorough': (None, 'bz2', 'xz', 'lzma', 'gz')}
EXPLICIT_WATERMARKS = {'quick': (None, 0, 1), 'thorough': (None, 0, 1, 200)}
EXPLICIT_HASHES = (None, 'SHA1')
EXPLICIT_IFACE_SORT = (('cli', None), ('lib', None), ('lib', False), ('lib', True))


def explicit_cell(o):
    return 'C{}c{}H{}s{}/{}'.format(*(int(o.get(k) is not None) for k in ('C', 'c', 'H', 'sort')), o['iface'])


def explicit_cases(sh, seed, tier):
    """Full product of given / not given for the four overridable settings, both interfaces, both ebuild profiles."""
    for p, (iface, srt), fm, wm, hs in itertools.product(('ebuild', 'old-ebuild'), EXPLICIT_IFACE_SORT,
                                                         EXPLICIT_FORMATS[tier], EXPLICIT_WATERMARKS[tier],
                                                         EXPLICIT_HASHES):
        yield 'explicit', [step('create', p, opt(iface=iface, sort=srt, C=fm, c=wm, H=hs),
                                order='reversed' if iface == 'lib' else None)]


def sequence_cases(sh, seed, tier):
    for e in EDITS:
        for p in PROFILES:
            if tier == 'quick' and p == 'default' and e not in ('add_pkg', 'delete'):
                continue
            yield 'edit_update', [step('create', p), step('update', p, edit=e)]
    for p, q in itertools.permutations(PROFILES, 2):
        for e in ('none', 'combo'):
            yield 'profile_switch', [step('create', p), step('update', q, edit=e)]
    # three steps: edit+update twice with the backwards-compatible profile in the middle
    yield 'three_steps', [step('create', 'ebuild'), step('update', 'old-ebuild', edit='add'),
                          step('update', 'ebuild', edit='add_files')]
    yield 'three_steps', [step('create', 'old-ebuild'), step('update', 'old-ebuild', edit='delete'),
                          step('update', 'old-ebuild', edit='add_pkg')]


def watermark_cases(sh, seed, scratch):
    """-c S and -c S+1 where S is the uncompressed size of a real sub-Manifest (probed with -c 10^6)."""
    root = fresh_root(scratch)
    repogen.build(sh, seed).write(root)
    r = run_step(root, step('create', 'ebuild', opt(H='SHA1', c=10 ** 6)))
    if not (r['kind'] == 'ret' and r['value'] == 0):
        return
    st = State(root)
    sizes = sorted({len(m['text']) for p, m in st.man.items() if m['dir'] != ''})
    for s in sizes[:2]:
        for p in ('ebuild', 'old-ebuild'):
            yield 'watermark', [step('create', p, opt(H='SHA1', c=s))]
            yield 'watermark', [step('create', p, opt(H='SHA1', c=s + 1))]


NSHARDS = 96


def shards(tier, seed):
    n = NSHARDS if tier == 'quick' else 4 * NSHARDS
    return [(i, n) for i in range(n)]


def run_shard(spec, tier, seed, scratch):
    i, n = spec
    stats = Stats()
    allshapes = repogen.shapes(tier)
    for idx in range(i, len(allshapes), n):
        fam, sh = allshapes[idx]
        stats.counters['shapes'] += 1
        stats.counters['shapes/' + fam] += 1
        if repogen.has_all_optional(sh):
            stats.counters['shapes_with_every_optional_component'] += 1
        gens = [base_cases(sh, seed, tier, fam)]
        full_repo = set(sh['repo']) >= set(repogen.REPO)
        grid = (len(sh['cats']), max([len(c) for c in sh['cats']] or [0]))
        small = grid in ((1, 1), (1, 2), (2, 1), (2, 2))
        if tier == 'quick':
            over = fam in ('pkg', 'odd') or (fam == 'alike' and full_repo)
            seq = fam in ('pkg', 'odd') and ((full_repo and grid in ((1, 1), (2, 2))) or grid == (1, 1))
        else:
            over = fam in ('pkg', 'alike', 'odd') and (grid != (4, 4) or full_repo)
            full_pkg = set(repogen.PKG_FULL)
            first_varies = all(set(p) == full_pkg for ci, c in enumerate(sh['cats']) for pi, p in enumerate(c)
                               if (ci, pi) != (0, 0))
            seq = fam == 'odd' or (fam == 'pkg' and (small or (full_repo and grid == (4, 4) and first_varies))) or \
                (fam == 'alike' and full_repo and grid[0] == grid[1])
        if over:
            gens.append(override_cases(sh, seed))
        if tier == 'quick':
            expl = (fam == 'odd' and full_repo) or (fam in ('pkg', 'alike') and repogen.has_all_optional(sh)) or \
                (fam == 'alike' and full_repo and grid[1] == 0)
        else:
            expl = fam == 'odd' or (fam in ('pkg', 'alike') and repogen.has_all_optional(sh)) or \
                (fam == 'alike' and full_repo and (grid[1] == 0 or grid[0] == grid[1]))
        if expl:
            stats.counters['shapes_explicit'] += 1
            gens.append(explicit_cases(sh, seed, tier))
        if seq:
            gens.append(sequence_cases(sh, seed, tier))
            gens.append(watermark_cases(sh, seed, scratch))
        elif fam == 'meta' and not (set(sh['repo']) & set(repogen.OTHER)):
            gens.append(c for c in sequence_cases(sh, seed, tier) if c[0] == 'profile_switch' or
                        c[1][-1].get('edit') == 'add_ts')
        for kind, steps in itertools.chain(*gens):
            case = {'shape': sh, 'seed': seed, 'steps': steps}
            desc = (repogen.key(sh), tuple((s['op'], s['profile'], tuple(sorted(s['opts'].items())), s['order'],
                                            s['edit']) for s in steps))
            vs, ok = check_case(case, scratch, stats)
            stats.case(desc, nontrivial=ok)
            stats.counters['sequences/' + kind] += 1
            if ok:
                stats.counters['sequences_ok/' + kind] += 1
            if kind == 'explicit':
                cell = explicit_cell(steps[0]['opts'])
                stats.counters['explicit_cell/' + cell] += 1
                if ok:
                    stats.counters['explicit_cell_ok/' + cell] += 1
            if len(stats.samples) < 1 and kind == 'edit_update' and ok:
                stats.sample({'shape': sh, 'steps': steps})
            for x in vs:
                stats.violation(x['sig'], x['case'], x['message'])
    return stats


def finish(total, tier):
    errs = []
    c = total.counters
    for p in PROFILES:
        if not any(k.startswith(f'create/{p}/ret:0') for k in total.outcomes):
            errs.append(f'vacuity: no successful create with profile {p}')
        if not any(k.startswith(f'update/{p}/ret:0') for k in total.outcomes):
            errs.append(f'vacuity: no successful update with profile {p}')
    for kind in ('create', 'override', 'edit_update', 'profile_switch', 'three_steps', 'watermark', 'explicit'):
        if c.get('sequences_ok/' + kind, 0) < 1:
            errs.append(f'vacuity: no fully successful sequence of kind {kind}')
    for t in ('DATA', 'EBUILD', 'MISC', 'AUX'):
        if c.get('tag/' + t, 0) < 1:
            errs.append(f'vacuity: no new entry with prescribed tag {t} was judged')
    for k in ('compression/gz', 'compression/plain_ebuild', 'compression/plain_small'):
        if c.get(k, 0) < 1:
            errs.append(f'vacuity: compression class {k} never judged')
    for f_ in EXPLICIT_FORMATS[tier]:
        k = f'compression_format/{f_}/given' if f_ else 'compression_format/gz/default'
        if c.get(k, 0) < 1:
            errs.append(f'vacuity: no Manifest expected in compression format {k.split("/", 1)[1]} was judged')
    for C_, c_, H_, (iface, s_) in itertools.product((0, 1), (0, 1), (0, 1), sorted({(i, int(s is not None)) for i, s in
                                                                                    EXPLICIT_IFACE_SORT})):
        cell = f'C{C_}c{c_}H{H_}s{s_}/{iface}'
        if c.get('explicit_cell/' + cell, 0) < 1:
            errs.append(f'vacuity: explicit-override cell {cell} was never explored')
    for k in ('compressed', 'plain'):
        if c.get('explicit_format_outcome/' + k, 0) < 1:
            errs.append(f'vacuity: with an explicit compression format no sub-Manifest expected {k} was judged '
                        '(single outcome class)')
    for d in ('top', 'metadata', 'metadata/dtd', 'metadata/glsa', 'metadata/news', 'metadata/xml-schema'):
        if c.get('default_ignores_checked/' + d, 0) < 1:
            errs.append(f'vacuity: default IGNORE lines of {d} never judged')
    for k in ('manifest_dir/top', 'manifest_dir/eclass', 'manifest_dir/licenses', 'manifest_dir/metadata',
              'manifest_dir/profiles', 'manifest_dir/depth1', 'manifest_dir/depth2'):
        if c.get(k, 0) < 1:
            errs.append(f'vacuity: placement class {k} never seen')
    if total.outcomes.get('dontcare/NotImplementedError', 0) < 1:
        errs.append('vacuity: the deliberate NotImplementedError region was never reached')
    if c.get('shapes_with_every_optional_component', 0) < 1:
        errs.append('vacuity: no shape with every optional component')
    if total.compared < 5000:
        errs.append(f'vacuity: only {total.compared} steps judged')
    return errs


def extra_evidence(total, tier):
    return {'space': {k: v for k, v in sorted(total.counters.items()) if k.startswith(('shapes', 'sequences/', 'explicit_cell/',
                                                                                    'compression_format/'))}}
