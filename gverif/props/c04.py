"""C04 — only the OpenPGP-signed content of a signed Manifest is ever used.

Part A: every sequence of <= L lines over an alphabet of 14 concrete line classes
(with / without final newline) is loaded by the real ``ManifestFile.load`` three
times (verification off / on with a recording environment that accepts / that
raises) and judged against a reference acceptor written from the property
statement and RFC 4880 section 7 (gverif/c04ref.py; it knows nothing about
gemato's state machine).

Part T (two-message family): every document FIRST SEP TAIL where FIRST is a
complete well-formed signed block whose body is nothing / a blank / a
whitespace-only line / one entry / one dash-escaped entry, SEP is nothing or a
blank line, and TAIL is any line sequence starting with a non-blank line (<= 3
lines over all 14 classes with / without final newline, 4..5 lines over the 7
core classes; thorough: <= 4 and 5..6, also FIRST with armor header and
signature text, SEP whitespace-only) - i.e. a second complete signed message,
a partial one, stray armor, entries, junk and all their mixes after a complete
first message, including a first message that signs no entries.  Same three load
modes and same reference acceptor as Part A: a Manifest holds at most one signed
block; whatever non-blank follows its END line is unsigned data / misplaced
armor, and only that block may be handed to verification.

Part S (separator-character family): a line ends at LF only.  For each of the
characters VT FF FS GS RS NEL U+2028 U+2029 and a lone mid-line CR (line ends
for str.splitlines(), not for a Manifest), written once or twice and followed
by nothing / a valid entry / an exact BEGIN-SIGNED / BEGIN-SIGNATURE /
END-SIGNATURE line, the carrier lines 'Key: value<z..>payload' (armor-header /
signature text), 'word<z..>payload' (junk) (thorough: + '- word<z..>payload')
are placed in every slot of the frame [pre] SB [hdr] blank [body] GB [sig] GE
[post] (each slot empty or one line out of entry / carriers; at least one
carrier) and every non-empty prefix of every such frame is loaded in the same
three modes and judged by the same reference acceptor, for which the carrier
is ONE ordinary line: nothing after the separator is an entry, an armor line
or a blank line, and the text handed to verification contains the separator
characters unchanged.

Part B: genuinely gpg-signed Manifests, every single textual mutation from a
fixed menu, ``load(verify_openpgp=True)`` with the real isolated gpg environment;
whenever load succeeds, ``gpg --decrypt`` of the same text in the same GNUPGHOME
must succeed too and the reference-parsed entries of the cleartext gpg printed
must equal the loaded entries.
"""

import atexit
import collections
import importlib.util
import io
import itertools
import os
import subprocess
import sys
import tempfile

import gemato.exceptions as gx
from gemato.manifest import ManifestFile
from gemato.openpgp import GNUPG, GNUPGCONF, IsolatedGPGEnvironment

from gverif import c04ref as ref
from gverif import refmanifest as rm
from gverif.evidence import Stats

PID = 'C04'
LEVEL = 'model_checking'
RULE = ('Part A: plain product enumeration of ALL line sequences of length <= L (L=5 quick, 6 thorough) over '
        '14 concrete line classes (3 exact armor lines, the same 3 with trailing whitespace, another armor line, '
        'blank, whitespace-only, armor-header/base64 text, valid entry, dash-escaped valid entry, dash-escaped '
        'armor line, junk), each with and without final newline (a document whose last line is empty and '
        'unterminated is textually identical to a shorter one and is skipped, so every enumerated document is '
        'distinct by construction), each loaded with verify_openpgp off / on+env accepts / on+env raises; '
        'a document is a state, a line fetched by load is a transition; non-trivial = the document contains at '
        'least one armor-like or dash-escaped line and the reference verdict is definite. '
        'Part T (two-message family): plain product enumeration of ALL documents FIRST SEP TAIL with FIRST = a '
        'complete well-formed signed block SB hdr blank body GB sig GE, body in {nothing, blank, whitespace-only, '
        'valid entry, dash-escaped valid entry}, (hdr, sig) = (none, none) (thorough: also (armor-header text, '
        'base64 text)); SEP in {nothing, blank} (thorough: + whitespace-only); TAIL = nothing (the first block on '
        'its own, with / without final newline) or a line sequence whose first line is non-blank: every such '
        'sequence of <= F lines over all 14 classes with and without final newline, and every such sequence of '
        'F+1..C lines over the 7 core classes {SB, GB, GE, blank, hdr/b64, entry, dash-escaped entry} with final '
        'newline; (F, C) = (3, 5) quick, (4, 6) thorough - so every complete second signed message with <= C-4 '
        'header/body/signature lines, every partial one, stray armor lines, entries, junk and their mixes after a '
        'complete first message are covered; TAIL starts non-blank because blanks after the block are the SEP '
        'dimension, which makes every document of the family distinct by construction (those of <= L lines also '
        'occur in Part A and are subtracted from the distinct-document count); loaded in the same three modes and '
        'judged by the same reference acceptor as Part A; all are non-trivial (they contain armor). '
        'Part S (separator-character family): a Manifest line ends at LF and nowhere else; for every z in {VT, FF, '
        'FS, GS, RS, NEL, U+2028, U+2029, lone mid-line CR} (each a line end for str.splitlines / Unicode line '
        'breaking), s in {z, zz}, payload in {nothing, a valid entry unlike any other entry of the alphabet, the exact '
        'SB line, the exact GB line, the exact GE line} (9 x 2 x 5 = 90 alphabets) the carrier lines HD = '
        "'Key: value' s payload (armor-header / signature-block text), JK = word s payload (junk: first field is no "
        "Manifest tag however the line is split), thorough also DAR = '- ' word s payload, replace the plain HD / JK / "
        'DAR classes; documents = ALL distinct non-empty line prefixes of ALL frames [pre] SB [hdr] blank [body] GB '
        '[sig] GE [post] whose five slots are each empty or hold one line out of {entry, HD, JK} (thorough: + '
        "'- entry', DAR) and that contain at least one carrier line, with final newline (thorough: also without) - "
        '1302 documents per alphabet quick (117180 in all), 17907 thorough (1611630 in all); each contains a carrier, '
        'so all are distinct from each other and from Part A / T by construction; loaded in the same three modes and '
        'judged by the same reference acceptor as Part A (the carrier is one ordinary line of its class: nothing '
        'behind the separator is an entry, a blank line or armor; the block text handed to verification contains it '
        'verbatim); all are non-trivial. '
        'Part B: 5 gpg-clearsigned Manifests x every single mutation of a fixed menu (insert each of the 14 line '
        'classes at each position, delete/duplicate each line, move each line to each position (quick: first '
        'base only), CRLF / bare CR per line, add/remove dash-escape per line, trailing whitespace per line, '
        'inject Hash/Comment/NotDashEscaped headers at the three header positions, leading/trailing blanks, '
        'strip final newline, concatenate signed messages, prepend/append entries); distinct = distinct '
        'mutated text; non-trivial = differs from the unmutated signed text')
ASSUMPTIONS = [
    'reference acceptor gverif/c04ref.py restates the statement + RFC 4880 section 7 (cleartext signature '
    'framework) and is trusted; entry syntax is judged by gverif/refmanifest.py',
    'arguable documents are judged under every defensible reading (armor line with trailing whitespace = '
    'look-alike or = armor; header / signature-block content strict or opaque; END line without final newline '
    '= truncated or fine): the implementation must satisfy at least one reading; they are counted as DONT_CARE '
    'when the readings disagree on accept/reject',
    'small scope: <= 5 (quick) / 6 (thorough) lines, one concrete representative per line class (rotated by '
    'VERIF_SEED), LF line ends in Part A; CR/CRLF only in Part B',
    'Part T bound: one complete first block (2 forms) followed by <= 6 further lines; first blocks with more '
    'than one body line, more than one header / signature line, or a malformed first block followed by a long '
    'tail are only covered as far as Part A (<= L lines) reaches; tails of more than F lines use the 7 core '
    'classes only (no whitespace-suffixed armor, other armor, whitespace-only, dash-escaped armor, junk lines)',
    'a document that is invalid only because of content outside an in-itself well-formed signed block may have '
    'exactly that block (BEGIN line through END line) handed to verification before it is rejected - the '
    'statement fixes WHAT is handed over, not WHEN; nothing else may ever be handed over',
    'Part S: lines are what the text stream yields (LF-terminated, io.StringIO without newline translation) and '
    'what RFC 4880 section 7 delimits; VT FF FS GS RS NEL U+2028 U+2029 and a CR that is not followed by LF are '
    'ordinary characters of a line.  Bound: one separator kind per document, written once or twice, in at most one '
    'line per slot of a single frame, carriers with a header-like or junk prefix only.  A raw separator inside an '
    'entry line, at the start of a line, or a line made of separators only are NOT explored: the path escape rules '
    'demand \\xNN / \\uNNNN for all of them, so whether / how such a line splits into fields or counts as blank is '
    'arguable (refmanifest.split_fields: don\'t-care); a file opened in text mode translates a lone CR to LF '
    'before load sees it, that layer is out of scope here (Part B has CR / CRLF mutations judged by gpg)',
    'Part B trusts GnuPG 2.2 (--decrypt output = the cleartext it authenticated) and a single RSA test key in '
    'an isolated GNUPGHOME; loads go through io.StringIO (no universal-newline translation as with real files)',
    'Part A openpgp_env is a recording stub: it shows WHAT is handed to verification, not whether gpg agrees '
    '(that is Part B / C05)',
]

MODES = ('off', 'ok', 'raise')
SAMPLE_DOCS = {
    ((ref.SB, ref.BL, ref.DVE, ref.GB, ref.GE), True),      # valid signed, dash-escaped entry
    ((ref.VE, ref.SB, ref.BL, ref.GB, ref.GE), True),       # entry before the signed block
    ((ref.SB, ref.BL, ref.GB, ref.GE, ref.VE), False),      # entry after the signed block
    ((ref.SB, ref.VE, ref.BL, ref.GB, ref.GE), True),       # entry line in armor-header position (arguable)
}
STATE_NAMES = {0: 'DATA', 1: 'SIGNED_PREAMBLE', 2: 'SIGNED_DATA', 3: 'SIGNATURE', 4: 'POST_SIGNED_DATA'}
DUMMY_SIG = object()


def tier_len(tier):
    return 5 if tier == 'quick' else 6


# ====================================================================== Part A

class _RecEnv:
    """Recording stand-in for an OpenPGP environment."""
    __slots__ = ('calls', 'fail')

    def __init__(self, fail):
        self.calls = []
        self.fail = fail

    def verify_file(self, f):
        self.calls.append(f.read())
        if self.fail:
            raise gx.OpenPGPVerificationFailure('recording environment refuses the signature')
        return DUMMY_SIG


class _TracedFile(io.StringIO):
    """The stream handed to load() in mode 'off': a real text stream (LF-terminated lines, no newline
    translation, so read() / readline() work as well) that records load's local ``state`` at every line
    fetched by iteration (None when unavailable) and once more at the end of the stream."""

    def __init__(self, text, trace):
        super().__init__(text)
        self._trace = trace

    def __next__(self):
        try:
            self._trace.append(sys._getframe(1).f_locals.get('state'))
        except Exception:           # noqa: BLE001 - enrichment only
            self._trace.append(None)
        return super().__next__()


def _where(e):
    tb = e.__traceback__
    last = None
    while tb is not None:
        fn = tb.tb_frame.f_code.co_filename
        if '/gemato/' in fn:
            last = (os.path.basename(fn), tb.tb_frame.f_code.co_name)
        tb = tb.tb_next
    return '%s:%s' % last if last else 'outside-gemato'


def load_observe(src, mode):
    """Run the real load -> (exc_name|None, entries, signed, sig_is_dummy, calls, where)."""
    env = _RecEnv(mode == 'raise')
    m = ManifestFile()
    exc = where = None
    try:
        m.load(src, verify_openpgp=(mode != 'off'), openpgp_env=env)
    except Exception as e:          # noqa: BLE001 - observation
        exc = type(e).__name__
        if not isinstance(e, gx.GematoException):
            where = _where(e)
    try:
        ents = [rm.from_gemato(x) for x in m.entries]
    except Exception as e:          # noqa: BLE001
        ents = [('<unconvertible entry>', repr(e))]
    return (exc, ents, bool(m.openpgp_signed), m.openpgp_signature is DUMMY_SIG, env.calls, where)


def satisfies(v, mode, o):
    """Does observation o meet every demand of reading-verdict v?"""
    exc, ents, signed, sigis, calls, _w = o
    k = v.kind
    if k == 'VU':
        return exc is None and ents == v.entries and not signed and not calls
    if k == 'VS':
        if mode == 'off':
            return exc is None and ents == v.entries and not signed and not calls
        if mode == 'ok':
            return exc is None and ents == v.entries and signed and sigis and calls == [v.text]
        return (exc == 'OpenPGPVerificationFailure' and calls == [v.text] and not signed
                and (ents == v.entries or not ents))
    if signed:
        return False
    if exc in v.allowed and not calls:
        return True
    if v.block_text is not None and mode != 'off' and calls == [v.block_text]:
        # the signed block is well-formed in itself and only its body is not a Manifest and / or there is
        # content outside it: handing exactly that block to verification before (or while) rejecting the
        # document is within the statement ("exactly the text from the BEGIN line through the END line
        # is what is handed to verification"), and so is failing on the refused signature first
        return exc in v.allowed or (mode == 'raise' and exc == 'OpenPGPVerificationFailure')
    return False


def diagnose(v, mode, o):
    exc, ents, signed, sigis, calls, where = o
    if where is not None:
        return 'internal_error'
    if v.kind in ('VU', 'VS'):
        want_call = v.kind == 'VS' and mode != 'off'
        if calls and not want_call:
            return 'verify_called_without_reason'
        if want_call and not calls:
            return 'verify_not_called'
        if want_call and calls != [v.text]:
            return 'verify_text_mismatch'
        if exc is not None and not (want_call and mode == 'raise' and exc == 'OpenPGPVerificationFailure'):
            return 'rejected_valid_document'
        if exc is None and want_call and mode == 'raise':
            return 'verification_failure_swallowed'
        if ents != v.entries:
            return 'entries_differ_from_signed_cleartext'
        return 'openpgp_signed_flag_wrong'
    if exc is None:
        return 'accepted_invalid_document'
    if calls:
        return 'verify_called_on_invalid_document'
    if signed:
        return 'openpgp_signed_flag_wrong'
    return 'wrong_rejection_class'


def judge_doc(A, seq, final_nl, observations, part='A'):
    """observations: {mode: o}.  -> (refkind, dc_reason|None, verdicts, violations[(mode, sig, msg)])"""
    verdicts, dc = ref.readings(A, seq, final_nl)
    v0 = verdicts[0]
    viols = []
    for mode, o in observations.items():
        if any(satisfies(v, mode, o) for v in verdicts):
            continue
        accepted = o[0] is None or (mode == 'raise' and o[0] == 'OpenPGPVerificationFailure' and bool(o[4]))
        pick = v0
        for v in verdicts:
            if (v.kind != 'INV') == accepted:
                pick = v
                break
        check = diagnose(pick, mode, o)
        got = 'ret' if o[0] is None else 'exc:' + o[0]
        sig = {'part': part, 'check': check, 'mode': mode, 'got': got,
               'ref': pick.kind if pick.kind != 'INV' else 'INV:' + '+'.join(sorted(pick.allowed)),
               'defects': ','.join(sorted(set(pick.defects))), 'arguable': bool(dc)}
        if o[5] is not None:
            sig['where'] = o[5]
        msg = (f'{check}: document {ref.show(A, seq, final_nl)} mode={mode}: reference {sig["ref"]}'
               f' (defects: {sig["defects"] or "none"}; expected entries {pick.entries!r}), load gave {got}'
               f' entries={o[1]!r} openpgp_signed={o[2]} verify_file calls={o[4]!r}')
        viols.append((mode, sig, msg))
    return v0, dc, verdicts, viols


def run_doc(A, seq, final_nl, stats, loc, seed, part='A', akey=None):
    lines = [A.lines_nl[c] for c in seq]
    text = ''.join(lines)
    if not final_nl:
        text = text[:-1]
        lines[-1] = lines[-1][:-1]
    obs = {}
    trace = []
    obs['off'] = load_observe(_TracedFile(text, trace), 'off')
    fed = len(trace) - 1 if (trace and len(trace) == len(lines) + 1) else len(trace)
    stats.transitions += fed
    for mode in ('ok', 'raise'):
        f = io.StringIO(text)
        obs[mode] = load_observe(f, mode)
        pos = f.tell()
        stats.transitions += text.count('\n', 0, pos) + (1 if (pos == len(text) and text and not text.endswith('\n')) else 0)
    v0, dc, verdicts, viols = judge_doc(A, seq, final_nl, obs, part)

    # bookkeeping
    stats.evaluations += 3
    loc['docs'] += 1
    if dc:
        stats.dontcare[dc] += 3
        refkind = 'DC'
    else:
        stats.compared += 3
        refkind = v0.kind
        if ref.nontrivial(seq):
            loc['nontrivial'] += 1
    for mode in MODES:
        o = obs[mode]
        stats.outcomes[f'{part}:{refkind}/{mode}/{"ret" if o[0] is None else "exc:" + o[0]}'] += 1
    for v in verdicts:
        for d in v.defects:
            loc['defects'][d] += 1
    # (reference position, implementation state) pairs and FSM transitions
    pos0 = v0.pos
    fsm, pairs = loc['fsm'], loc['pairs']
    for k, c in enumerate(seq):
        if k >= len(trace):
            break
        st = trace[k]
        if st is None:
            loc['trace_missing'] += 1
            continue
        nxt = trace[k + 1] if k + 1 < len(trace) else 'raise'
        fsm.add((st, c, nxt))
        pairs.add((pos0[k], st))
    loc['refpos'].update(zip(pos0, seq))
    if refkind == 'VS' and v0.entries:
        loc['vs_entries'] += 1
        if ref.DVE in seq:
            loc['vs_dash'] += 1
    if (seq, final_nl) in SAMPLE_DOCS:
        stats.sample({'part': part, 'classes': [ref.CLASS_NAMES[c] for c in seq], 'document': text,
                      'reference': {'VS': 'valid signed', 'VU': 'valid unsigned', 'DC': 'DONT_CARE: ' + (dc or ''),
                                    'INV': 'invalid (%s) -> %s' % (','.join(sorted(set(v0.defects))), '/'.join(sorted(v0.allowed)))}[refkind],
                      'expected_entries': repr(v0.entries), 'text_for_verify_file': v0.text,
                      'observed': {m: ('ret' if obs[m][0] is None else obs[m][0]) + ' entries=%r verify_calls=%d' % (obs[m][1], len(obs[m][4]))
                                   for m in MODES}})
    for mode, sig, msg in viols:
        case = {'part': part, 'seed': seed, 'classes': list(seq), 'final_nl': final_nl, 'mode': mode, 'text': text}
        if akey is not None:
            case['alpha'] = list(akey)
        stats.violation(sig, case, msg)
    return refkind, obs


def a_docs(prefix, L):
    """All documents (seq, final_nl) with the given class prefix and length <= L."""
    for k in range(0, L - len(prefix) + 1):
        for suffix in itertools.product(range(ref.NCLASS), repeat=k):
            seq = prefix + suffix
            yield seq, True
            if seq[-1] != ref.BL:     # '' unterminated == the shorter document
                yield seq, False


def _new_loc():
    return {'docs': 0, 'nontrivial': 0, 'defects': collections.Counter(), 'fsm': set(),
            'pairs': set(), 'refpos': set(), 'trace_missing': 0, 'vs_entries': 0, 'vs_dash': 0}


def _emit(loc, stats, P):
    c = stats.counters
    c[P + '_documents'] += loc['docs']
    c[P + '_documents_nontrivial'] += loc['nontrivial']
    c[P + '_trace_missing'] += loc['trace_missing']
    c[P + '_valid_signed_with_entries'] += loc['vs_entries']
    c[P + '_valid_signed_with_dash_escaped_entry'] += loc['vs_dash']
    for d, n in loc['defects'].items():
        c[P + '_defect:' + d] += n
    for st, cl, nxt in loc['fsm']:
        c[f'{P}_fsm:{st}:{cl}:{nxt}'] += 1
    for p, st in loc['pairs']:
        c[f'{P}_pair:{p}:{st}'] += 1
    for p, cl in loc['refpos']:
        c[f'{P}_refpos:{p}:{cl}'] += 1


def a_run(spec, tier, seed, stats):
    A = ref.alphabet(seed)
    L = tier_len(tier)
    loc = _new_loc()
    if spec[1] == 'short':
        docs = [((), False)]
        for c in range(ref.NCLASS):
            docs.append(((c,), True))
            if c != ref.BL:
                docs.append(((c,), False))
    else:
        docs = a_docs((spec[1], spec[2]), L)
    for seq, final_nl in docs:
        if not seq:
            # the empty document: no line at all
            o = {m: load_observe(io.StringIO(''), m) for m in MODES}
            v0, dc, _vs, viols = judge_doc(A, (), False, o)
            stats.evaluations += 3
            stats.compared += 3
            loc['docs'] += 1
            for m in MODES:
                stats.outcomes[f'A:{v0.kind}/{m}/{"ret" if o[m][0] is None else "exc:" + o[m][0]}'] += 1
            for mode, sig, msg in viols:
                stats.violation(sig, {'part': 'A', 'seed': seed, 'classes': [], 'final_nl': False,
                                      'mode': mode, 'text': ''}, msg)
            continue
        run_doc(A, seq, final_nl, stats, loc, seed)
    _emit(loc, stats, 'A')


def a_replay(case):
    if case.get('alpha') is not None:
        A = s_alphabet(case['seed'], *case['alpha'])
    else:
        A = ref.alphabet(case['seed'])
    seq = tuple(case['classes'])
    final_nl = case['final_nl']
    text = ''.join(A.lines_nl[c] for c in seq)
    if seq and not final_nl:
        text = text[:-1]
    mode = case['mode']
    o = load_observe(io.StringIO(text), mode)
    _v0, _dc, _vs, viols = judge_doc(A, seq, final_nl, {mode: o}, case['part'])
    return [{'sig': sig, 'case': case, 'message': msg} for _m, sig, msg in viols]


# ====================================================================== Part T (two-message family)
#
#   document := FIRST SEP TAIL
#   FIRST    := SB hdr BLANK body GB sig GE          a complete, well-formed signed block
#                 (hdr, sig) in {(none, none)} quick, + {(hdr/b64, hdr/b64)} thorough
#                 body in {nothing, blank, ws, entry, '- entry'}
#   SEP      := nothing | blank  (| ws: thorough)
#   TAIL     := nothing                                          (FIRST SEP alone: the accepted anchors)
#             | c0 c1 .. ck-1, c0 non-blank, k <= F, over all 14 classes, with and without final newline
#             | c0 c1 .. ck-1, c0 non-blank, F < k <= C, over the 7 core classes T_CORE, final newline
#               (F, C) = (3, 5) quick, (4, 6) thorough
#
# TAIL therefore covers every complete second block with <= C-4 body/header/signature lines, every partial
# second block, stray armor lines, entries, junk and any mix of them.  The first line of TAIL is non-blank
# because blanks between the block and the tail are the SEP dimension; this makes (FIRST, SEP, TAIL) ->
# text injective, so every document of the family is distinct by construction.  Judged by the same reference
# acceptor and the same three load modes as Part A (a Manifest holds at most one signed block: whatever
# non-blank follows the END line is unsigned data / misplaced armor).

T_BODIES = ((), (ref.BL,), (ref.WS,), (ref.VE,), (ref.DVE,))
T_CORE = (ref.SB, ref.GB, ref.GE, ref.BL, ref.HD, ref.VE, ref.DVE)
T_BLANK = (ref.BL, ref.WS)
T_NONBLANK = tuple(c for c in range(ref.NCLASS) if c not in T_BLANK)
T_SAMPLE = ((ref.SB, ref.BL, ref.GB, ref.GE, ref.SB, ref.BL, ref.VE, ref.GB, ref.GE), True)
SAMPLE_DOCS.add(T_SAMPLE)


def t_bounds(tier):
    """-> (forms, seps, F, C)"""
    if tier == 'quick':
        return (((), ()),), ((), (ref.BL,)), 3, 5
    return (((), ()), ((ref.HD,), (ref.HD,))), ((), (ref.BL,), (ref.WS,)), 4, 6


def t_prefixes(tier):
    """-> [(first block classes, separator classes, body classes)]"""
    forms, seps, _f, _c = t_bounds(tier)
    out = []
    for hdr, sig in forms:
        for body in T_BODIES:
            first = (ref.SB,) + hdr + (ref.BL,) + body + (ref.GB,) + sig + (ref.GE,)
            for sep in seps:
                out.append((first, sep, body))
    return out


def t_docs(prefix, c0, tier):
    """All family documents (seq, final_nl) with the given FIRST/SEP whose TAIL starts with class c0
    (plus, in the shard of the first non-blank class, the TAIL-less documents)."""
    first, sep, _body = prefix
    _forms, _seps, F, C = t_bounds(tier)
    head = first + sep
    if c0 == T_NONBLANK[0]:
        yield head, True
        if head[-1] != ref.BL:
            yield head, False
    for k in range(1, F + 1):
        for rest in itertools.product(range(ref.NCLASS), repeat=k - 1):
            seq = head + (c0,) + rest
            yield seq, True
            if seq[-1] != ref.BL:
                yield seq, False
    if c0 in T_CORE:
        for k in range(F + 1, C + 1):
            for rest in itertools.product(T_CORE, repeat=k - 1):
                yield head + (c0,) + rest, True


def t_expected(tier):
    """Size of the stated space (closed form, independent of the generator)."""
    _forms, _seps, F, C = t_bounds(tier)
    nb = len(T_NONBLANK)
    per = sum(2 * nb * ref.NCLASS ** (k - 1) for k in range(1, F + 1))
    per -= sum(nb * ref.NCLASS ** (k - 2) for k in range(2, F + 1))         # unterminated '' last line
    per += sum(len([c for c in T_CORE if c not in T_BLANK]) * len(T_CORE) ** (k - 1) for k in range(F + 1, C + 1))
    total = 0
    for _first, sep, _body in t_prefixes(tier):
        total += per + (1 if sep == (ref.BL,) else 2)
    return total


def _block_shaped(tail):
    """TAIL contains BEGIN-SIGNED .. BEGIN-SIGNATURE .. END-SIGNATURE in this order (exact lines)."""
    try:
        i = tail.index(ref.SB)
        j = tail.index(ref.GB, i + 1)
        tail.index(ref.GE, j + 1)
    except ValueError:
        return False
    return True


def t_run(spec, tier, seed, stats):
    _t, pi, c0 = spec
    A = ref.alphabet(seed)
    L = tier_len(tier)
    prefix = t_prefixes(tier)[pi]
    first, sep, body = prefix
    nh = len(first) + len(sep)
    entryless = body not in ((ref.VE,), (ref.DVE,))
    loc = _new_loc()
    c = stats.counters
    for seq, final_nl in t_docs(prefix, c0, tier):
        refkind, obs = run_doc(A, seq, final_nl, stats, loc, seed, 'T')
        if len(seq) <= L:
            c['T_documents_also_in_part_A'] += 1
        tail = seq[nh:]
        if not tail:
            c['T_first_block_alone'] += 1
            if refkind == 'VS' and obs['ok'][0] is None:
                c['T_first_block_alone_valid_and_accepted'] += 1
        else:
            c[f'T_tail_lines:{len(tail)}'] += 1
            if _block_shaped(tail):
                c['T_tail_with_second_block'] += 1
                if entryless:
                    c['T_tail_with_second_block_after_entryless_first'] += 1
                if tail[-1] != ref.GE:
                    c['T_tail_with_second_block_and_more'] += 1
    _emit(loc, stats, 'T')


# ====================================================================== Part S (separator-character family)
#
# A "line" of a Manifest ends at LF and nowhere else: that is how the text stream handed to load() delivers
# lines and how the OpenPGP implementation delimits the lines of the cleartext signature framework (RFC 4880
# section 7).  The characters below end a line for str.splitlines() / Unicode line breaking, but NOT in a
# Manifest; the reference acceptor therefore treats them as ordinary characters of the one line they stand in.
#
#   z        in S_SEPS    VT FF FS GS RS NEL U+2028 U+2029 and a lone CR (mid-line)
#   s        = z | zz     (zz: what follows would even be preceded by an "empty line")
#   payload  in S_PAYLOADS  nothing | a valid entry (different from every other entry of the alphabet)
#                         | the exact BEGIN-SIGNED | BEGIN-SIGNATURE | END-SIGNATURE line
#   carrier lines (the separator-bearing members of the alphabet, written  PREFIX s payload):
#       HD  'Key: value' s payload      armor-header text (also legal as signature-block text)
#       JK  word s payload              junk whose first field is no Manifest tag however the line is split
#       DAR '- ' word s payload         the same, dash-escaped                                  (thorough)
#   document := any non-empty prefix (cut after a whole line) of
#                 [pre] SB [hdr] BLANK [body] GB [sig] GE [post]
#               where each bracketed slot is empty or holds one line out of {entry, HD, JK} (thorough: + DAR,
#               '- entry') and at least one carrier line is present; final newline present (thorough: also
#               absent).  So a carrier is explored before the block, among the armor headers, in the signed
#               body, in the signature block and after the block, in complete and in truncated blocks.
#
# A raw separator character inside an *entry* line is not part of the family: the path escape rules require
# every one of these characters to be written as \xNN / \uNNNN (refmanifest.needs_escape), so such a line is
# not a well-formed entry and how it is split into fields is arguable (refmanifest.split_fields -> don't-care);
# the carriers are chosen such that they are NOT an entry under any field splitting.  Same three load modes,
# same reference acceptor (gverif/c04ref.scan on the class sequence) and same judge as Part A / T.

S_SEPS = ('\x0b', '\x0c', '\x1c', '\x1d', '\x1e', '\x85', '\u2028', '\u2029', '\r')
S_SEP_NAMES = ('VT', 'FF', 'FS', 'GS', 'RS', 'NEL', 'LS', 'PS', 'CR')
S_REPS = (1, 2)
S_PAY_NAMES = ('none', 'entry', 'SB', 'GB', 'GE')
S_SPECIAL = (ref.HD, ref.JK, ref.DAR)
S_SAMPLE_KEY = (1, 2, 1)            # FF FF entry
S_SAMPLE_SEQ = (ref.SB, ref.HD, ref.BL, ref.GB, ref.GE)
_S_ALPHA = {}
_S_ANYSPLIT = None


def s_alphabet(seed, zi, rep, pi):
    """The Part A alphabet of this seed with the classes HD, JK, DAR replaced by carrier lines."""
    global _S_ANYSPLIT
    key = (seed % 3, zi, rep, pi)
    if key in _S_ALPHA:
        return _S_ALPHA[key]
    import re
    if _S_ANYSPLIT is None:
        _S_ANYSPLIT = re.compile('[' + ''.join(S_SEPS) + ' \t\x1f]+')
    base = ref.alphabet(seed)
    k = seed % 3
    sep = S_SEPS[zi] * rep
    evil = ('DATA evil 0', 'IGNORE evil', 'MISC evil 1 MD5 d41d8cd98f00b204e9800998ecf8427f')[k]
    pay = ('', evil, ref.SB_LINE, ref.GB_LINE, ref.GE_LINE)[pi]
    hd = ('Comment: x', 'Hash: SHA256', 'NotDashEscaped: y')[k]
    word = ('foo', 'data', 'DATAX')[k]
    A = ref.Alphabet()
    lines = list(base.lines)
    lines[ref.HD] = hd + sep + pay
    lines[ref.JK] = word + sep + pay
    lines[ref.DAR] = '- ' + word + sep + pay
    A.lines = tuple(lines)
    A.lines_nl = tuple(ln + '\n' for ln in lines)
    A.e_ve = base.e_ve
    A.e_dve = base.e_dve
    A.hd_is_header = True
    A.payload = pay
    # ground the roles: the payload entry is an entry and differs from the other two; a carrier is not an
    # entry however it is split into fields (first field is no tag), is not blank, is not an armor line
    st, e = rm.parse(evil)
    assert st == 'ok' and len(e) == 1 and e[0] not in (A.e_ve, A.e_dve), evil
    A.e_pay = e[0]
    assert re.match(r'^[A-Za-z][A-Za-z0-9-]*: [!-~]', lines[ref.HD])
    for c in S_SPECIAL:
        ln = lines[c][2:] if c == ref.DAR else lines[c]
        assert '\n' not in ln and sep in ln
        for first in (ln.split(' ')[0], _S_ANYSPLIT.split(ln)[0]):
            assert first and first not in rm.ALL_TAGS, (ln, first)
        assert ln not in (ref.SB_LINE, ref.GB_LINE, ref.GE_LINE) and not ln.startswith('-----')
    _S_ALPHA[key] = A
    return A


def s_options(tier):
    """Classes a slot may hold (besides staying empty)."""
    if tier == 'quick':
        return (ref.VE, ref.HD, ref.JK)
    return (ref.VE, ref.DVE, ref.HD, ref.JK, ref.DAR)


def s_nls(tier):
    return (True,) if tier == 'quick' else (True, False)


def s_keys():
    return [(zi, rep, pi) for zi in range(len(S_SEPS)) for rep in S_REPS for pi in range(len(S_PAY_NAMES))]


def s_seqs(tier):
    """Every distinct non-empty prefix of [pre] SB [hdr] BL [body] GB [sig] GE [post] with a carrier line."""
    opts = s_options(tier)
    fixed = (ref.SB, ref.BL, ref.GB, ref.GE)
    out = []

    def rec(seq, j, has):
        # slot j is next
        for o in opts:
            s2 = seq + (o,)
            h2 = has or o in S_SPECIAL
            if h2:
                out.append(s2)
            if j < 4:
                s3 = s2 + (fixed[j],)
                if h2:
                    out.append(s3)
                rec(s3, j + 1, h2)
        if j < 4:
            s3 = seq + (fixed[j],)
            if has:
                out.append(s3)
            rec(s3, j + 1, has)

    rec((), 0, False)
    return out


def s_expected(tier):
    """Size of the stated space (closed form, independent of the generator)."""
    opts = s_options(tier)

    def nodes(o):
        return sum((o + 1) ** j for j in range(1, 5)) + o * sum((o + 1) ** j for j in range(0, 5))

    o = len(opts)
    o0 = len([c for c in opts if c not in S_SPECIAL])
    per = nodes(o) - nodes(o0)
    if False in s_nls(tier):
        # without final newline: all but the prefixes that end in the blank separator line
        per += per - ((o + 1) ** 2 - (o0 + 1) ** 2)
    return per * len(s_keys())


def s_run(spec, tier, seed, stats):
    _s, zi, rep, pi = spec
    akey = (zi, rep, pi)
    A = s_alphabet(seed, zi, rep, pi)
    sep = S_SEPS[zi]
    loc = _new_loc()
    c = stats.counters
    nls = s_nls(tier)
    ndocs = 0
    for seq in s_seqs(tier):
        for final_nl in nls:
            if not final_nl and seq[-1] == ref.BL:
                continue
            refkind, obs = run_doc(A, seq, final_nl, stats, loc, seed, 'S', akey)
            ndocs += 1
            if seq[-1] != ref.GE and ref.GE not in seq[:-1]:
                c['S_truncated_frame'] += 1
            if refkind == 'VS':
                o = obs['ok']
                if o[0] is None and len(o[4]) == 1 and sep in o[4][0]:
                    c['S_valid_signed_accepted_separator_in_verified_text'] += 1
            if akey == S_SAMPLE_KEY and seq == S_SAMPLE_SEQ and final_nl:
                v = ref.scan(A, seq, final_nl, False, False, False)
                stats.sample({'part': 'S', 'separator': S_SEP_NAMES[zi], 'classes': [ref.CLASS_NAMES[x] for x in seq],
                              'document': ''.join(A.lines_nl[x] for x in seq),
                              'reference': 'valid signed; the armor header is ONE line, nothing in it is an entry',
                              'expected_entries': repr(v.entries), 'text_for_verify_file': v.text,
                              'observed': {m: ('ret' if obs[m][0] is None else obs[m][0])
                                           + ' entries=%r verify_calls=%d' % (obs[m][1], len(obs[m][4])) for m in MODES}})
    c['S_sep:' + S_SEP_NAMES[zi]] += ndocs
    c[f'S_sep_repeat:{rep}'] += ndocs
    c['S_payload:' + S_PAY_NAMES[pi]] += ndocs
    _emit(loc, stats, 'S')


# ====================================================================== Part B

FAKE_TIME = '20200101T000000'
B = {'home': None, 'env': None, 'bases': None, 'parent': None}

BODIES = [
    ('plain', 'DATA a 0\nDATA b 1 SHA1 11f6ad8ec52a2984abaafd7c3b516503785c2072\nIGNORE c\n', False),
    ('escaped-paths', 'DATA a\\x20b 0\nIGNORE c\\x5Cd\nMISC \\u00FC.txt 2 MD5 d41d8cd98f00b204e9800998ecf8427e\n', False),
    ('many+timestamp',
     'TIMESTAMP 2017-10-22T18:06:41Z\n'
     'MANIFEST eclass/Manifest 0 MD5 d41d8cd98f00b204e9800998ecf8427e SHA1 da39a3ee5e6b4b0d3255bfef95601890afd80709\n'
     'IGNORE local\n'
     'DATA myebuild-0.ebuild 0 MD5 d41d8cd98f00b204e9800998ecf8427e SHA1 da39a3ee5e6b4b0d3255bfef95601890afd80709\n'
     'MISC metadata.xml 0 MD5 d41d8cd98f00b204e9800998ecf8427e\n'
     'DIST mydistfile.tar.gz 0 SHA1 da39a3ee5e6b4b0d3255bfef95601890afd80709\n'
     'EBUILD foo-1.ebuild 3 SHA256 e3b0c44298fc1c149afbf4c8996fb92427ae41e4649b934ca495991b7852b855\n'
     'AUX foo.patch 0 MD5 d41d8cd98f00b204e9800998ecf8427e\n', False),
    # signed normally, then gratuitous dash-escapes added to the body (RFC 4880 7.1 allows them on any line)
    ('dash-escaped', 'TIMESTAMP 2019-01-01T00:00:00Z\nDATA x 0\nIGNORE y\n', False),
    # signed with gpg --not-dash-escaped; the cleartext contains a line that LOOKS dash-escaped
    # (the authenticated text is then not a Manifest: load must reject it, or at least never
    # yield entries that differ from the authenticated text)
    ('not-dash-escaped', 'DATA a 0\n- DATA x 0\nIGNORE c\n', True),
    # signed normally although the body holds a line that already starts with '- ': gpg writes it as
    # '- - DATA x 0'; one level of unescaping gives '- DATA x 0', which is NOT an entry - load must never
    # turn it into the entry 'DATA x 0' (dash-escaping is exactly one level, RFC 4880 7.1)
    ('double-dash', 'DATA a 0\n- DATA x 0\nIGNORE c\n', False),
    # signed with gpg --not-dash-escaped, body is a valid Manifest taken literally
    ('not-dash-escaped-plain', 'DATA a 0\nDATA x 0\nIGNORE c\n', True),
]
# bases whose unmutated text must be accepted by load (the literal '- ' body is not a Manifest)
MUST_ACCEPT_BASES = [b[0] for b in BODIES if b[0] not in ('not-dash-escaped', 'double-dash')]
HEADERS = ('Hash: SHA256', 'Comment: x', 'NotDashEscaped: yes')


def _keydata():
    spec = importlib.util.spec_from_file_location('_c04_keydata', '/repo/tests/keydata.py')
    kd = importlib.util.module_from_spec(spec)
    spec.loader.exec_module(kd)
    return kd


def _gpg_env(home):
    env = dict(os.environ)
    env['GNUPGHOME'] = home
    env['TZ'] = 'UTC'
    return env


def _kill_agents(home):
    try:
        subprocess.run([GNUPGCONF, '--kill', 'all'], env=_gpg_env(home), capture_output=True, timeout=30)
    except Exception:               # noqa: BLE001 - best effort cleanup
        pass


def _new_env(under, secret):
    """IsolatedGPGEnvironment whose home lives under ``under``."""
    old = tempfile.tempdir
    tempfile.tempdir = under
    try:
        env = IsolatedGPGEnvironment()
    finally:
        tempfile.tempdir = old
    kd = _keydata()
    key = (kd.SECRET_KEY if secret else kd.PUBLIC_KEY) + kd.UID + kd.PUBLIC_KEY_SIG
    env.import_key(io.BytesIO(key))
    return env


def _clearsign(home, body, nde):
    argv = [GNUPG, '--batch', '--no-tty', '--faked-system-time', FAKE_TIME]
    if nde:
        argv.append('--not-dash-escaped')
    p = subprocess.run(argv + ['--clearsign'], input=body.encode('utf8'), env=_gpg_env(home),
                       capture_output=True, timeout=60)
    if p.returncode != 0:
        raise RuntimeError('gpg --clearsign failed: ' + p.stderr.decode('utf8', 'replace'))
    return p.stdout.decode('utf8')


def _atexit_cleanup():
    if B['home'] and B['parent'] == os.getpid():
        _kill_agents(B['home'])


def setup(tier, seed, base):
    B['parent'] = os.getpid()
    env = _new_env(base, secret=True)
    B['env'] = env
    B['home'] = env.home
    atexit.register(_atexit_cleanup)
    try:
        bases = []
        for name, body, nde in BODIES:
            text = _clearsign(env.home, body, nde)
            if name == 'dash-escaped':
                ls = text.split('\n')
                b = ls.index('')
                g = ls.index(ref.GB_LINE)
                for k in range(b + 1, g, 2):
                    ls[k] = '- ' + ls[k]
                text = '\n'.join(ls)
            bases.append((name, text))
        # settle trustdb etc. once, single-threaded, before the workers share the home read-only
        with io.StringIO(bases[0][1]) as f:
            env.verify_file(f)
    finally:
        _kill_agents(env.home)      # the agent was only needed for signing
    B['bases'] = bases


def gpg_decrypt(home, text):
    """-> (good, cleartext, detail): gpg's own verdict and the cleartext it authenticated."""
    p = subprocess.run([GNUPG, '--batch', '--no-tty', '--status-fd', '2', '--output', '-', '--decrypt'],
                       input=text.encode('utf8', 'surrogateescape'), env=_gpg_env(home),
                       capture_output=True, timeout=60)
    st = p.stderr
    good = (p.returncode == 0 and b'[GNUPG:] GOODSIG' in st and b'[GNUPG:] VALIDSIG' in st
            and b'[GNUPG:] BADSIG' not in st and b'[GNUPG:] ERRSIG' not in st)
    return good, p.stdout.decode('utf8', 'replace'), (p.returncode, st.count(b'[GNUPG:] GOODSIG'))


def b_check(text, env, meta):
    """One Part B pair.  -> (label, violations[(sig, msg)])"""
    m = ManifestFile()
    exc = where = None
    try:
        m.load(io.StringIO(text), verify_openpgp=True, openpgp_env=env)
    except Exception as e:          # noqa: BLE001 - observation
        exc = type(e).__name__
        if not isinstance(e, gx.GematoException):
            where = _where(e)
    good, clear, detail = gpg_decrypt(env.home, text)
    g = 'gpg_ok' if good else 'gpg_fail'
    sigbase = dict(meta)
    sigbase['part'] = 'B'
    sigbase['not_dash_escaped_header'] = any(
        ln.startswith('NotDashEscaped:') for ln in text.split('\n\n', 1)[0].replace('\r', '').split('\n'))
    if where is not None:
        sig = dict(sigbase, check='internal_error', where=where, got='exc:' + exc)
        return f'load_fail/{exc}/{g}', [(sig, f'internal_error: {exc} at {where} loading mutated signed Manifest {text!r}')]
    if exc is not None:
        return f'load_fail/{exc}/{g}', []
    if not m.openpgp_signed:
        # no signature recognised at all (e.g. the armor was mutated away and only entries remain)
        return f'load_ok_unsigned/{g}', []
    ents = [rm.from_gemato(x) for x in m.entries]
    if not good:
        sig = dict(sigbase, check='gpg_rejects_text_accepted_by_load')
        return 'load_ok/gpg_fail', [(sig, f'gpg_rejects_text_accepted_by_load: gpg --decrypt {detail} on {text!r}, '
                                          f'load returned entries {ents!r}')]
    st, val = rm.parse(clear)
    if st == 'dontcare':
        return 'load_ok/gpg_ok/dontcare:' + val, []
    if st == 'ok' and val == ents:
        return 'load_ok/gpg_ok/equal', []
    sig = dict(sigbase, check='entries_differ_from_authenticated_cleartext',
               authenticated='not a Manifest' if st == 'reject' else 'other entries')
    if sig['not_dash_escaped_header']:
        sig.pop('kind', None)       # one cause, whatever harmless mutation rides along
    why = f'reference parser rejects it: {val}' if st == 'reject' else f'its entries are {val!r}'
    return 'load_ok/gpg_ok/DIFFER', [(sig, 'entries_differ_from_authenticated_cleartext: load(verify_openpgp=True) '
                                           f'succeeded with entries {ents!r} but the cleartext gpg authenticated is '
                                           f'{clear!r} ({why}); text={text!r}')]


def _join(pairs):
    return ''.join(ln + t for ln, t in pairs)


def b_mutants(bi, kind, sub, A, bases):
    """Yield (label, text) for one Part B shard."""
    name, text = bases[bi]
    lines = text.split('\n')
    assert lines[-1] == ''
    lines = lines[:-1]
    n = len(lines)
    nl = [(ln, '\n') for ln in lines]
    if kind == 'misc':
        yield 'identity', text
        yield 'trail:+nl', text + '\n'
        yield 'trail:+nlnl', text + '\n\n'
        yield 'trail:+ws', text + ' \t\n'
        yield 'trail:-nl', text[:-1]
        yield 'lead:+nl', '\n' + text
        yield 'lead:+ws', ' \n' + text
        yield 'crlf:all', _join([(ln, '\r\n') for ln in lines])
        for j, (_on, other) in enumerate(bases):
            yield f'concat:self+{j}', text + other
            if j != bi:
                yield f'concat:{j}+self', other + text
        yield 'entry:prepend', 'DATA zz 0\n' + text
        yield 'entry:append', text + 'DATA zz 0\n'
        yield 'entry:prepend+blank', 'DATA zz 0\n\n' + text
        yield 'entry:blank+append', text + '\nDATA zz 0\n'
    elif kind == 'ins':
        for p in range(n + 1):
            yield f'ins:{ref.CLASS_NAMES[sub]}@{p}', _join(nl[:p] + [(A.lines[sub], '\n')] + nl[p:])
    elif kind == 'del':
        for k in range(n):
            yield f'del:{k}', _join(nl[:k] + nl[k + 1:])
    elif kind == 'dup':
        for k in range(n):
            yield f'dup:{k}', _join(nl[:k + 1] + nl[k:])
    elif kind == 'mov':
        k = sub
        rest = nl[:k] + nl[k + 1:]
        for p in range(n):
            if p != k:
                yield f'mov:{k}>{p}', _join(rest[:p] + [nl[k]] + rest[p:])
    elif kind == 'crlf':
        for k in range(n):
            yield f'crlf:{k}', _join(nl[:k] + [(lines[k], '\r\n')] + nl[k + 1:])
    elif kind == 'cr':
        for k in range(n):
            yield f'cr:{k}', _join(nl[:k] + [(lines[k], '\r')] + nl[k + 1:])
    elif kind == 'esc':
        for k in range(n):
            yield f'esc:{k}', _join(nl[:k] + [('- ' + lines[k], '\n')] + nl[k + 1:])
    elif kind == 'unesc':
        for k in range(n):
            if lines[k].startswith('- '):
                yield f'unesc:{k}', _join(nl[:k] + [(lines[k][2:], '\n')] + nl[k + 1:])
    elif kind == 'tws':
        for k in range(n):
            for w in (' ', '\t'):
                yield f'tws:{k}:{w!r}', _join(nl[:k] + [(lines[k] + w, '\n')] + nl[k + 1:])
    elif kind == 'hdr':
        b = lines.index('')
        g = lines.index(ref.GB_LINE)
        for h in HEADERS:
            for p in sorted({1, b, g + 1}):
                yield f'hdr:{h.split(":")[0]}@{p}', _join(nl[:p] + [(h, '\n')] + nl[p:])
    else:
        raise ValueError(kind)


def b_shards(tier, bases):
    out = []
    for bi, (_name, text) in enumerate(bases):
        n = text.count('\n')
        for kind in ('misc', 'del', 'dup', 'crlf', 'cr', 'esc', 'unesc', 'tws', 'hdr'):
            out.append(('B', bi, kind, 0))
        for c in range(ref.NCLASS):
            out.append(('B', bi, 'ins', c))
        if tier == 'thorough' or bi == 0:
            for k in range(n):
                out.append(('B', bi, 'mov', k))
    return out


def b_run(spec, tier, seed, stats):
    _b, bi, kind, sub = spec
    A = ref.alphabet(seed)
    bases = B['bases']
    env = B['env']
    name, base_text = bases[bi]
    seen = set()
    for label, text in b_mutants(bi, kind, sub, A, bases):
        if text in seen:       # evaluated anyway: the menu, not the text, defines the space
            stats.counters['B_duplicate_text_in_shard'] += 1
        seen.add(text)
        meta = {'base': name, 'kind': kind}
        out, viols = b_check(text, env, meta)
        stats.evaluations += 1
        stats.transitions += text.count('\n') + (0 if text.endswith('\n') else 1)
        stats.case(('B', text), nontrivial=(text != base_text))
        stats.outcomes['B:' + out] += 1
        stats.counters['B_pairs'] += 1
        if out.startswith('load_ok/'):
            stats.counters['B_accepted'] += 1
            if label == 'identity' and name in MUST_ACCEPT_BASES:
                stats.counters['B_identity_accepted'] += 1
        elif out.startswith('load_ok_unsigned'):
            stats.counters['B_loaded_unsigned'] += 1
        else:
            stats.counters['B_rejected'] += 1
            if out.endswith('gpg_ok'):
                stats.counters['B_rejected_by_load_but_gpg_ok'] += 1
        if 'dontcare' in out:
            stats.dontcare['B: ' + out.split('dontcare:', 1)[1]] += 1
        else:
            stats.compared += 1
        if (bi, label) in ((3, 'unesc:3'), (0, 'hdr:Hash@1')):
            stats.sample({'part': 'B', 'base': name, 'mutation': label, 'outcome': out, 'text': text})
        for sig, msg in viols:
            stats.violation(sig, {'part': 'B', 'text': text, 'label': label, 'meta': meta}, msg)


def b_replay(case, scratch):
    env = _new_env(scratch, secret=False)
    try:
        _out, viols = b_check(case['text'], env, case['meta'])
    finally:
        env.close()
    return [{'sig': sig, 'case': case, 'message': msg} for sig, msg in viols]


# ====================================================================== runner interface

def shards(tier, seed):
    out = [('A', c0, c1) for c0 in range(ref.NCLASS) for c1 in range(ref.NCLASS)]
    out.append(('A', 'short', 0))
    if B['bases'] is None:          # setup() not run (should not happen under the runner)
        raise RuntimeError('C04 setup() did not run')
    bs = b_shards(tier, B['bases'])
    first = [x for x in bs if x[1:3] in ((3, 'unesc'), (0, 'hdr'))]
    ts = [('T', pi, c0) for pi in range(len(t_prefixes(tier))) for c0 in T_NONBLANK]
    first.append(ts[0])             # holds the written-out sample of the family
    ss = [('S',) + k for k in s_keys()]
    first.append(('S',) + S_SAMPLE_KEY)
    return first + out + ts[1:] + [x for x in ss if x not in first] + [x for x in bs if x not in first]


def run_shard(spec, tier, seed, scratch):
    stats = Stats()
    if spec[0] == 'A':
        a_run(spec, tier, seed, stats)
    elif spec[0] == 'T':
        t_run(spec, tier, seed, stats)
    elif spec[0] == 'S':
        s_run(spec, tier, seed, stats)
    else:
        b_run(spec, tier, seed, stats)
    return stats


def replay(case, scratch):
    if case['part'] in ('A', 'T', 'S'):
        return a_replay(case)
    return b_replay(case, scratch)


def _fsm_summary(counters, P='A'):
    trans = set()
    pairs = set()
    refpos = set()
    for k in counters:
        if k.startswith(P + '_fsm:'):
            _p, st, cl, nxt = k.split(':')
            trans.add((int(st), int(cl), nxt))
        elif k.startswith(P + '_pair:'):
            _p, pos, st = k.split(':')
            pairs.add((pos, int(st)))
        elif k.startswith(P + '_refpos:'):
            _p, pos, cl = k.split(':')
            refpos.add((pos, int(cl)))
    return trans, pairs, refpos


def finish(total, tier):
    errs = []
    c = total.counters
    L = tier_len(tier)
    want_docs = 1 + sum(2 * ref.NCLASS ** n - ref.NCLASS ** (n - 1) for n in range(1, L + 1))
    if c['A_documents'] != want_docs:
        errs.append(f'Part A enumerated {c["A_documents"]} documents, the stated space has {want_docs}')
    for mode in MODES:
        if not total.outcomes.get(f'A:VS/{mode}/' + ('exc:OpenPGPVerificationFailure' if mode == 'raise' else 'ret')):
            errs.append(f'vacuity: no valid signed document was generated and accepted in mode {mode}')
    for k in ('A_valid_signed_with_entries', 'A_valid_signed_with_dash_escaped_entry'):
        if not c.get(k):
            errs.append(f'vacuity: counter {k} is zero')
    if not total.outcomes.get('A:VU/ok/ret'):
        errs.append('vacuity: no valid unsigned document accepted')
    for d in ref.DEFECTS:
        if not c.get('A_defect:' + d):
            errs.append(f'vacuity: reference defect class {d!r} never occurred')
    trans, pairs, refpos = _fsm_summary(c)
    want_refpos = ref.reachable_refpos(L)
    if refpos != want_refpos:
        errs.append(f'vacuity: reference (position x class) pairs exercised {len(refpos)} != reachable {len(want_refpos)}: '
                    f'missing {sorted(want_refpos - refpos)[:5]}')
    if trans:       # tracing available
        sc = {(s, cl) for s, cl, _n in trans}
        if len(sc) != 5 * ref.NCLASS:
            errs.append(f'vacuity: only {len(sc)} of {5 * ref.NCLASS} implementation (state x line class) pairs exercised')
    if total.compared < total.evaluations // 3:
        errs.append('vacuity: most cases are DONT_CARE')
    # ---- two-message family
    want_t = t_expected(tier)
    if c['T_documents'] != want_t:
        errs.append(f'Part T enumerated {c["T_documents"]} documents, the stated space has {want_t}')
    t_out = {k for k in total.outcomes if k.startswith('T:')}
    if len({k.split('/', 1)[0] for k in t_out}) < 2 or len(t_out) < 4:
        errs.append(f'vacuity: Part T produced the outcome classes {sorted(t_out)} only')
    for mode in MODES:
        if not total.outcomes.get(f'T:VS/{mode}/' + ('exc:OpenPGPVerificationFailure' if mode == 'raise' else 'ret')):
            errs.append(f'vacuity: Part T: no first block on its own was valid and accepted in mode {mode}')
        if not any(k.startswith(f'T:INV/{mode}/exc:') for k in t_out):
            errs.append(f'vacuity: Part T: no document with content after the first block was rejected in mode {mode}')
    # the newline-terminated minimal-form first blocks on their own are valid under every reading
    n_alone = len(T_BODIES) * len(t_bounds(tier)[1])
    if c.get('T_first_block_alone_valid_and_accepted', 0) < n_alone:
        errs.append(f'vacuity: Part T: only {c.get("T_first_block_alone_valid_and_accepted")} first blocks on their own '
                    f'were judged valid and accepted, expected at least {n_alone}')
    for k in ('T_tail_with_second_block', 'T_tail_with_second_block_after_entryless_first',
              'T_tail_with_second_block_and_more', 'T_defect:outside_armor', 'T_defect:outside_entry',
              'T_defect:outside_junk'):
        if not c.get(k):
            errs.append(f'vacuity: counter {k} is zero')
    t_trans, _tp, t_refpos = _fsm_summary(c, 'T')
    post = {cl for p, cl in t_refpos if p == 'post'}
    if post != set(range(ref.NCLASS)):
        errs.append(f'vacuity: Part T: line classes after the first block exercised {sorted(post)}, not all {ref.NCLASS}')
    if t_trans:     # tracing available: every non-blank class must have been fed right after a complete block
        fed = {cl for s, cl, _n in t_trans if s == 4}
        if not set(T_NONBLANK) <= fed:
            errs.append(f'vacuity: Part T: only classes {sorted(fed)} were fed to the implementation after a complete block')
    # ---- separator-character family
    want_s = s_expected(tier)
    if c['S_documents'] != want_s:
        errs.append(f'Part S enumerated {c["S_documents"]} documents, the stated space has {want_s}')
    s_out = {k for k in total.outcomes if k.startswith('S:')}
    if len({k.split('/', 1)[0] for k in s_out}) < 2 or len(s_out) < 4:
        errs.append(f'vacuity: Part S produced the outcome classes {sorted(s_out)} only')
    for mode in MODES:
        if not total.outcomes.get(f'S:VS/{mode}/' + ('exc:OpenPGPVerificationFailure' if mode == 'raise' else 'ret')):
            errs.append(f'vacuity: Part S: no valid signed document with a separator-bearing line was accepted in mode {mode}')
        if not any(k.startswith(f'S:INV/{mode}/exc:') for k in s_out):
            errs.append(f'vacuity: Part S: no invalid document was rejected in mode {mode}')
    per_key = want_s // len(s_keys())
    for nm in S_SEP_NAMES:
        if c.get('S_sep:' + nm) != per_key * len(S_REPS) * len(S_PAY_NAMES):
            errs.append(f'vacuity: Part S: separator {nm} explored in {c.get("S_sep:" + nm)} documents')
    for nm in S_PAY_NAMES:
        if c.get('S_payload:' + nm) != per_key * len(S_REPS) * len(S_SEPS):
            errs.append(f'vacuity: Part S: payload {nm} explored in {c.get("S_payload:" + nm)} documents')
    for k in ('S_truncated_frame', 'S_valid_signed_accepted_separator_in_verified_text', 'S_valid_signed_with_entries',
              'S_defect:outside_junk', 'S_defect:body_junk', 'S_defect:truncated_in_headers',
              'S_defect:truncated_in_body', 'S_defect:truncated_in_signature'):
        if not c.get(k):
            errs.append(f'vacuity: counter {k} is zero')
    _st, _sp, s_refpos = _fsm_summary(c, 'S')
    for posn in ('pre', 'hdr', 'body', 'sig', 'post'):
        got = {cl for p, cl in s_refpos if p == posn}
        if not {ref.HD, ref.JK} <= got:
            errs.append(f'vacuity: Part S: no separator-bearing line at reference position {posn!r}')
    if not c.get('B_accepted'):
        errs.append('vacuity: Part B has no mutant accepted by load')
    if not c.get('B_rejected'):
        errs.append('vacuity: Part B has no mutant rejected by load')
    if c.get('B_identity_accepted') != len(MUST_ACCEPT_BASES):
        errs.append(f'vacuity: only {c.get("B_identity_accepted")} of {len(MUST_ACCEPT_BASES)} unmutated signed Manifests were accepted by load')
    _atexit_cleanup()
    return errs


def extra_evidence(total, tier):
    c = total.counters
    trans, pairs, refpos = _fsm_summary(c)
    table = {}
    for s, cl, nxt in sorted(trans, key=repr):
        nm = STATE_NAMES.get(s, str(s))
        tgt = STATE_NAMES.get(int(nxt), nxt) if nxt.isdigit() else nxt
        table.setdefault(nm, {}).setdefault(ref.CLASS_NAMES[cl], []).append(tgt)
    slim = {k: v for k, v in c.items()
            if not k.startswith(('A_fsm:', 'A_pair:', 'A_refpos:', 'T_fsm:', 'T_pair:', 'T_refpos:',
                                 'S_fsm:', 'S_pair:', 'S_refpos:'))}
    nb = len(total.states)
    t_trans, t_pairs, _tr = _fsm_summary(c, 'T')
    t_new = c['T_documents'] - c['T_documents_also_in_part_A']
    forms, seps, F, C = t_bounds(tier)
    return {
        'states': c['A_documents'] + t_new + c['S_documents'] + nb,
        'distinct_nontrivial': c['A_documents_nontrivial'] + t_new + c['S_documents'] + len(total.nontrivial),
        'states_meaning': 'distinct documents: Part A (class sequence, final newline) and Part T (first block, '
                          'separator, tail, final newline) each enumerated once by construction, Part T documents of '
                          '<= L lines (which Part A has too) subtracted + Part S (separator, repeat, payload, frame '
                          'prefix, final newline; each contains a separator-bearing line, so none occurs in A / T) '
                          '+ Part B distinct mutated texts (hashed)',
        'part_s_documents': c['S_documents'],
        'part_s_bound': {'separators': list(S_SEP_NAMES), 'repeats': list(S_REPS), 'payloads': list(S_PAY_NAMES),
                         'slot_classes': [ref.CLASS_NAMES[x] for x in s_options(tier)],
                         'frame': '[pre] SB [hdr] blank [body] GB [sig] GE [post], every non-empty prefix',
                         'final_newline': [bool(x) for x in s_nls(tier)]},
        'part_a_documents': c['A_documents'],
        'part_t_documents': c['T_documents'],
        'part_t_documents_not_in_part_a': t_new,
        'part_t_bound': {'first_block_forms': len(forms), 'bodies': len(T_BODIES), 'separators': len(seps),
                         'tail_lines_full_alphabet': F, 'tail_lines_core_alphabet': C,
                         'core_alphabet': [ref.CLASS_NAMES[x] for x in T_CORE]},
        'part_t_impl_fsm': {
            'available': bool(t_trans),
            'distinct_transitions': len(t_trans),
            'classes_fed_in_POST_SIGNED_DATA': sorted(ref.CLASS_NAMES[cl] for s, cl, _n in t_trans if s == 4),
            'transitions_out_of_POST_SIGNED_DATA': sorted({f'{ref.CLASS_NAMES[cl]}->{STATE_NAMES.get(int(n), n) if n.isdigit() else n}'
                                                           for s, cl, n in t_trans if s == 4}),
        },
        'part_b_distinct_texts': nb,
        'impl_fsm': {
            'available': bool(trans),
            'state_x_class_pairs_exercised': len({(s, cl) for s, cl, _n in trans}),
            'state_x_class_pairs_possible': 5 * ref.NCLASS,
            'distinct_transitions': len(trans),
            'reference_position_x_impl_state_pairs': sorted(f'{p}/{STATE_NAMES.get(s, s)}' for p, s in pairs),
            'reference_position_x_class_pairs': len(refpos),
            'transition_table': table,
        },
        'counters': dict(sorted(slim.items())),
    }
