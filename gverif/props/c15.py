"""C15 — top-level Manifest discovery returns the outermost covering Manifest.

Bounded-exhaustive enumeration of directory chains r/c1/.../cs (every start depth s),
each level independently holding {no Manifest, plain, compressed} x an IGNORE-line menu
built around the start path, crossed with allow_compressed on/off and a device boundary
between any two levels with allow_xdev on/off.  Every (chain, start, flags) case runs the
real ``gemato.find_top_level.find_top_level_manifest`` on a chain materialised on tmpfs
and is compared with ``reference()``, an upward walk written from the property statement
that reads Manifest texts with the reference parser (gverif.refmanifest) only.

Family F ("subpath") drops the assumption that an IGNORE line is written with its own Manifest
in mind: every level, the start directory included, may IGNORE ANY contiguous run of components
of the start path (single names and multi-component paths; names of directories above, at - the
Manifest's own directory name - or below the Manifest), next to levels whose Manifest has no
IGNORE line at all, and the chain's directory names range over every equality pattern (x/x/y,
x/y/x, ...), so that one IGNORE text can mean something relative to a level other than the one it
stands in.  What each such line means is decided by reference() alone.

Family G ("rewrite") drops the assumption that the files are at rest for the life of the process:
a case is a HISTORY  call - change on disk - call.  The chain is materialised as it was BEFORE, the
judged call's twin (same start, same flags) is made on it, then the Manifest of exactly one level is
changed to another option of that level's menu - rewritten in place (open(path, 'wb'): same inode),
unlinked and created again, or replaced through os.replace(); also created, deleted, or switched between
plain and compressed - and then comes the judged call.  reference() is given the final files only: the
statement speaks of the Manifests that are there when discovery runs, not of what an earlier call saw.

Chain directories form a fixed skeleton; the DFS assigns one level per node, so each
node costs one Manifest write + one unlink.  The walk from depth s never looks below s,
hence "every start depth of every chain" == "every chain of length s started at s".

Device boundary: the only real mount points on the upward ``..`` walk lie above the
scratch directory (a symlink into another filesystem does not help: ``..`` from the link
target leads to the target's real parent and never comes back), and the harness does not
mount filesystems (privileged, global side effect).  The boundary between two chain levels is therefore *virtual*: the name ``os``
inside gemato.find_top_level is replaced by a proxy whose stat/lstat/fstat shift st_dev
of everything outside the "inner" chain prefix (DevMap); everything else is the real os.
The second device check of the routine (fstat of the opened Manifest) is additionally
driven with two real filesystems: family 'mlink' makes ``Manifest`` a symlink to a file
in a mkdtemp on tempfile.gettempdir() when that is a different device from the scratch.
"""

import os
import shutil
import tempfile

import gemato.find_top_level as ftl

from gverif import gem, refmanifest as rm
from gverif.common import fresh_root
from gverif.evidence import Stats
from gverif.treemodel import compress, decompress

PID = 'C15'
LEVEL = 'model_checking'
RULE = ('every directory chain r/c1/../cs started at its deepest level s (the walk never looks below '
        'the start, so this covers every start depth of every chain), s<=4 in both tiers (family A), '
        'where each level below the start independently takes one option of {no Manifest} + plain x '
        'IGNORE menu built around the start path {no IGNORE, every whole-component prefix of the '
        'start path (next component, deeper prefixes, exact start), sibling, string-prefix look-alikes '
        'of the next component (shorter and longer); thorough adds descendant-of-start, sibling of the '
        'start, look-alikes of the last component} + gz x {no IGNORE, exact start, longer look-alike; '
        'thorough adds next component}, and the start level takes {none, plain, gz}.  Thorough family '
        'C: s=5 with per-level menu {none, plain x {-, next, exact, sibling, look-alike}, gz x {-, '
        'exact}} and s=6 with {none, plain x {-, exact, look-alike}, gz}.  Family B ("special", s<=3 '
        'quick / <=4 thorough): one level at every position takes each of {bz2, lzma, xz} x {-, exact}, '
        'plain+gz twins (same / differing contents), empty Manifest, DATA/MISC/DIST entries for the '
        'path before / after / without an IGNORE, several IGNOREs, noise entries, IGNOREs in the start '
        'directory itself, while all other levels range over {none, plain, plain+exact, gz}.  Family E '
        '("forms", s<=3): start path spelled with trailing slash / relative to cwd / "." .  Family D '
        '("mlink", s<=3): Manifest is a symlink to a file on a second real filesystem, with and '
        'without IGNORE.  Family F ("subpath"): every level 0..s - the start directory included - '
        'independently takes one option of {no Manifest, plain without IGNORE} + plain x {IGNORE p : p any '
        'contiguous run ca/../cc (1<=a<=c<=s) of components of the start path, i.e. every name occurring '
        'anywhere on the path and every multi-component sub-path, whether it lies above, at (the '
        'Manifest\'s own directory name) or below that Manifest} + gz x G, for every equality pattern '
        'of the chain\'s directory names P (all set partitions of the s positions: x/y/z, x/x/y, x/y/x, '
        'y/x/x, x/x/x; equal runs listed once); quick: s<=2 with all P and G = {no IGNORE} + all runs, s=3 '
        'with all names distinct and G = {no IGNORE}; thorough: s<=2 as quick, s=3 with all P and G = {no '
        'IGNORE} + one-component runs, s=4 with all names distinct and no compressed option; crossed '
        'with allow_compressed off/on (s=4: off) x {no boundary, boundary above level b with allow_xdev '
        'off for every b in 1..s}.  Family G ("rewrite", history call - change - call; s<=2 quick / <=3 thorough): '
        'the chain BEFORE ranges over every combination of per-level options {no Manifest} + plain x {no IGNORE, '
        'every whole-component prefix of the start path (ancestors, exact start), longer look-alike of the next '
        'component} + gz x {no IGNORE, exact start} (start level: {none, plain, gz}); the same call as the judged '
        'one (same start, same flags) is made on it; then ONE level j (every j in 0..s) is changed to every OTHER '
        'option of its menu (IGNORE added / removed / changed, Manifest created / deleted / plain <-> gz) in every '
        'applicable mode of {inplace = open(path, "wb") on the existing file, same inode; recreate = unlink + '
        'create; replace = temporary file + os.replace()} (inplace / replace only when the file name stays the '
        'same); then the judged call, compared with the reference of the FINAL files; crossed with '
        'allow_compressed off/on x {no boundary, boundary above level b with allow_xdev off for every b in 1..s}.  '
        'Every chain of the families A-E is crossed with allow_compressed off/on x {no device boundary, '
        'boundary directly above level b for every b in 1..s} x allow_xdev off/on (family C: '
        'allow_xdev on only for b in {none, s}).  A case = (family, name pattern (F), option labels of all levels, '
        'start depth, boundary, allow_xdev, allow_compressed, path form; G: + changed level, its new option, mode); cases are distinct by '
        'construction and counted through their digests (finish() checks digests == calls).  '
        'Non-trivial = reference verdict definite, at least one Manifest file on the chain, and at '
        'least one discriminator (second Manifest, an IGNORE line, a compressed or foreign Manifest, '
        'or a device boundary); family G: reference verdict definite and the changed Manifest is one the '
        'reference walk reads before or after the change.')
ASSUMPTIONS = [
    'reference() is an independent restatement of the statement (upward walk, whole-component '
    'IGNORE match, outermost candidate, compressed only when allowed, stop at device boundary); '
    'trusted base: CPython os/gzip/bz2/lzma, gverif/refmanifest.py (parser + writer)',
    'DEVICE BOUNDARY IS VIRTUALISED: a chain whose upward ".." walk crosses a real mount point '
    'cannot be built without mounting (symlinks into /tmp do not bring ".." back), so st_dev is '
    'remapped by replacing the name "os" in gemato.find_top_level with a proxy (stat/lstat/fstat '
    'shift st_dev for every path outside the inner chain prefix; fstat resolves the descriptor '
    'through /proc/self/fd).  This assumes the routine obtains device numbers only through '
    'os.stat/os.lstat/os.fstat of its own module global "os"; a self-test at shard start checks '
    'the proxy is in effect.  Real two-filesystem coverage exists only for the Manifest-file '
    'device check (family mlink: Manifest is a symlink to another filesystem) and for the real '
    'tmpfs -> devtmpfs -> rootfs boundaries above the scratch directory (no Manifests there)',
    'precondition asserted at setup, at every shard and before reporting: no Manifest[.gz|.bz2|'
    '.lzma|.xz] in any real ancestor of the scratch root up to / (the routine walks up to /)',
    'only syntactically valid Manifests written by the reference writer; no OpenPGP armour; chain '
    'directories are real directories (no directory symlinks: C16); start path exists',
    'DONT_CARE: plain and compressed Manifest in one directory when both are visible; a non-IGNORE '
    'entry for the start path that precedes an IGNORE covering it; with crossing disallowed and a '
    'Manifest *file* on another device in a same-device directory, both "stop there" and "skip '
    'it" are accepted (the foreign Manifest itself is never accepted)',
    'small scope: depth <= 4 with the full menu, depth 5-6 with a reduced menu, one boundary per case; '
    'family F (IGNORE of arbitrary sub-paths of the start path, repeated directory names): one IGNORE line '
    'per Manifest, depth <= 3 quick / <= 4 thorough, repeated names only up to depth 2 quick / 3 thorough; '
    'outside F all chain directory names are pairwise distinct',
    'family G (history): exactly one earlier call (the judged call\'s twin) and exactly one changed level per case, '
    'menu without sibling / shorter look-alike IGNOREs and without bz2/lzma/xz, depth <= 2 quick / <= 3 thorough, '
    'absolute start path; the earlier call itself is not judged (the same call on files at rest is a case of '
    'family A); the change happens between the calls, never during one; whether unlink + create hands out the '
    'same inode number again is up to the filesystem of the scratch directory (tmpfs here) and is not forced; '
    'in the families A-F every Manifest is a newly created file (unlink + create) and the only earlier call is '
    'the priming call with the opposite flags',
    'vacuity self-checks are taken over the complete space only: when the exploration is cut short (a shard '
    'stops after 100 violations, the run after 32 such shards) they are skipped and a note says so - the run '
    'then ends with VIOLATION lines, or with the runner\'s own NOT-decided error',
]

MANIFEST_NAMES = ('Manifest', 'Manifest.gz', 'Manifest.bz2', 'Manifest.lzma', 'Manifest.xz')
COMPRESSED = ('gz', 'bz2', 'lzma', 'xz')
BASES = ['d', 'e f', 'dé', 'g\\']
SIB = 'zz'
BENIGN = rm.file_entry('DATA', 'zq', b'', ('SHA1',))
DEV_SHIFT = 1 << 40


class HarnessPrecondition(RuntimeError):
    pass


# ---------------------------------------------------------------- DevMap (virtual st_dev)

class _FakeStat:
    """stat result with st_dev replaced; everything else delegated."""
    __slots__ = ('_st', 'st_dev')

    def __init__(self, st, dev):
        self._st = st
        self.st_dev = dev

    def __getattr__(self, name):
        return getattr(self._st, name)


class OsProxy:
    """Stands in for the module ``os`` inside gemato.find_top_level only.

    inner is None  -> complete pass-through to the real os.
    inner = '/abs/dir' -> that directory is the root of "another filesystem": every path at
    or below it keeps its real st_dev, every other path gets st_dev + DEV_SHIFT (so distinct
    real devices stay distinct and '/' is shifted consistently for the root test)."""

    def __init__(self):
        self.inner = None
        self.calls = 0

    def __getattr__(self, name):
        return getattr(os, name)

    def _map(self, st, path):
        inner = self.inner
        if inner is None:
            return st
        self.calls += 1
        ap = os.path.normpath(os.path.join(os.getcwd(), os.fsdecode(path)))
        if ap == inner or ap.startswith(inner + '/'):
            return st
        return _FakeStat(st, st.st_dev + DEV_SHIFT)

    def stat(self, path, *a, **kw):
        st = os.stat(path, *a, **kw)
        if isinstance(path, int):
            return self._map(st, os.readlink('/proc/self/fd/%d' % path))
        return self._map(st, path)

    def lstat(self, path, *a, **kw):
        return self._map(os.lstat(path, *a, **kw), path)

    def fstat(self, fd):
        st = os.fstat(fd)
        if self.inner is None:
            return st
        return self._map(st, os.readlink('/proc/self/fd/%d' % fd))


PROXY = OsProxy()


def install_proxy():
    if ftl.os is not PROXY:
        assert ftl.os is os, 'gemato.find_top_level.os is already patched by someone else'
        ftl.os = PROXY


def proxy_selftest(root):
    """The DevMap must be what the routine sees: stat through the module global."""
    install_proxy()
    assert ftl.os is PROXY
    inner = os.path.join(root, 'selftest-inner')
    os.makedirs(inner, exist_ok=True)
    PROXY.inner = inner
    try:
        a = ftl.os.stat(inner).st_dev
        b = ftl.os.stat(os.path.join(inner, '..')).st_dev
        c = ftl.os.stat('/').st_dev
        with open(os.path.join(inner, 'f'), 'w') as f:
            d = ftl.os.fstat(f.fileno()).st_dev
        real = os.stat(inner).st_dev
    finally:
        PROXY.inner = None
    shutil.rmtree(inner)
    assert a == real == d and b == real + DEV_SHIFT and c == os.stat('/').st_dev + DEV_SHIFT, \
        ('DevMap self-test failed', a, b, c, d, real)
    assert ftl.os.stat(root).st_dev == os.stat(root).st_dev


# ---------------------------------------------------------------- levels

def _parse(text):
    st, v = rm.parse(text)
    if st != 'ok':
        raise AssertionError(f'harness generated a Manifest the reference parser does not accept: {st} {v!r} {text!r}')
    return v


_COMP_CACHE = {}


def _compress(data, fmt):
    k = (data, fmt)
    if k not in _COMP_CACHE:
        _COMP_CACHE[k] = compress(data, fmt)
    return _COMP_CACHE[k]


def _entry_from_json(e):
    e = list(e)
    if e[0] in rm.FILE_TAGS:
        return (e[0], e[1], e[2], tuple(tuple(x) for x in e[3]))
    return tuple(e)


class Lv:
    """One chain level: kind in None|'plain'|'gz'|'bz2'|'lzma'|'xz'|'both' (plain + gz twins);
    entries = reference entry tuples of the (plain) Manifest; centries = entries of the
    compressed twin when different; foreign = the Manifest is a symlink to another filesystem."""

    __slots__ = ('kind', 'label', 'entries', 'centries', 'foreign', 'text', 'ctext', 'cfmt',
                 'parsed', 'cparsed', 'has_ignore')

    def __init__(self, kind, label='none', entries=(), centries=None, foreign=False):
        self.kind = kind
        self.label = label
        self.entries = tuple(entries)
        self.centries = None if centries is None else tuple(centries)
        self.foreign = bool(foreign)
        self.text = self.ctext = self.cfmt = self.parsed = self.cparsed = None
        if kind in ('plain', 'both'):
            self.text = rm.write(self.entries)
            self.parsed = _parse(self.text)
        if kind in COMPRESSED or kind == 'both':
            self.cfmt = 'gz' if kind == 'both' else kind
            self.ctext = rm.write(self.entries if self.centries is None else self.centries)
            self.cparsed = _parse(self.ctext)
        self.has_ignore = any(e[0] == 'IGNORE' for e in (self.parsed or []) + (self.cparsed or []))

    @property
    def tag(self):
        if self.kind is None:
            return '-'
        return f'{"foreign-" if self.foreign else ""}{self.kind}/{self.label}'

    def files(self):
        out = []
        if self.text is not None:
            out.append(('Manifest', self.text.encode('utf8'), None))
        if self.ctext is not None:
            out.append(('Manifest.' + self.cfmt, _compress(self.ctext.encode('utf8'), self.cfmt), self.cfmt))
        return out

    def visible(self, allow_compressed):
        out = []
        if self.text is not None:
            out.append(('Manifest', self.parsed))
        if self.ctext is not None and allow_compressed:
            out.append(('Manifest.' + self.cfmt, self.cparsed))
        return out

    def present(self):
        return self.kind is not None

    def to_json(self):
        j = {'kind': self.kind, 'label': self.label, 'entries': [list(e) for e in self.entries]}
        if self.centries is not None:
            j['centries'] = [list(e) for e in self.centries]
        if self.foreign:
            j['foreign'] = True
        return j

    @classmethod
    def from_json(cls, j):
        ce = j.get('centries')
        return cls(j.get('kind'), j.get('label', 'none'),
                   [_entry_from_json(e) for e in j.get('entries', ())],
                   None if ce is None else [_entry_from_json(e) for e in ce],
                   j.get('foreign', False))


NONE = Lv(None, '-')


def names_for(seed, n):
    base = BASES[seed % len(BASES)]
    return [None] + [f'{base}{i}' for i in range(1, n + 2)]


def ign(p):
    return ('IGNORE', p)


def ig_menu(i, s, names, which):
    """IGNORE-line options for level i (< s) relative to the start at depth s.
    -> list of (label, entries).  ``which`` selects the menu size."""
    L = s - i
    rel = names[i + 1:s + 1]
    nxt = rel[0]
    J = '/'.join
    out = [('none', [BENIGN])]
    pre = [(('exact' if k == L else f'anc{k}'), [ign(J(rel[:k]))]) for k in range(1, L + 1)]
    sib = ('sib', [ign(SIB)])
    lshort = ('look_short', [ign(nxt[:-1])])
    llong = ('look_long', [ign(nxt + 'x')])
    if which == 'full':
        out += pre + [sib, lshort, llong]
    elif which == 'wide':
        out += pre + [sib, lshort, llong, ('below', [ign(J(rel + [SIB]))])]
        if L >= 2:
            out += [('deepsib', [ign(J(rel[:-1] + [SIB]))]),
                    ('last_short', [ign(J(rel[:-1] + [rel[-1][:-1]]))]),
                    ('last_long', [ign(J(rel[:-1] + [rel[-1] + 'x']))])]
    elif which == 'gz_quick':
        out += [pre[-1], llong]
    elif which == 'gz_thorough':
        out += ([pre[0]] if L > 1 else []) + [pre[-1], llong]
    elif which == 'rewrite':          # family G: every whole-component prefix + a look-alike
        out += pre + [llong]
    elif which == 'small':            # {none, exact}
        out += [pre[-1]]
    elif which == 'deep5':            # what the statement names: path, ancestor, sibling, look-alike
        out += ([pre[0]] if L > 1 else []) + [pre[-1], sib, llong]
    elif which == 'deep6':
        out += [pre[-1], llong]
    else:
        raise ValueError(which)
    return out


_MENU_CACHE = {}


def level_menu(fam, tier, i, s, names):
    """Options (list of Lv) of level i for a chain started at depth s."""
    key = (fam, tier, i, s, tuple(names[1:s + 2]))
    if key in _MENU_CACHE:
        return _MENU_CACHE[key]
    out = [NONE]
    if i == s:
        # the start's own directory: its relative path is empty, no IGNORE can name it
        out += [Lv('plain', 'none', [BENIGN]), Lv('gz', 'none', [BENIGN])]
    elif fam == 'A':
        pm, gm = ('full', 'gz_quick') if tier == 'quick' else ('wide', 'gz_thorough')
        out += [Lv('plain', lab, en) for lab, en in ig_menu(i, s, names, pm)]
        out += [Lv('gz', lab, en) for lab, en in ig_menu(i, s, names, gm)]
    elif fam == 'C':
        which = 'deep5' if s == 5 else 'deep6'
        out += [Lv('plain', lab, en) for lab, en in ig_menu(i, s, names, which)]
        if s == 5:
            out += [Lv('gz', lab, en) for lab, en in ig_menu(i, s, names, 'small')]
        else:
            out += [Lv('gz', 'none', [BENIGN])]
    elif fam in ('B', 'E'):
        out += [Lv('plain', lab, en) for lab, en in ig_menu(i, s, names, 'small')]
        out += [Lv('gz', 'none', [BENIGN])]
    elif fam == 'G':
        out += [Lv('plain', lab, en) for lab, en in ig_menu(i, s, names, 'rewrite')]
        out += [Lv('gz', lab, en) for lab, en in ig_menu(i, s, names, 'small')]
    elif fam == 'D':
        for foreign in (False, True):
            out += [Lv('plain', lab, en, foreign=foreign) for lab, en in ig_menu(i, s, names, 'small')]
    else:
        raise ValueError(fam)
    if i == s and fam == 'D':
        out = [NONE, Lv('plain', 'none', [BENIGN]), Lv('plain', 'none', [BENIGN], foreign=True)]
    _MENU_CACHE[key] = out
    return out


def special_menu(i, s, names):
    """Family B: the options of the one 'special' level."""
    out = []
    if i == s:
        child = names[s + 1]
        out += [Lv('plain', 'ign_sib_at_start', [ign(SIB)]),
                Lv('plain', 'ign_child_at_start', [ign(child)]),
                Lv('plain', 'empty', []),
                Lv('bz2', 'none', [BENIGN]), Lv('lzma', 'none', [BENIGN]), Lv('xz', 'none', [BENIGN]),
                Lv('both', 'none', [BENIGN])]
        return out
    L = s - i
    rel = '/'.join(names[i + 1:s + 1])
    nxt = names[i + 1]
    ex = [ign(rel)]
    data_rel = ('DATA', rel, 0, ())
    for c in ('bz2', 'lzma', 'xz'):
        out += [Lv(c, 'none', [BENIGN]), Lv(c, 'exact', ex)]
    out += [Lv('both', 'none', [BENIGN]), Lv('both', 'exact', ex),
            Lv('both', 'plain_none_gz_exact', [BENIGN], centries=ex),
            Lv('both', 'plain_exact_gz_none', ex, centries=[BENIGN]),
            Lv('plain', 'empty', []), Lv('gz', 'empty', []),
            Lv('plain', 'data_only', [data_rel]),
            Lv('plain', 'ignore_then_data', [ign(rel), data_rel]),
            Lv('plain', 'data_then_ignore', [data_rel, ign(rel)]),
            Lv('plain', 'dist_only', [('DIST', nxt, 0, ())]),
            Lv('plain', 'sib_then_exact', [ign(SIB), ign(rel)]),
            Lv('plain', 'looks_then_exact', [ign(nxt[:-1]), ign(nxt + 'x'), BENIGN, ign(rel)]),
            Lv('plain', 'noise_exact', [('TIMESTAMP', '2020-01-01T00:00:00Z'), BENIGN,
                                        ('DIST', 'x.tar', 0, ()), ign(rel)]),
            Lv('gz', 'noise_exact', [('TIMESTAMP', '2020-01-01T00:00:00Z'), BENIGN, ign(rel)]),
            Lv('plain', 'two_looks', [ign(nxt[:-1]), ign(nxt + 'x')])]
    if L >= 2:
        out += [Lv('plain', 'data_anc_then_ignore_anc', [('DATA', nxt, 0, ()), ign(nxt)]),
                Lv('plain', 'misc_rel_then_ignore_anc', [('MISC', rel, 0, ()), ign(nxt)])]
    return out


# ---------------------------------------------------------------- family F: sub-path IGNOREs

def name_patterns(s):
    """All equality patterns of the s chain-directory names (restricted-growth strings):
    (0,1,2) = all distinct, (0,0,1) = first two levels carry the same name, ..."""
    out = [()]
    for _ in range(s):
        out = [p + (k,) for p in out for k in range((max(p) + 1 if p else 0) + 1)]
    return out


def pattern_names(base, pat):
    """Chain names for an equality pattern; slot s+1 (a child of the start) stays a fresh name."""
    s = len(pat)
    return [None] + [base[1 + k] for k in pat] + [base[s + 1]]


def subpaths(names, s):
    """Every contiguous run of components of the start path: [(label, 'ca/../cc')], 1 <= a <= c <= s,
    in a fixed order; runs spelling the same string (repeated names) are listed once."""
    out, seen = [], set()
    for a in range(1, s + 1):
        for c in range(a, s + 1):
            p = '/'.join(names[a:c + 1])
            if p not in seen:
                seen.add(p)
                out.append((f'sub{a}-{c}', p, c - a + 1))
    return out


# per tier and start depth: (name patterns, gz IGNORE menu, allow_compressed values)
#   gz menu: 'all' = every sub-path, 'single' = one-component sub-paths, 'none' = gz without IGNORE only,
#   None = no compressed option at all
def f_config(tier, s):
    if tier == 'quick':
        if s <= 2:
            return name_patterns(s), 'all', (False, True)
        if s == 3:
            return [tuple(range(s))], 'none', (False, True)
        return None
    if s <= 2:
        return name_patterns(s), 'all', (False, True)
    if s == 3:
        return name_patterns(s), 'single', (False, True)
    if s == 4:
        return [tuple(range(s))], None, (False,)
    return None


def subpath_menu(tier, i, s, names):
    """Family F: options of level i (0..s, the start level included): no Manifest, a Manifest
    without any IGNORE, a Manifest IGNOREing one sub-path of the start path - whichever, whether
    or not it means anything relative to this level.  The reference decides what it means."""
    key = ('F', tier, i, s, tuple(names[1:s + 2]))
    if key in _MENU_CACHE:
        return _MENU_CACHE[key]
    _pats, gz, _comps = f_config(tier, s)
    subs = subpaths(names, s)
    out = [NONE, Lv('plain', 'none', [BENIGN])]
    out += [Lv('plain', lab, [ign(p)]) for lab, p, _n in subs]
    if gz is not None:
        out.append(Lv('gz', 'none', [BENIGN]))
        out += [Lv('gz', lab, [ign(p)]) for lab, p, n in subs
                if gz == 'all' or (gz == 'single' and n == 1)]
    _MENU_CACHE[key] = out
    return out


def count_subpath(chain, ref, comp, c):
    """Reference-side census of family F (what the family is there for)."""
    c['F_cases'] += 1
    if ref.verdict != 'must':
        return
    c['F_cls_' + ref.cls] += 1
    s, names, lvs = chain.s, chain.names, chain.lvs
    cands = set(ref.cands)
    foreign_to_level = to_ignoreless = names_own = False
    for j in ref.cands:
        for _fn, entries in lvs[j].visible(comp):
            for e in entries:
                if e[0] != 'IGNORE':
                    continue
                if j >= 1 and e[1].split('/')[0] == names[j]:
                    names_own = True
                # an IGNORE that says nothing about the start relative to its own Manifest, but
                # would cover the start if it stood in another Manifest the walk passes
                for i in cands:
                    if i != j and i < s and covers(e[1], names[i + 1:s + 1]):
                        foreign_to_level = True
                        if not lvs[i].has_ignore:
                            to_ignoreless = True
    if to_ignoreless:
        c['F_passed_ignore_covering_relative_to_ignoreless_level'] += 1
    if foreign_to_level:
        c['F_passed_ignore_covering_relative_to_other_level'] += 1
    if names_own:
        c['F_passed_ignore_naming_own_directory'] += 1
    if ref.cands and ref.cands[0] == s and lvs[s].has_ignore:
        c['F_ignore_in_start_directory'] += 1
    if ref.stop is not None and ref.stop[0] == 'ignore':
        rel = names[ref.stop[1] + 1:s + 1]
        if any(e[0] == 'IGNORE' and 1 <= len(e[1].split('/')) < len(rel)
               for _fn, en in lvs[ref.stop[1]].visible(comp) for e in en):
            c['F_stopped_by_ancestor_ignore'] += 1


# ---------------------------------------------------------------- reference model

def covers(ignore_path, relcomps):
    """IGNORE path names the start path or an ancestor of it, by whole components."""
    a = ignore_path.split('/')
    return len(a) <= len(relcomps) and relcomps[:len(a)] == a


def ignores(entries, relcomps):
    """-> True | False | 'dontcare' for the parsed entries of one Manifest."""
    rel = '/'.join(relcomps)
    named_by_file_entry = False
    for e in entries:
        if e[0] == 'IGNORE':
            if relcomps and covers(e[1], relcomps):
                return 'dontcare' if named_by_file_entry else True
        elif e[0] == 'TIMESTAMP':
            pass
        elif rm.full_path(e[0], e[1]) == rel:
            named_by_file_entry = True
    return False


class Ref:
    __slots__ = ('verdict', 'result', 'stop', 'cands', 'cls', 'reason', 'beyond', 'first_visible')


def reference(lvs, names, s, b, allow_xdev, allow_compressed, foreign_mode='stop'):
    """Upward walk from level s.  b = None or the lowest level index still on the start's
    device (levels < b are on another device).  -> Ref"""
    r = Ref()
    r.verdict, r.reason = 'must', None
    r.result, r.stop, r.cands, r.first_visible = None, None, [], None
    for i in range(s, -1, -1):
        if b is not None and not allow_xdev and i < b:
            r.stop = ('xdev', i)
            break
        vis = lvs[i].visible(allow_compressed)
        if not vis:
            continue
        if len(vis) > 1:
            r.verdict, r.reason = 'dontcare', 'plain and compressed Manifest in one directory'
            return r
        fname, entries = vis[0]
        if r.first_visible is None:
            r.first_visible = i
        if lvs[i].foreign and not allow_xdev:
            if foreign_mode == 'stop':
                r.stop = ('foreign', i)
                break
            continue
        ig = ignores(entries, names[i + 1:s + 1])
        if ig == 'dontcare':
            r.verdict, r.reason = 'dontcare', 'non-IGNORE entry for the start path precedes an IGNORE for it'
            return r
        if ig:
            r.stop = ('ignore', i)
            break
        r.result = (i, fname)
        r.cands.append(i)
    # Manifests that exist further out than where the walk ended
    if r.stop is None:
        r.beyond = 0
    else:
        top = r.stop[1] + (1 if r.stop[0] == 'xdev' else 0)
        r.beyond = sum(1 for j in range(top) if lvs[j].visible(allow_compressed))
    if r.result is None:
        r.cls = 'none/' + ('no-manifest' if r.stop is None else r.stop[0])
    elif r.stop is None:
        r.cls = 'single' if len(r.cands) == 1 else 'outermost'
    else:
        r.cls = 'stop-' + r.stop[0]
    return r


# ---------------------------------------------------------------- chain on disk

def assert_no_ancestor_manifest(root):
    real = os.path.realpath(root)
    if real != os.path.normpath(root):
        raise HarnessPrecondition(f'scratch root {root!r} is not its own real path ({real!r})')
    d = os.path.dirname(real)
    while True:
        for n in MANIFEST_NAMES:
            if os.path.lexists(os.path.join(d, n)):
                raise HarnessPrecondition(
                    f'precondition violated: {os.path.join(d, n)!r} exists in an ancestor of the scratch root')
        if d == '/':
            return
        d = os.path.dirname(d)


class Chain:
    def __init__(self, root, names, s, other=None):
        self.root = root
        self.names = names
        self.s = s
        self.other = other
        self.dirs = [root]
        for i in range(1, s + 1):
            self.dirs.append(os.path.join(self.dirs[-1], names[i]))
        os.makedirs(self.dirs[-1], exist_ok=True)
        self.dir_index = {d: i for i, d in enumerate(self.dirs)}
        self.written = [[] for _ in self.dirs]
        self.lvs = [NONE] * (s + 1)
        self.serial = 0
        self.want = None          # reference class this shard contributes a written-out sample of

    def set(self, i, lv):
        d = self.dirs[i]
        for p in self.written[i]:
            os.unlink(p)
        self.written[i] = []
        for fname, data, fmt in lv.files():
            p = os.path.join(d, fname)
            if lv.foreign:
                if self.other is None:
                    raise HarnessPrecondition('foreign Manifest requested without a second filesystem')
                self.serial += 1
                tgt = os.path.join(self.other, f'm{i}-{self.serial}')
                with open(tgt, 'wb') as f:
                    f.write(data)
                os.symlink(tgt, p)
                self.written[i] += [tgt, p]
            else:
                with open(p, 'wb') as f:
                    f.write(data)
                self.written[i].append(p)
            # read back what the routine will see (guards the harness' own materialisation)
            with open(p, 'rb') as f:
                back = decompress(f.read(), fmt).decode('utf8')
            assert back == (lv.text if fmt is None else lv.ctext), (p, back)
        self.lvs[i] = lv

    def rewrite(self, i, lv, mode):
        """Family G: change level i from its current option to ``lv`` the way ``mode`` says.
        'recreate' = unlink what is there, then create the new file(s) (also: create / delete / switch of
        file name); 'inplace' = open(path, 'wb') on the existing file (same inode, new contents);
        'replace' = write a temporary file next to it and os.replace() it over the Manifest."""
        if mode == 'recreate':
            self.set(i, lv)
            return
        old = self.lvs[i]
        new = lv.files()
        assert mode in ('inplace', 'replace') and new and not old.foreign and not lv.foreign
        assert [f[0] for f in old.files()] == [f[0] for f in new], (old.tag, lv.tag)
        for fname, data, fmt in new:
            p = os.path.join(self.dirs[i], fname)
            ino = os.stat(p).st_ino
            if mode == 'inplace':
                with open(p, 'wb') as f:
                    f.write(data)
                assert os.stat(p).st_ino == ino, 'in-place rewrite changed the inode'
            else:
                tmp = p + '.new~'
                with open(tmp, 'wb') as f:
                    f.write(data)
                os.replace(tmp, p)
            with open(p, 'rb') as f:
                back = decompress(f.read(), fmt).decode('utf8')
            assert back == (lv.text if fmt is None else lv.ctext), (p, back)
        self.lvs[i] = lv

    def expected_path(self, res):
        return None if res is None else os.path.join(self.dirs[res[0]], res[1])

    def locate(self, value, cwd):
        """gemato's return value -> (level, filename) | ('elsewhere', path) | None."""
        if value is None:
            return None
        p = os.path.normpath(os.path.join(cwd, value))
        d, n = os.path.split(p)
        if d not in self.dir_index:
            d = os.path.realpath(d)
        if d in self.dir_index:
            return (self.dir_index[d], n)
        return ('elsewhere', p)


FORMS = ('abs', 'abs_slash', 'rel_root', 'dot')


def start_path(chain, form):
    """-> (path argument, cwd to run in or None)"""
    d = chain.dirs[chain.s]
    if form == 'abs':
        return d, None
    if form == 'abs_slash':
        return d + '/', None
    if form == 'rel_root':
        return (os.path.relpath(d, chain.root), chain.root)
    if form == 'dot':
        return '.', d
    raise ValueError(form)


def describe(chain, b, xdev, comp, form, hist=None):
    parts = []
    for i, lv in enumerate(chain.lvs):
        nm = 'r' if i == 0 else chain.names[i]
        parts.append(f'{nm}[{lv.tag}]')
        if b is not None and i == b - 1:
            parts.append('||dev||')
    return (' / '.join(parts) + f'  start={chain.s} allow_xdev={xdev} allow_compressed={comp}'
            + (f' form={form}' if form != 'abs' else '')
            + (f'  history: same call made before, then the Manifest of level {hist[0]} changed '
               f'[{hist[2]}] from [{hist[1].tag}] to [{chain.lvs[hist[0]].tag}]' if hist else ''))


def blame(chain, ref, got, comp):
    """Label of the level where the implementation left the reference walk (for the sig)."""
    s = chain.s
    exp = ref.result
    gl = got[0] if got is not None and got[0] != 'elsewhere' else None
    if got is not None and got[0] == 'elsewhere':
        return 'outside-chain'
    el = exp[0] if exp is not None else None
    went_further = (gl is not None and (el is None or gl < el))
    if went_further:
        if ref.stop is None:
            return 'top'
        return 'xdev' if ref.stop[0] == 'xdev' else chain.lvs[ref.stop[1]].tag
    # stopped early / skipped something: first level above the returned one that holds any file
    lo = (gl if gl is not None else s + 1) - 1
    hi = el if el is not None else 0
    for j in range(lo, hi - 1, -1):
        if chain.lvs[j].present():
            return chain.lvs[j].tag
    return 'same-level' if gl == el else 'passthrough'


def check_one(chain, b, xdev, comp, form='abs', group='chain', stats=None, virtual=True, rewrite=None):
    """Run the real routine on the materialised chain and judge it.  -> (violation|None, Ref)
    virtual=False: the caller has put a real mount point at level b; the DevMap stays off.
    rewrite=(j, lv, mode) (family G): the chain as materialised is the state BEFORE; the very same call
    is made on it first, then level j is changed to lv (Chain.rewrite), then comes the judged call.  The
    reference is given the final levels only."""
    s, names = chain.s, chain.names
    hist = None
    if rewrite is None:
        lvs = chain.lvs
    else:
        lvs = list(chain.lvs)
        hist = (rewrite[0], lvs[rewrite[0]], rewrite[2])
        lvs[rewrite[0]] = rewrite[1]
    ref = reference(lvs, names, s, b, xdev, comp)
    accept = None
    if ref.verdict == 'must':
        accept = {ref.result}
        if any(lv.foreign for lv in lvs) and not xdev:
            alt = reference(lvs, names, s, b, xdev, comp, foreign_mode='skip')
            if alt.verdict == 'must':
                accept.add(alt.result)
            else:
                accept = None
    path, cwd = start_path(chain, form)
    old = os.getcwd()
    PROXY.inner = chain.dirs[b] if (b is not None and virtual) else None
    try:
        if cwd:
            os.chdir(cwd)
        # history, not a single call: the same start is first queried with the opposite allow_compressed
        # (and allow_xdev) setting, so anything the routine remembers between calls in one process is part
        # of the judged execution - and of its stand-alone replay
        if rewrite is None:
            gem.call(ftl.find_top_level_manifest, path, allow_xdev=not xdev, allow_compressed=not comp)
        # the judged call passes only NON-default keyword arguments, so the documented defaults
        # (allow_xdev=True, allow_compressed=False - what the CLI relies on) are what is exercised
        kw = {}
        if not xdev:
            kw['allow_xdev'] = False
        if comp:
            kw['allow_compressed'] = True
        if rewrite is not None:
            # history of family G: the judged call's twin on the chain as it was, then the change on disk
            gem.call(ftl.find_top_level_manifest, path, **kw)
            chain.rewrite(*rewrite)
            assert chain.lvs == lvs
        o = gem.call(ftl.find_top_level_manifest, path, **kw)
    finally:
        PROXY.inner = None
        if cwd:
            os.chdir(old)
    case = None
    viol = None

    def mk(sig, msg):
        nonlocal case
        case = {'group': group, 'names': names[1:], 'start': s, 'levels': [lv.to_json() for lv in lvs],
                'boundary': b, 'allow_xdev': xdev, 'allow_compressed': comp, 'form': form}
        if hist:
            case['rewrite'] = {'level': hist[0], 'before': hist[1].to_json(), 'mode': hist[2]}
            sig['mode'] = hist[2]
        return {'sig': sig, 'case': case, 'message': f'{msg} :: {describe(chain, b, xdev, comp, form, hist)}'}

    if o['kind'] == 'exc':
        sig = {'check': 'internal_error' if o.get('class') == 'internal' else 'unexpected_exception',
               'group': group, 'exc': o['exc']}
        if o.get('class') == 'internal':
            sig['where'] = o.get('where')
        kinds = sorted({lv.tag for lv in lvs if lv.present()})
        sig['levels'] = kinds if len(kinds) <= 2 else 'several'
        viol = mk(sig, f'discovery raised {o["exc"]} ({o.get("msg") or o.get("errno") or ""}) on a chain of valid Manifests')
        outcome = 'EXC:' + o['exc']
    else:
        val = o['value']
        if val is not None and not isinstance(val, str):
            viol = mk({'check': 'bad_return_type', 'group': group, 'type': type(val).__name__},
                      f'discovery returned {val!r}')
            outcome = 'BADTYPE'
        else:
            got = chain.locate(val, cwd or old)
            if accept is None:
                outcome = 'dontcare'
            elif got in accept:
                outcome = 'match' if len(accept) == 1 else 'match-either'
            else:
                if got is not None and got[0] == 'elsewhere':
                    assert_no_ancestor_manifest(chain.root)     # harness problem, not a finding
                exp = ref.result
                if got is None:
                    rel = 'none'
                elif got[0] == 'elsewhere':
                    rel = 'elsewhere'
                elif exp is None or got[0] < exp[0]:
                    rel = 'outer'
                elif got[0] > exp[0]:
                    rel = 'inner'
                else:
                    rel = 'same_dir_other_name'
                # sig classifies the defect, not the case: flags / path form / reference class
                # are in the case and the message only
                sig = {'check': 'wrong_result', 'group': group, 'got': rel,
                       'at': blame(chain, ref, got, comp)}
                want = sorted((chain.expected_path(a) or 'None') for a in accept)
                viol = mk(sig, f'wrong Manifest: reference {ref.cls} -> {" or ".join(want)}, '
                               f'gemato returned {val!r} ({rel}, diverged at {sig["at"]})')
                outcome = 'MISMATCH:' + rel
    if stats is not None:
        stats.evaluations += 1
        stats.transitions += 1 if rewrite is None else 2
        stats.outcomes[f'{ref.cls if ref.verdict == "must" else "dontcare"}/{outcome}'] += 1
        if ref.verdict == 'must' and accept is not None:
            stats.compared += 1
        else:
            stats.dontcare[ref.reason or 'foreign Manifest with an undecidable alternative'] += 1
        # the violation itself is recorded by run_leaf AFTER the case digest, so that a shard that
        # stops on too many violations still has one digest per call
    return viol, ref


# ---------------------------------------------------------------- enumeration

def flagset(s, fam, comps=(False, True)):
    out = []
    forms = ('abs',)
    if fam in ('F', 'G'):
        # no boundary, or a boundary above any level with crossing disallowed
        for comp in comps:
            out.append((None, True, comp, 'abs'))
            out += [(b, False, comp, 'abs') for b in range(1, s + 1)]
        return out
    for comp in (False, True):
        if fam == 'D':
            out += [(None, True, comp, 'abs'), (None, False, comp, 'abs')]
            continue
        if fam == 'E':
            for form in FORMS[1:]:
                out += [(None, True, comp, form), (None, False, comp, form)]
                out += [(b, False, comp, form) for b in range(1, s + 1)]
            continue
        for form in forms:
            out += [(None, True, comp, form), (None, False, comp, form)]
            for b in range(1, s + 1):
                out.append((b, False, comp, form))
                if fam != 'C' or b == s:
                    out.append((b, True, comp, form))
    return out


SAMPLE_CLASSES = ('stop-ignore', 'outermost', 'stop-xdev', 'none/ignore', 'single', 'none/xdev', 'dontcare')
GROUP = {'A': 'chain', 'B': 'chain', 'C': 'chain', 'E': 'forms', 'D': 'mlink', 'F': 'subpath', 'G': 'rewrite'}
MODES = ('inplace', 'recreate', 'replace')


def modes_for(x, y):
    """Ways to turn option x of a level into option y: all three when both have the same file name,
    otherwise only unlink + create (which then is a creation, a deletion or a change of file name)."""
    if x.present() and y.present() and [f[0] for f in x.files()] == [f[0] for f in y.files()]:
        return MODES
    return ('recreate',)


def _reads(ref, j):
    """Does the reference walk read the Manifest of level j?"""
    if ref.stop is None:
        return True
    return j > ref.stop[1] if ref.stop[0] == 'xdev' else j >= ref.stop[1]


def run_leaf_G(chain, menus, stats):
    """Family G: the DFS leaf is the chain BEFORE; every single-level change x -> y (y any other option of
    that level's menu) x every applicable mode x every flag set is one case."""
    s, names = chain.s, chain.names
    base = tuple(chain.lvs)
    key0 = ('G', s) + tuple((lv.kind, lv.label) for lv in base)
    c = stats.counters
    for j in range(s + 1):
        x = base[j]
        for y in menus[j]:
            if y is x:
                continue
            for mode in modes_for(x, y):
                for (b, xdev, comp, form) in flagset(s, 'G'):
                    chain.set(j, x)               # the state before, in files of its own
                    ref0 = reference(base, names, s, b, xdev, comp)
                    viol, ref = check_one(chain, b, xdev, comp, form, GROUP['G'], stats, rewrite=(j, y, mode))
                    definite = ref.verdict == 'must' and ref0.verdict == 'must'
                    read = _reads(ref, j) or _reads(ref0, j)
                    stats.case(repr((key0, j, y.kind, y.label, mode, b, xdev, comp, form)),
                               nontrivial=definite and read)
                    if viol:
                        stats.violation(viol['sig'], viol['case'], viol['message'])
                    c['G_cases'] += 1
                    c['G_mode_' + mode] += 1
                    if not definite:
                        continue
                    c['G_cls_' + ref.cls] += 1
                    if read:
                        c['G_walk_reads_changed_manifest'] += 1
                    if ref0.result != ref.result:
                        c['G_required_result_changes'] += 1
                        c['G_required_result_changes_' + mode] += 1
                        if ref.result is None:
                            c['G_required_result_becomes_none'] += 1
                        if ref0.result is None:
                            c['G_required_result_was_none'] += 1
                    st0, st1 = ref0.stop == ('ignore', j), ref.stop == ('ignore', j)
                    if st1 and not st0:
                        c['G_change_makes_manifest_ignore_start'] += 1
                    if st0 and not st1:
                        c['G_change_stops_manifest_ignoring_start'] += 1
                    if not x.present():
                        c['G_manifest_created'] += 1
                    if not y.present():
                        c['G_manifest_deleted'] += 1
                    if comp and (x.cfmt or y.cfmt) and ref0.result != ref.result:
                        c['G_compressed_change_matters'] += 1
        chain.set(j, x)


def run_leaf(chain, fam, stats, extra_key=(), comps=(False, True)):
    s, lvs = chain.s, chain.lvs
    key = repr((fam, s) + tuple((lv.kind, lv.label, lv.foreign) for lv in lvs) + tuple(extra_key))
    n_present = sum(1 for lv in lvs if lv.present())
    discr = (n_present >= 2 or any(lv.has_ignore for lv in lvs)
             or any(lv.cfmt for lv in lvs) or any(lv.foreign for lv in lvs))
    refs = {}
    for (b, xdev, comp, form) in flagset(s, fam, comps):
        viol, ref = check_one(chain, b, xdev, comp, form, GROUP[fam], stats)
        definite = ref.verdict == 'must'
        stats.case((key, b, xdev, comp, form),
                   nontrivial=definite and n_present >= 1 and (discr or b is not None))
        if viol:
            stats.violation(viol['sig'], viol['case'], viol['message'])
        refs[(b, xdev, comp, form)] = ref
        if fam == 'F':
            count_subpath(chain, ref, comp, stats.counters)
        c = stats.counters
        if definite:
            if ref.result is None:
                c['ref_none'] += 1
            else:
                if ref.stop is None and len(ref.cands) >= 2:
                    c['ref_outermost_of_many'] += 1
                if ref.beyond and ref.result[0] == ref.first_visible:
                    c['ref_innermost_of_many'] += 1
                if ref.result[0] == s:
                    c['ref_start_level_manifest'] += 1
            if ref.stop is not None:
                c['ref_stop_' + ref.stop[0]] += 1
                if ref.beyond:
                    c['ref_stop_' + ref.stop[0] + '_hiding_outer_manifest'] += 1
        if not stats.samples and n_present >= 2 and (ref.cls if definite else 'dontcare') == chain.want:
            stats.sample({
                'case': describe(chain, b, xdev, comp, form),
                'manifests': {('r' if i == 0 else '/'.join(chain.names[1:i + 1])) + '/' + fn:
                              (lv.text if fmt is None else lv.ctext)
                              for i, lv in enumerate(lvs) for fn, _d, fmt in lv.files()},
                'reference': ref.cls if definite else 'dontcare: ' + ref.reason,
                'expected_return': ('None' if ref.result is None else
                                    'level %d %s' % ref.result) if definite else 'any'})
    for (b, xdev, comp, form), r in refs.items():
        if comp:
            r0 = refs.get((b, xdev, False, form))
            if r0 and r0.verdict == r.verdict == 'must' and r0.result != r.result:
                stats.counters['ref_comp_differs'] += 1
        if not xdev:
            r1 = refs.get((b, True, comp, form))
            if r1 and r1.verdict == r.verdict == 'must' and r1.result != r.result:
                stats.counters['ref_xdev_differs'] += 1


def menus_for(fam, tier, s, names, special_at=None):
    out = []
    if fam == 'F':
        return [subpath_menu(tier, i, s, names) for i in range(s + 1)]
    for i in range(s + 1):
        if special_at is not None and i == special_at:
            out.append(special_menu(i, s, names))
        else:
            out.append(level_menu(fam, tier, i, s, names))
    return out


def dfs(chain, menus, fixed, fam, stats, extra_key=(), comps=(False, True)):
    """Assign levels 0..s in order; ``fixed`` = option indices of the first levels."""
    s = chain.s

    def rec(i):
        if i > s:
            if fam == 'G':
                run_leaf_G(chain, menus, stats)
            else:
                run_leaf(chain, fam, stats, extra_key, comps)
            stats.counters['chains'] += 1
            stats.counters[f'chains_{fam}_s{s}'] += 1
            return
        opts = menus[i]
        idxs = [fixed[i]] if i < len(fixed) else range(len(opts))
        for k in idxs:
            chain.set(i, opts[k])
            stats.counters['nodes'] += 1
            rec(i + 1)
        chain.set(i, NONE)
    rec(0)


MAX_S = {'quick': {'A': 4, 'B': 3, 'E': 3, 'D': 3, 'F': 3, 'G': 2},
         'thorough': {'A': 4, 'B': 4, 'C': 6, 'E': 3, 'D': 3, 'F': 4, 'G': 3}}
LEAVES_PER_SHARD = {'quick': 400, 'thorough': 1500}
G_LEAF_WEIGHT = 16        # a family-G leaf (chain before) stands for every change of it: far more cases


def _split(menus, target):
    """How many leading levels to fix so that a shard has <= target leaves."""
    sizes = [len(m) for m in menus]
    total = 1
    for n in sizes:
        total *= n
    k = 0
    while total > target and k < len(sizes) - 1:
        total //= sizes[k]
        k += 1
    return k


def _prefixes(sizes, k):
    out = [()]
    for n in sizes[:k]:
        out = [p + (j,) for p in out for j in range(n)]
    return out


def shards(tier, seed):
    out = []
    names = names_for(0, 8)           # the *space* does not depend on the seed
    target = LEAVES_PER_SHARD[tier]
    for fam, smax in MAX_S[tier].items():
        smin = 5 if fam == 'C' else 1 if fam == 'F' else 0
        for s in range(smin, smax + 1):
            specials = [None]
            comps = (False, True)
            if fam == 'B':
                specials = list(range(s + 1))
            if fam == 'F':
                # the third slot of the spec carries the name-equality pattern instead
                specials, _gz, comps = f_config(tier, s)
            for sp in specials:
                if fam == 'F':
                    menus = menus_for(fam, tier, s, pattern_names(names, sp))
                else:
                    menus = menus_for(fam, tier, s, names, sp)
                sizes = [len(m) for m in menus]
                leaves = 1
                for n in sizes:
                    leaves *= n
                k = _split(menus, target // G_LEAF_WEIGHT if fam == 'G' else target)
                cost = leaves * (G_LEAF_WEIGHT if fam == 'G' else 1)
                for n in sizes[:k]:
                    cost //= n
                for p in _prefixes(sizes, k):
                    out.append((fam, s, sp, p, cost * len(flagset(s, fam, comps))))
    out.sort(key=lambda x: -x[4])
    return [x[:4] for x in out]


def _second_fs(scratch):
    """mkdtemp on tempfile.gettempdir() if that is another device than scratch, else None."""
    tmp = tempfile.gettempdir()
    try:
        if os.stat(tmp).st_dev == os.stat(scratch).st_dev:
            return None
    except OSError:
        return None
    return tempfile.mkdtemp(prefix='gverif-c15-fs2-', dir=tmp)


def run_shard(spec, tier, seed, scratch):
    fam, s, sp, prefix = spec
    stats = Stats()
    root = fresh_root(scratch)
    assert_no_ancestor_manifest(root)
    proxy_selftest(root)
    names = names_for(seed, 8)
    other = None
    try:
        if fam == 'D':
            other = _second_fs(scratch)
            if other is None:
                stats.notes.append('family mlink skipped: tempfile.gettempdir() is on the same device as the scratch')
                stats.counters['mlink_skipped'] += 1
                return stats
        if fam == 'F':
            names = pattern_names(names, sp)
            comps = f_config(tier, s)[2]
            chain = Chain(root, names, s, other)
            chain.want = SAMPLE_CLASSES[(s + sum(prefix) + sum(sp)) % 2]     # stop-ignore / outermost
            dfs(chain, menus_for(fam, tier, s, names), prefix, fam, stats,
                extra_key=(('pattern', sp),), comps=comps)
        else:
            chain = Chain(root, names, s, other)
            chain.want = SAMPLE_CLASSES[(s + sum(prefix) + (sp or 0)) % len(SAMPLE_CLASSES)]
            menus = menus_for(fam, tier, s, names, sp)
            dfs(chain, menus, prefix, fam, stats, extra_key=(('special', sp),) if fam == 'B' else ())
    finally:
        # also reached when the shard stops on too many violations (the partial stats travel
        # with the exception), so the DevMap census is not lost for such a shard
        PROXY.inner = None
        stats.counters['devmap_stat_calls'] += PROXY.calls
        PROXY.calls = 0
        if other is not None:
            shutil.rmtree(other, ignore_errors=True)
    assert_no_ancestor_manifest(root)
    stats.counters['family_' + fam] += 1
    return stats


def setup(tier, seed, base):
    assert_no_ancestor_manifest(os.path.join(base, 'w0', 't'))
    if os.path.realpath(base) != base:
        raise HarnessPrecondition(f'scratch base {base!r} contains symlinks')


# ---------------------------------------------------------------- replay

def replay(case, scratch):
    root = fresh_root(scratch)
    assert_no_ancestor_manifest(root)
    install_proxy()
    names = [None] + list(case['names'])
    s = case['start']
    lvs = [Lv.from_json(j) for j in case['levels']]
    other = None
    try:
        if any(lv.foreign for lv in lvs):
            other = _second_fs(scratch)
            if other is None:
                raise HarnessPrecondition('replay needs a second filesystem at tempfile.gettempdir()')
        chain = Chain(root, names, s, other)
        rw = case.get('rewrite')
        rewrite = None
        if rw:
            # 'levels' are the final files; the chain is first built as it was before the change
            rewrite = (rw['level'], lvs[rw['level']], rw['mode'])
            lvs = list(lvs)
            lvs[rw['level']] = Lv.from_json(rw['before'])
        for i, lv in enumerate(lvs):
            chain.set(i, lv)
        viol, _ref = check_one(chain, case.get('boundary'), case['allow_xdev'], case['allow_compressed'],
                               case.get('form', 'abs'), case.get('group', 'chain'), rewrite=rewrite)
    finally:
        PROXY.inner = None
        if other is not None:
            shutil.rmtree(other, ignore_errors=True)
    return [viol] if viol else []


# ---------------------------------------------------------------- self checks

F_NEED = {
    'F_cases': 'a sub-path case',
    'F_passed_ignore_covering_relative_to_other_level':
        'walk passes a Manifest whose IGNORE is meaningless there but would cover the start in another '
        'Manifest it also passes',
    'F_passed_ignore_covering_relative_to_ignoreless_level':
        '... where that other Manifest has no IGNORE line at all',
    'F_passed_ignore_naming_own_directory': 'walk passes a Manifest IGNOREing a child called like its own directory',
    'F_ignore_in_start_directory': 'Manifest with an IGNORE line in the start directory itself is a candidate',
    'F_stopped_by_ancestor_ignore': 'walk stopped by an IGNORE naming a proper ancestor of the start',
    'F_cls_outermost': 'sub-path case with reference class outermost',
    'F_cls_stop-ignore': 'sub-path case with reference class stop-ignore',
    'F_cls_none/ignore': 'sub-path case with reference class none/ignore',
    'F_cls_stop-xdev': 'sub-path case with reference class stop-xdev',
}


G_NEED = {
    'G_cases': 'a case',
    'G_mode_inplace': 'Manifest rewritten in place (same inode)',
    'G_mode_recreate': 'Manifest unlinked and created again',
    'G_mode_replace': 'Manifest replaced through os.replace()',
    'G_walk_reads_changed_manifest': 'the changed Manifest is one the reference walk reads',
    'G_required_result_changes_inplace': 'in-place rewrite after which the required result differs from before',
    'G_required_result_changes_recreate': 'unlink + create after which the required result differs from before',
    'G_required_result_changes_replace': 'os.replace() after which the required result differs from before',
    'G_required_result_becomes_none': 'required result turns into None',
    'G_required_result_was_none': 'required result was None before the change',
    'G_change_makes_manifest_ignore_start': 'change that makes a Manifest IGNORE the start path',
    'G_change_stops_manifest_ignoring_start': 'change after which a Manifest no longer IGNOREs the start path',
    'G_manifest_created': 'Manifest created between the calls',
    'G_manifest_deleted': 'Manifest deleted between the calls',
    'G_compressed_change_matters': 'change of / into a compressed Manifest that alters the required result',
    'G_cls_outermost': 'reference class outermost',
    'G_cls_stop-ignore': 'reference class stop-ignore',
    'G_cls_none/ignore': 'reference class none/ignore',
    'G_cls_stop-xdev': 'reference class stop-xdev',
}


def finish(total, tier):
    errs = []
    c = total.counters
    if total.capped:
        # The exploration was cut short (a shard stops after Stats.ABORT_AFTER violations, the runner
        # stops after 2 x jobs such shards, or the wall cap hit): the census below would be taken over
        # a fragment of the space and says nothing about the harness.  The runner prints the
        # violations, or - when the cap hit without any - its own "NOT decided" error.
        total.notes.append('vacuity self-checks skipped: exploration was cut short '
                           f'({total.evaluations} cases run)')
        return errs
    for k, what in F_NEED.items():
        if not c.get(k):
            errs.append(f'vacuity (family F, sub-path IGNOREs): never seen: {what}')
    for k, what in G_NEED.items():
        if not c.get(k):
            errs.append(f'vacuity (family G, Manifest changed between two calls): never seen: {what}')
    need = {
        'ref_none': 'reference result None',
        'ref_innermost_of_many': 'reference returns the innermost of several Manifests (walk stopped)',
        'ref_outermost_of_many': 'reference returns the outermost of several candidates',
        'ref_stop_ignore_hiding_outer_manifest': 'walk stopped by an IGNOREing Manifest with Manifests further out',
        'ref_stop_xdev_hiding_outer_manifest': 'walk stopped by the device boundary with Manifests further out',
        'ref_comp_differs': 'allow_compressed on/off give different reference results',
        'ref_xdev_differs': 'allow_xdev on/off give different reference results',
        'ref_start_level_manifest': "Manifest in the start directory itself returned",
        'devmap_stat_calls': 'DevMap consulted by the routine',
    }
    for k, what in need.items():
        if not c.get(k):
            errs.append(f'vacuity: never seen: {what}')
    if not c.get('mlink_skipped'):
        if not c.get('ref_stop_foreign'):
            errs.append('vacuity: no case where a Manifest file on another real filesystem stops the walk')
    if not any('plain and compressed' in k for k in total.dontcare):
        errs.append('vacuity: DONT_CARE "plain and compressed in one directory" never exercised')
    if not any('precedes' in k for k in total.dontcare):
        errs.append('vacuity: DONT_CARE "non-IGNORE entry precedes IGNORE" never exercised')
    if total.compared < total.evaluations * 0.9:
        errs.append('vacuity: more than 10% of the cases are DONT_CARE')
    if len(total.states) != total.evaluations:
        errs.append(f'case descriptors are not distinct: {len(total.states)} digests for {total.evaluations} calls')
    return errs


def extra_evidence(total, tier):
    c = total.counters
    return {
        'device_boundary': 'virtual (DevMap proxy for gemato.find_top_level.os); real second filesystem '
                           'only for the Manifest-file fstat check (family mlink'
                           + (', SKIPPED on this host)' if c.get('mlink_skipped') else ')'),
        'chains': c.get('chains', 0),
        'dfs_nodes': c.get('nodes', 0),
        'chains_by_family_and_start_depth': {k[len('chains_'):]: v for k, v in sorted(c.items())
                                              if k.startswith('chains_')},
        'max_start_depth': max(MAX_S[tier].values()),
        'subpath_family_F': {k: v for k, v in sorted(c.items()) if k.startswith('F_')},
        'rewrite_family_G': {k: v for k, v in sorted(c.items()) if k.startswith('G_')},
    }
