"""C13 — compression is transparent and follows the watermark.

Part T (transparency): one tree with three sub-Manifests, ALL 5^3 assignments of
{plain, gz, bz2, lzma, xz}, consistent and singly mutated trees, every
verification / lookup API: the observation must be identical for all assignments.

Part W (watermark): for start assignments x watermarks {0, s-1, s, s+1 for every
uncompressed size s, max+1} x target format x forced / unforced saves, and for
every sequence of <= 3 saves (re-compression in both directions), the real
save_manifests is run under the write-audit seam and the result is compared with
the watermark policy of the statement.
"""

import itertools
import os

from gverif import gem, refmanifest as rm, refverify, scen, seams
from gverif.common import fresh_root
from gverif.evidence import Stats
from gverif.treemodel import COMPS, MSpec, Tree, comp_of, decompress, mname, render_layout, snapshot

PID = 'C13'
LEVEL = 'model_checking'
RULE = ('T: 125 compression assignments x 6 tree mutations x 22 queries, outcome must not depend on the assignment; '
        'W: start assignment x watermark (all boundary values) x format x forced/unforced x edit, and all save '
        'sequences of length <= 3 over a 6-letter alphabet; case = that tuple; non-trivial = assignment other than '
        'all-plain (T) / a save that rewrote at least one sub-Manifest (W)')
ASSUMPTIONS = [
    'uncompressed size = length of the decompressed file found on disk after the save (reference-side)',
    'which Manifests a save rewrote is observed through sys.addaudithook open-for-write events',
    'Manifests not rewritten by an unforced save are DONT_CARE; old-ebuild package Manifests are judged under C19',
    'unsupported target formats (zip, GZ, "gz ", empty string): the save must refuse with a library exception and leave '
    'every Manifest file untouched, or leave a state that satisfies all the usual predicates',
    'W1 watermark/format source: arguments of save_manifests() / constructor only / constructor with conflicting values '
    'plus explicit save arguments (the explicit ones are the watermark of that save)',
]

TOP = scen.TOP
# (non-ASCII names: the uncompressed size is a number of BYTES, not of characters)
FILES = {'f0': b'zero', 'd/f1': b'one', 'd/e/f2': b'two!', 'd/e/z\u00fcrich-\u00e9t\u00e9': b'utf8', 'g/f3': b'', 'g/f\u0444': b'four'}
H1 = ('SHA1',)
SUBDIRS = ['d', 'd/e', 'g']


def layout(assign, extra_lines=0):
    cd, ce, cg = assign
    # g's Manifest has a stem that ends in a letter shared by every compression suffix ('Manifest.z[.gz|.bz2|.lzma|.xz]'):
    # names are (de)composed by suffix, never by character class
    md, me, mg = mname('d', cd), mname('d/e', ce), mname('g', cg, 'Manifest.z')
    pad = [('L', f'DIST pad{i}.tar {i} SHA1 ' + '0' * 40) for i in range(extra_lines)]
    return [
        MSpec(TOP, [('F', 'DATA', 'f0', H1), ('M', md, H1), ('M', mg, H1),
                    ('L', 'DIST top.tar 5 SHA1 ' + 'a' * 40)]),
        MSpec(md, [('F', 'DATA', 'd/f1', H1), ('M', me, H1), ('L', 'DIST sub.tar 6 SHA1 ' + 'b' * 40)]),
        MSpec(me, [('F', 'DATA', 'd/e/f2', H1), ('F', 'DATA', 'd/e/z\u00fcrich-\u00e9t\u00e9', H1)] + pad),
        MSpec(mg, [('F', 'DATA', 'g/f3', H1), ('F', 'DATA', 'g/f\u0444', H1)]),
    ]


def layout_chain(assign, extra_lines=0):
    """Same-directory chain: Manifest -> Manifest.files -> {d/Manifest -> d/e/Manifest, g/Manifest};
    assign[0] is the compression of Manifest.files here (a sub-Manifest next to the top-level one)."""
    cf, ce, cg = assign
    mf, md, me, mg = mname('', cf, 'Manifest.files'), mname('d', None), mname('d/e', ce), mname('g', cg)
    return [
        MSpec(TOP, [('M', mf, H1), ('L', 'DIST top.tar 5 SHA1 ' + 'a' * 40)]),
        MSpec(mf, [('F', 'DATA', 'f0', H1), ('M', md, H1), ('M', mg, H1)]),
        MSpec(md, [('F', 'DATA', 'd/f1', H1), ('M', me, H1), ('L', 'DIST sub.tar 6 SHA1 ' + 'b' * 40)]),
        MSpec(me, [('F', 'DATA', 'd/e/f2', H1), ('F', 'DATA', 'd/e/z\u00fcrich-\u00e9t\u00e9', H1)]),
        MSpec(mg, [('F', 'DATA', 'g/f3', H1), ('F', 'DATA', 'g/f\u0444', H1)]),
    ]


def build(assign, extra_lines=0, chain=False):
    t = Tree(FILES)
    render_layout(t, layout_chain(assign, extra_lines) if chain else layout(assign, extra_lines))
    return t


MUTS = ['none', 'alter', 'delete', 'stray', 'alter_deep', 'add_dir']


def mutate(t, mut):
    if mut == 'alter':
        t.files['d/f1'] = b'ONE'
    elif mut == 'delete':
        del t.files['g/f\u0444']
    elif mut == 'stray':
        t.files['d/e/stray'] = b's'
    elif mut == 'alter_deep':
        t.files['d/e/f2'] = b'TWO!!'
    elif mut == 'add_dir':
        t.files['g/new/x'] = b'x'


def queries():
    out = []
    for d in ['', 'd', 'd/e', 'g']:
        out.append((f'dir:{d}', lambda m, d=d: m.assert_directory_verifies(d)))
    for p in sorted(FILES) + ['d/e/stray', 'nonexistent']:
        out.append((f'verify_path:{p}', lambda m, p=p: m.verify_path(p)))
        out.append((f'assert_path:{p}', lambda m, p=p: m.assert_path_verifies(p)))
        out.append((f'find_path:{p}', lambda m, p=p: m.find_path_entry(p)))
    for name, rel in (('top.tar', ''), ('sub.tar', 'd'), ('sub.tar', 'd/e'), ('nosuch.tar', 'g')):
        out.append((f'find_dist:{name}@{rel}', lambda m, name=name, rel=rel: m.find_dist_entry(name, rel)))
    return out


def observe(root, fn):
    def go():
        r = fn(gem.loader(root, TOP))
        if r is None or isinstance(r, bool):
            return r
        if isinstance(r, tuple):
            return (r[0], [tuple(x) for x in r[1]])
        return rm.from_gemato(r)
    o = gem.call(go)
    if o['kind'] == 'ret':
        return ('ret', o['value'])
    return ('exc', o['exc'], o.get('path'), [tuple(d) for d in o.get('diff', [])] if o.get('diff') else None)


# ------------------------------------------------------------------ part T

def check_T(case, scratch, stats=None):
    """case: mut, assigns (list of assignments to compare; first is the reference)"""
    ref = None
    out = []
    for assign in case['assigns']:
        assign = tuple(assign)
        t = build(assign)
        mutate(t, case['mut'])
        root = fresh_root(scratch)
        t.write(root)
        obs = {}
        for label, fn in queries():
            if case.get('only') and label != case['only']:
                continue
            obs[label] = observe(root, fn)
            if stats is not None:
                stats.transitions += 1
        if stats is not None:
            stats.evaluations += 1
        if ref is None:
            ref = (assign, obs)
            if stats is not None:
                for label, o in obs.items():
                    stats.outcomes[f'T/{label.split(":")[0]}/{o[0]}:{o[1] if o[0] == "exc" else type(o[1]).__name__}'] += 1
            continue
        if stats is not None:
            stats.compared += 1
        for label, o in obs.items():
            if o != ref[1][label]:
                c = dict(case, assigns=[ref[0], assign], only=label)
                out.append({'sig': {'check': 'result_depends_on_compression', 'part': 'T',
                                    'api': label.split(':')[0]},
                            'case': c,
                            'message': f'result_depends_on_compression: {label} with mutation {case["mut"]}: '
                            f'{ref[0]} -> {ref[1][label]} but {assign} -> {o}'})
                break
    return out


# ------------------------------------------------------------------ part W

def logical(p):
    c = comp_of(os.path.basename(p))
    return p[:-len(c) - 1] if c else p


def manifest_files(root):
    out = {}
    for dp, _dn, fn in os.walk(root):
        for f in fn:
            if f.startswith('Manifest'):
                rel = os.path.relpath(os.path.join(dp, f), root)
                out[rel] = open(os.path.join(dp, f), 'rb').read()
    return out


def do_save(root, step, holder=None):
    """step: dict(edit, force, wm, fmt).  -> (obs, written set).  With ``holder`` (a dict) ONE loader object
    is kept across the steps of a sequence instead of a fresh one per step."""
    def go():
        if holder is not None and holder.get('m') is not None:
            m = holder['m']
        else:
            # where the watermark / format come from: 'save' = arguments of save_manifests() (default), 'ctor' = given
            # to the constructor only, 'both' = the constructor got CONFLICTING values and the explicit arguments
            # of save_manifests() must win (its documented contract)
            src = step.get('src', 'save')
            kw = {}
            if src == 'ctor':
                kw = dict(compress_watermark=step['wm'], compress_format=step['fmt'])
            elif src == 'both':
                kw = dict(compress_watermark=(0 if (step['wm'] or 0) > 0 else 10 ** 6),
                          compress_format=('bz2' if step['fmt'] != 'bz2' else 'xz'))
            m = gem.loader(root, TOP, hashes=['SHA1'], **{k: v for k, v in kw.items() if v is not None})
            if holder is not None:
                holder['m'] = m
        if step['edit']:
            p = os.path.join(root, step['edit'])
            with open(p, 'ab') as f:
                f.write(b'+')
            m.update_entries_for_directory('')
        if step.get('src', 'save') == 'ctor':
            m.save_manifests(force=step['force'])
        else:
            m.save_manifests(force=step['force'], compress_watermark=step['wm'], compress_format=step['fmt'])
        return 0
    with seams.write_audit(root) as events:
        o = gem.call(go)
    written = {p[len(root) + 1:] for e, p in events if e == 'open-write'}
    removed = {p[len(root) + 1:] for e, p in events if e in ('os.remove', 'os.unlink')}
    return o, written, removed


def check_W(case, scratch, stats=None):
    t = build(tuple(case['start']), case.get('pad', 0), bool(case.get('chain')))
    root = fresh_root(scratch)
    t.write(root)
    out = []

    def viol(check, msg, i, **extra):
        sig = {'check': check, 'part': 'W'}
        if 'reuse_loader' in case:
            sig['reuse_loader'] = bool(case['reuse_loader'])
        sig.update(extra)
        out.append({'sig': sig, 'case': case,
                    'message': f'{check}: {msg} (start={case["start"]} step {i}: {case["steps"][i]})'})
    holder = {} if case.get('reuse_loader') else None
    for i, step in enumerate(case['steps']):
        before = manifest_files(root)
        o, written, removed = do_save(root, step, holder)
        if stats is not None:
            stats.evaluations += 1
            stats.transitions += 1
        if step['fmt'] in BAD_FORMATS:
            # unsupported target format: a refusal by a library exception with nothing written, or - when nothing
            # would have been compressed anyway - any outcome that satisfies the usual predicates below
            if stats is not None:
                stats.counters['W_bad_format_saves'] += 1
            if o['kind'] == 'exc':
                if o.get('class') != 'gemato':
                    viol('bad_format_internal_error', gem.brief(o), i, exc=o.get('exc'))
                elif manifest_files(root) != before:
                    viol('bad_format_refused_after_writing', f'{gem.brief(o)}', i)
                if stats is not None:
                    stats.compared += 1
                    stats.outcomes['W/bad_format/refused'] += 1
                break
        if not (o['kind'] == 'ret'):
            viol('save_failed', gem.brief(o) + ' ' + str(o.get('msg') or o.get('path')), i, exc=o.get('exc'))
            break
        after = manifest_files(root)
        if stats is not None:
            stats.compared += 1
        wm, fmt = step['wm'], step['fmt'] or 'gz'
        # exactly one file per logical Manifest
        byl = {}
        for p in after:
            byl.setdefault(logical(p), []).append(p)
        for lp, ps in byl.items():
            if len(ps) != 1:
                viol('leftover_manifest_file', f'{lp!r} exists as {sorted(ps)}', i)
        for lp in {logical(p) for p in before}:
            if lp not in byl:
                viol('manifest_vanished', f'{lp!r}', i)
        if TOP not in after:
            viol('top_level_manifest_compressed_or_missing', f'{sorted(after)}', i)
        nrewritten = 0
        for p, data in after.items():
            if p == TOP:
                continue
            was = [q for q in before if logical(q) == logical(p)]
            rewritten = p in written or any(q in written for q in was)
            if not rewritten:
                if was and (was[0] != p or before[was[0]] != data):
                    viol('manifest_changed_without_write_event', f'{was} -> {p}', i)
                if stats is not None:
                    stats.dontcare['sub-Manifest not rewritten by this save'] += 1
                continue
            nrewritten += 1
            c = comp_of(os.path.basename(p))
            try:
                size = len(decompress(data, c))
            except Exception as e:          # noqa: BLE001
                viol('written_manifest_unreadable', f'{p!r}: {e!r}', i)
                continue
            if wm is None:
                # compression left as it was
                if was and comp_of(os.path.basename(was[0])) != c:
                    viol('recompressed_without_watermark', f'{was[0]} -> {p}', i)
                continue
            want = size >= wm
            if want != (c is not None):
                viol('watermark_not_followed',
                     f'{p!r}: uncompressed size {size}, watermark {wm}: compressed={c is not None}', i,
                     relation='eq' if size == wm else ('above' if size > wm else 'below'))
                continue
            if c is not None:
                wasc = comp_of(os.path.basename(was[0])) if was else None
                expect = wasc if wasc is not None else fmt
                if c != expect:
                    viol('wrong_compression_format', f'{p!r}: was {wasc}, target {fmt}, now {c}', i)
        if stats is not None:
            stats.outcomes[f'W/rewritten={nrewritten}/wm={"none" if wm is None else ("0" if wm == 0 else "pos")}'] += 1
            if nrewritten:
                stats.counters['W_saves_rewriting'] += 1
        # parents reference the new names with true data; tree verifies
        v = refverify.expected_verify(root, TOP, '')
        if v.kind != 'match':
            viol('tree_does_not_verify_after_save',
                 f'reference: {v.kind} offenders={dict(v.offenders)} chain={v.chain_broken} dc={v.dc[:1]}', i)
        fv = gem.lib_verify(root, TOP, '')
        if stats is not None:
            stats.transitions += 1
        if not (fv['kind'] == 'ret' and fv['value'] is True):
            viol('fresh_verify_fails_after_save', gem.brief(fv) + ' ' + str(fv.get('path')), i)
        if out:
            break
    return out


def replay(case, scratch):
    if case['part'] == 'T':
        return check_T(case, scratch)
    return check_W(case, scratch)


# target formats that are NOT supported: the save must refuse them with a library exception and write nothing - going
# ahead would store Manifests at / above the watermark uncompressed under a name with a meaningless suffix
BAD_FORMATS = ('zip', 'GZ', 'gz ', '')
STARTS = [(None, None, None), ('gz', 'gz', 'gz'), ('bz2', None, 'xz'), (None, 'lzma', None), ('xz', 'gz', None)]


def sizes_for(start, pad=0, chain=False):
    t = build(start, pad, chain)
    out = set()
    for p, data in t.files.items():
        if os.path.basename(p).startswith('Manifest') and p != TOP:
            out.add(len(decompress(data, comp_of(os.path.basename(p)))))
    return sorted(out)


def shards(tier, seed):
    out = [('T', mut, cd) for mut in MUTS for cd in COMPS]
    for si in range(len(STARTS)):
        for fmt in ('gz', 'bz2', 'lzma', 'xz') + (BAD_FORMATS if si < 2 else ()):
            out.append(('W1', si, fmt))
    for si in range(len(STARTS)):
        for first in range(6):
            out.append(('Wseq', si, first))
    return out


def seq_alphabet(sizes):
    mid = sizes[len(sizes) // 2]
    return [dict(edit=None, force=True, wm=0, fmt='gz'),
            dict(edit=None, force=True, wm=0, fmt='xz'),
            dict(edit=None, force=True, wm=10 ** 6, fmt='gz'),
            dict(edit='d/e/f2', force=False, wm=mid, fmt='bz2'),
            dict(edit='g/f3', force=False, wm=0, fmt='lzma'),
            dict(edit='d/f1', force=False, wm=None, fmt=None)]


def run_shard(spec, tier, seed, scratch):
    stats = Stats()
    if spec[0] == 'T':
        _t, mut, cd = spec
        allp = [(None, None, None)] + [(cd, ce, cg) for ce in COMPS for cg in COMPS if (cd, ce, cg) != (None, None, None)]
        case = {'part': 'T', 'mut': mut, 'assigns': allp}
        for x in check_T(case, scratch, stats):
            stats.violation(x['sig'], x['case'], x['message'])
        for a in allp[1:]:
            stats.case(('T', mut, a), nontrivial=True)
        if mut == 'alter' and cd == 'gz':
            stats.sample({'part': 'T', 'mutation': mut, 'assignments_compared': len(allp),
                          'queries': [q[0] for q in queries()][:6] + ['...']})
        return stats
    if spec[0] == 'W1':
        _w, si, fmt = spec
        start = STARTS[si]
        for pad, chain in ((0, False), (2, False), (0, True)):
            sizes = sizes_for(start, pad, chain)
            wms = sorted({0, sizes[-1] + 1} | {s + d for s in sizes for d in (-1, 0, 1)})
            for wm, force, edit, src in itertools.product(wms, (True, False), (None, 'd/e/f2', 'g/f3'),
                                                          ('save', 'ctor', 'both')):
                if not force and edit is None:
                    continue
                if src != 'save' and (pad or chain) and tier == 'quick':
                    continue
                step = dict(edit=edit, force=force, wm=wm, fmt=fmt, src=src)
                stats.counters['W1_src_' + src] += 1
                # after an edit that appends one byte the sizes stay the same (hash lengths fixed), so the
                # boundary watermarks computed above remain exact
                case = {'part': 'W', 'start': start, 'pad': pad, 'chain': chain, 'steps': [step]}
                n0 = stats.counters['W_saves_rewriting']
                vs = check_W(case, scratch, stats)
                stats.case(('W1', start, pad, chain, wm, force, edit, fmt, src), nontrivial=stats.counters['W_saves_rewriting'] > n0)
                if len(stats.samples) < 1 and wm in sizes:
                    stats.sample({'part': 'W', 'start': start, 'sizes': sizes, 'step': step})
                for x in vs:
                    stats.violation(x['sig'], x['case'], x['message'])
        return stats
    _w, si, first = spec
    start = STARTS[si]
    alpha = seq_alphabet(sizes_for(start))
    depth = 3 if tier == 'quick' else 4
    for n in range(1, depth):
        for rest in itertools.product(range(len(alpha)), repeat=n):
            steps = [alpha[first]] + [alpha[i] for i in rest]
            for reuse, chain in ((False, False), (True, False), (False, True)):
                case = {'part': 'W', 'start': start, 'steps': steps, 'reuse_loader': reuse, 'chain': chain}
                n0 = stats.counters['W_saves_rewriting']
                vs = check_W(case, scratch, stats)
                stats.case(('Wseq', start, first, reuse, chain) + rest, nontrivial=stats.counters['W_saves_rewriting'] > n0)
                for x in vs:
                    stats.violation(x['sig'], x['case'], x['message'])
    return stats


def finish(total, tier):
    errs = []
    if total.counters.get('W_saves_rewriting', 0) < 500:
        errs.append('vacuity: fewer than 500 saves rewrote a sub-Manifest')
    k = ' '.join(total.outcomes)
    for src in ('ctor', 'both'):
        if not total.counters.get('W1_src_' + src):
            errs.append(f'vacuity: no save with watermark source {src!r}')
    for need in ('T/dir/ret', 'T/dir/exc:ManifestMismatch', 'T/find_dist/ret', 'W/rewritten='):
        if need not in k:
            errs.append(f'vacuity: {need} not observed')
    return errs
