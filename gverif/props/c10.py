"""C10 — update never touches what it does not own.

Explicit-state search (BFS over operation histories, canonical-hash
deduplication) from several base states.  A state is (disk, loader); it is
rebuilt by replaying its history on a fresh scratch directory.  Each transition
executes ONE real operation (loader construction, verify, lookups, update of a
directory / a single path, save variants, CLI commands, environment edits that
make a later update fail part-way) under a write-audit hook and between two
disk snapshots; invariants I1-I4 of DESIGN.md §C10 are evaluated on it.
"""

import collections
import os

from gverif import gem, refmanifest as rm, scen, seams
from gverif.common import fresh_root
from gverif.evidence import Stats, digest
from gverif.refverify import comp_prefix
from gverif.treemodel import Tree, comp_of, decompress, snapshot

PID = 'C10'
LEVEL = 'model_checking'
RULE = ('BFS over operation histories (depth <= 4 quick / 5 thorough) from 6 base states; alphabet: new/discard '
        'loader, verify(/sub), find_path_entry, find_dist_entry, verify_path, update dir (/sub), update single path, '
        'save (plain/force/sort/watermark), CLI verify/update/update-sub, environment edits (alter/add/delete file, '
        'directory in place of a listed file, symlink loop, injected OSError during the update scan); a state = '
        'canonical (data files with mtimes, Manifest bytes, loader contents); non-trivial = a transition that '
        'executes a gemato operation on a loader or tree that differs from the base state')
ASSUMPTIONS = [
    'write detection = sys.addaudithook events (open for writing, remove, rename, mkdir, utime, ...) below the '
    'tree root + byte/mtime_ns snapshots before and after every operation',
    'preservation is compared per logical Manifest (name without compression suffix) with the reference parser',
    'CLI update may refresh the value of an existing TIMESTAMP (cli.py does so by design); its presence must persist',
]

TOP = scen.TOP
H = ['SHA1']
BASES = ['tags_rich', 'flat_rich', 'nested_gz_None', 'nested_None_xz', 'dup_parent_child', 'two_in_dir', 'twin_names']

# operations: (name, needs_loader, kind)   kind: env | read | update | save | cli_read | cli_write
OPS = [
    ('new', False, 'read'), ('discard', True, 'env'),
    ('verify', True, 'read'), ('verify_sub', True, 'read'), ('find_path', True, 'read'),
    ('find_dist', True, 'read'), ('verify_path', True, 'read'),
    ('upd', True, 'update'), ('upd_sub', True, 'update'), ('upd_entry', True, 'update'),
    ('upd_fault', True, 'update'), ('upd_entry_distname', True, 'update'),
    ('save', True, 'save'), ('save_force', True, 'save'), ('save_sort', True, 'save'), ('save_wm0', True, 'save'),
    ('save_wmhuge', True, 'save'),
    ('cli_verify', False, 'cli_read'), ('cli_update', False, 'cli_write'), ('cli_update_sub', False, 'cli_write'),
    ('cli_create', False, 'cli_write'),
    ('edit_alter', False, 'env'), ('edit_add', False, 'env'), ('edit_delete', False, 'env'),
    ('edit_delete_f1', False, 'env'),
    ('env_dir_for_file', False, 'env'), ('env_loop', False, 'env'),
]
OPKIND = {n: k for n, _l, k in OPS}
QUICK_SKIP = {'save_wmhuge', 'verify_sub', 'find_dist', 'verify_path', 'edit_delete'}


def ops_for(tier):
    return [o for o in OPS if tier != 'quick' or o[0] not in QUICK_SKIP]


class World:
    def __init__(self, root):
        self.root = root
        self.loader = None
        self.scopes = []          # directories / paths updated on the current loader
        self.failed = False

    def loader_key(self):
        m = self.loader
        if m is None:
            return None
        lm = tuple(sorted((k, tuple(rm.from_gemato(e) for e in v.entries))
                          for k, v in m.loaded_manifests.items()))
        return (lm, tuple(sorted(m.updated_manifests)), m.top_level_manifest_filename,
                tuple(self.scopes))


def do_op(w, op):
    """Execute one operation; -> observation brief.  gemato exceptions are observations."""
    root = w.root
    j = (lambda p: os.path.join(root, p))
    if op == 'new':
        w.loader = None
        w.scopes = []
        o = gem.call(lambda: gem.loader(root, TOP, hashes=list(H)))
        if o['kind'] == 'ret':
            w.loader = o['value']
            return 'ret:loader'
        return gem.brief(o)
    if op == 'discard':
        w.loader = None
        w.scopes = []
        return 'ok'
    m = w.loader
    if op == 'verify':
        return gem.brief(gem.call(lambda: m.assert_directory_verifies('')))
    if op == 'verify_sub':
        return gem.brief(gem.call(lambda: m.assert_directory_verifies('d')))
    if op == 'find_path':
        return gem.brief(gem.call(lambda: m.find_path_entry('d/f1')))
    if op == 'find_dist':
        return gem.brief(gem.call(lambda: m.find_dist_entry('sub.tar', 'd')))
    if op == 'verify_path':
        return gem.brief(gem.call(lambda: m.verify_path('d/f1')))
    if op == 'upd':
        w.scopes.append('')
        return gem.brief(gem.call(lambda: m.update_entries_for_directory('')))
    if op == 'upd_sub':
        w.scopes.append('d')
        return gem.brief(gem.call(lambda: m.update_entries_for_directory('d')))
    if op == 'upd_entry':
        w.scopes.append('d/f1')
        return gem.brief(gem.call(lambda: m.update_entry_for_path('d/f1')))
    if op == 'upd_entry_distname':
        # single-path update of a path that is named like a DIST entry of the governing Manifest
        w.scopes.append('d/c.tar')
        return gem.brief(gem.call(lambda: m.update_entry_for_path('d/c.tar')))
    if op == 'upd_fault':
        w.scopes.append('')

        def go():
            # one injected EIO at the 7th environment call of the scan
            with seams.Faults(root, fail_at=7):
                m.update_entries_for_directory('')
        return gem.brief(gem.call(go))
    if op == 'save':
        return gem.brief(gem.call(lambda: m.save_manifests()))
    if op == 'save_force':
        return gem.brief(gem.call(lambda: m.save_manifests(force=True)))
    if op == 'save_sort':
        return gem.brief(gem.call(lambda: m.save_manifests(sort=True)))
    if op == 'save_wm0':
        return gem.brief(gem.call(lambda: m.save_manifests(compress_watermark=0, compress_format='bz2')))
    if op == 'save_wmhuge':
        return gem.brief(gem.call(lambda: m.save_manifests(compress_watermark=10 ** 6)))
    if op == 'cli_verify':
        return 'exit:%r' % gem.cli(['verify', root]).get('exit')
    if op == 'cli_create':
        # `gemato create` on a tree that already has Manifests: like update, but it was never asked for a TIMESTAMP
        w.loader = None
        w.scopes = []
        return 'exit:%r' % gem.cli(['create', '-H', 'SHA1', root]).get('exit')
    if op in ('cli_update', 'cli_update_sub'):
        # another process rewrote the Manifests: a loader created earlier is stale
        # from here on (single-actor property), so it is discarded
        w.loader = None
        w.scopes = []
        return 'exit:%r' % gem.cli(['update', '-H', 'SHA1', root if op == 'cli_update' else j('d')]).get('exit')
    if op == 'edit_alter':
        if os.path.isfile(j('d/f1')) and not os.path.islink(j('d/f1')):
            with open(j('d/f1'), 'ab') as f:
                f.write(b'+')
            os.utime(j('d/f1'), (1500000100, 1500000100))
        return 'ok'
    if op == 'edit_add':
        if os.path.isdir(j('d')):
            with open(j('d/new'), 'wb') as f:
                f.write(b'n')
            os.utime(j('d/new'), (1500000100, 1500000100))
        return 'ok'
    if op == 'edit_delete_f1':
        if os.path.isfile(j('d/f1')):
            os.unlink(j('d/f1'))
        return 'ok'
    if op == 'edit_delete':
        if os.path.isfile(j('g/f3')):
            os.unlink(j('g/f3'))
        return 'ok'
    if op == 'env_dir_for_file':
        if os.path.isfile(j('f0')):
            os.unlink(j('f0'))
            os.mkdir(j('f0'))
        return 'ok'
    if op == 'env_loop':
        if not os.path.lexists(j('g/loop')) and os.path.isdir(j('g')):
            os.symlink('..', j('g/loop'))
        return 'ok'
    raise ValueError(op)


def is_manifest_name(p):
    return os.path.basename(p).startswith('Manifest')


def logical(p):
    c = comp_of(os.path.basename(p))
    return p[:-len(c) - 1] if c else p


def parse_manifests(snap):
    """logical path -> (real path, entries) for every parsable Manifest file."""
    out = {}
    for p, v in snap.items():
        if v[0] == 'f' and is_manifest_name(p):
            try:
                text = decompress(v[1], comp_of(os.path.basename(p))).decode('utf8')
            except Exception:
                continue
            st, ents = rm.parse(text)
            if st == 'ok':
                out[logical(p)] = (p, ents)
    return out


def check_transition(op, before, after, events, scopes, obs):
    """-> list of (check, detail)"""
    bad = []
    kind = OPKIND[op]
    if kind == 'env':
        return bad
    # I1: data files untouched by every gemato operation
    for p in set(before) | set(after):
        if is_manifest_name(p):
            continue
        if before.get(p) != after.get(p):
            bad.append(('data_file_touched', f'{op}: {p!r} {str(before.get(p))[:60]} -> {str(after.get(p))[:60]}'))
    ev_data = [e for e in events if not is_manifest_name(e[1])]
    if ev_data:
        bad.append(('write_event_on_non_manifest', f'{op}: {ev_data[:3]}'))
    writes = kind in ('save', 'cli_write')
    if not writes:
        # I2: nothing at all is written outside a save
        if events:
            bad.append(('write_before_save', f'{op}: audit events {events[:3]}'))
        for p in set(before) | set(after):
            if is_manifest_name(p) and before.get(p) != after.get(p):
                bad.append(('manifest_changed_without_save', f'{op}: {p!r}'))
        return bad
    # I3: preservation across a save
    pb, pa = parse_manifests(before), parse_manifests(after)
    for lp, (_rp, eb) in pb.items():
        if lp not in pa:
            if not any(logical(p) == lp for p in after):
                bad.append(('manifest_vanished', f'{op}: {lp!r}'))
            continue
        ea = pa[lp][1]
        d = os.path.dirname(lp)
        for tag in ('DIST', 'IGNORE'):
            cb = collections.Counter(e for e in eb if e[0] == tag)
            ca = collections.Counter(e for e in ea if e[0] == tag)
            if cb != ca:
                bad.append((f'{tag}_not_preserved', f'{op}: {lp!r}: {dict(cb)} -> {dict(ca)}'))
        tb = [e for e in eb if e[0] == 'TIMESTAMP']
        ta = [e for e in ea if e[0] == 'TIMESTAMP']
        if kind == 'cli_write' and op == 'cli_update':
            # whole-tree CLI update may refresh the value of an existing TIMESTAMP (cli.py does so by design)
            if len(tb) != len(ta):
                bad.append(('TIMESTAMP_not_preserved', f'{op}: {lp!r}: {tb} -> {ta}'))
        elif tb != ta:
            bad.append(('TIMESTAMP_not_preserved', f'{op}: {lp!r}: {tb} -> {ta}'))
    # tags of surviving entries, and out-of-scope entries, over all Manifests
    def index(pm):
        ix = collections.defaultdict(list)
        for lp, (_rp, ents) in pm.items():
            d = os.path.dirname(lp)
            for e in ents:
                if e[0] in rm.FILE_TAGS and e[0] != 'DIST':
                    full = (d + '/' if d else '') + rm.full_path(e[0], e[1])
                    ix[full].append((lp, e))
        return ix
    ib, ia = index(pb), index(pa)
    eff_scopes = list(scopes)
    if op in ('cli_update', 'cli_create'):
        eff_scopes = ['']
    elif op == 'cli_update_sub':
        eff_scopes = ['d']
    for full, lst in ib.items():
        tags_b = sorted(e[0] for _lp, e in lst)
        if full in ia:
            tags_a = sorted(e[0] for _lp, e in ia[full])
            if not set(tags_a) <= set(tags_b):
                bad.append(('entry_retyped', f'{op}: {full!r}: {tags_b} -> {tags_a}'))
        in_scope = any(comp_prefix(full, s) for s in eff_scopes)
        if in_scope:
            continue
        is_manifest_entry = all(e[0] == 'MANIFEST' for _lp, e in lst)
        if is_manifest_entry:
            # MANIFEST entries may be refreshed when the Manifest they name is on
            # the chain above (or inside) an updated directory, or on a forced save
            md = os.path.dirname(full)
            related = any(comp_prefix(s, md) or comp_prefix(md, s) for s in eff_scopes)
            if related or op in ('save_force', 'save_wm0', 'save_wmhuge'):
                continue
        a = sorted((lp, e) for lp, e in ia.get(full, []))
        b = sorted(lst)
        if a != b:
            if is_manifest_entry and [x[0] for x in a] == [x[0] for x in b] and \
                    any(logical(q) == logical(full) for q in after):
                # same logical Manifest re-referenced after a compression rename
                if op in ('save_wm0', 'save_wmhuge'):
                    continue
            bad.append(('out_of_scope_entry_changed', f'{op}: {full!r}: {b} -> {a} (scopes={eff_scopes})'))
    return bad


def state_key(w, snap):
    disk = tuple(sorted((p, v if not (v[0] == 'f' and is_manifest_name(p)) else ('f', v[1]))
                        for p, v in snap.items()))
    return digest((disk, w.loader_key()))


def run_history(base, hist, scratch, check_last=True):
    """Replay hist on a fresh world; check invariants on every transition when
    check_last is False, else only on the last one.  -> (world, key, violations, obs)"""
    root = fresh_root(scratch)
    base.write(root)
    w = World(root)
    viols = []
    obs = None
    snap = snapshot(root)
    for i, op in enumerate(hist):
        if OPKIND[op] != 'env' and op != 'new' and w.loader is None and dict((n, l) for n, l, _k in OPS)[op]:
            return None
        before = snap
        scopes_before = list(w.scopes)
        with seams.write_audit(root) as events:
            obs = do_op(w, op)
        events = [(e, p[len(root) + 1:]) for e, p in events]
        snap = snapshot(root)
        if (not check_last) or i == len(hist) - 1:
            scopes = w.scopes if OPKIND[op] != 'env' else scopes_before
            for check, detail in check_transition(op, before, snap, events, scopes, obs):
                viols.append((check, detail))
    return w, state_key(w, snap), viols, obs


def replay(case, scratch):
    base = Tree.from_json(case['tree'])
    r = run_history(base, case['history'], scratch, check_last=False)
    out = []
    if r is None:
        return out
    for check, detail in r[2]:
        out.append({'sig': {'check': check, 'base': case['base'], 'op': detail.split(':')[0]},
                    'case': case, 'message': f'{check}: {detail} after history {case["history"]}'})
    return out


def shards(tier, seed):
    # shard by base state and the first two operations (plus one shard per base
    # that evaluates the single-operation histories)
    out = []
    ops = ops_for(tier)
    free = [op for op, needs, _k in ops if not needs]
    for b in BASES:
        out.append((b, None, None))
        for op1 in free:
            for op2, needs2, _k in ops:
                if needs2 and op1 != 'new':
                    continue
                if op2 == op1 and OPKIND[op1] in ('env', 'read', 'cli_read'):
                    continue
                out.append((b, op1, op2))
    return out


def run_shard(spec, tier, seed, scratch):
    stats = Stats()
    bname, first, second = spec
    base = dict(scen.priors())[bname]().build()
    tj = base.to_json()
    maxd = 4 if tier == 'quick' else 5
    seen = set()
    if first is None:
        frontier = collections.deque([[op] for op, nl, _k in ops_for(tier) if not nl])
        maxd = 1
    else:
        frontier = collections.deque([[first, second]])
    needs = {n: l for n, l, _k in OPS}
    while frontier:
        hist = frontier.popleft()
        r = run_history(base, hist, scratch)
        if r is None:
            continue
        w, key, viols, obs = r
        stats.evaluations += 1
        stats.transitions += len(hist)
        stats.compared += 1
        stats.outcomes[f'{hist[-1]}/{obs}'] += 1
        for check, detail in viols:
            case = {'tree': tj, 'base': bname, 'history': hist}
            stats.violation({'check': check, 'base': bname, 'op': hist[-1]}, case,
                            f'{check}: {detail} after history {hist}')
        if key in seen:
            continue
        seen.add(key)
        stats.case((bname, key), nontrivial=len(hist) > 1)
        if len(stats.samples) < 1 and len(hist) == maxd:
            stats.sample({'base': bname, 'history': hist, 'last_observation': obs})
        if len(hist) >= maxd:
            continue
        for op, nl, _k in ops_for(tier):
            if nl and w.loader is None:
                continue
            if op == hist[-1] and OPKIND[op] in ('env', 'read', 'cli_read'):
                continue        # idempotent repetition: same state, nothing new
            frontier.append(hist + [op])
    stats.counters['max_depth'] = max(stats.counters['max_depth'], maxd)
    return stats


def finish(total, tier):
    errs = []
    keys = ' '.join(total.outcomes)
    for need in ('save/ret:None', 'upd/ret:None', 'upd/exc:ManifestInvalidPath', 'upd/exc:ManifestSymlinkLoop',
                 'upd_fault/exc:OSError', 'cli_update/exit:0'):
        if need not in keys:
            errs.append(f'vacuity: outcome {need} never observed')
    return errs
