"""C07 — keep-going mode reports every offending path exactly once; exit status
reflects any failure.

All discrepancy sets over <=4 (quick) / <=6 (thorough) listed files spread over
several directories, x verified sub-path x handler policy x directory
enumeration order; the recording handler's multiset of paths is compared with
the reference offender set of gverif.refverify.
"""

import collections
import itertools
import os

from gverif import gem, refverify, seams
from gverif.common import fresh_root
from gverif.evidence import Stats
from gverif.treemodel import MSpec, Tree, render_layout

PID = 'C07'
LEVEL = 'model_checking'
RULE = ('base trees (files spread over 2-3 directories incl. nested, hidden and look-alike names) x every '
        'assignment of {ok, missing, altered-same-size, altered-size, replaced-by-directory, its directory replaced by a regular file} to the listed '
        'files x stray-file sets x verified sub-path x handler policy x scandir order; case = that tuple; '
        'non-trivial = at least one discrepancy and a definite reference offender set')
ASSUMPTIONS = [
    'reference offender set from gverif/refverify.py (independent of gemato)',
    'order of handler calls is not constrained; offenders under IGNOREd paths and files beneath a '
    'directory that replaced a listed file are DONT_CARE',
    'CLI: each offender must be the .path of exactly one ManifestMismatch object logged at ERROR level '
    '(the logged exception object is inspected, not the wording of its message); exit status non-zero iff offenders',
    'CLI with several paths (every case verified at the tree root): verify -k over all non-hidden top-level directories in '
    'sorted and in reversed order; expected = multiset union of the per-path reference offender sets',
]

TOP = 'Manifest'

LAYOUTS = {
    # name: (files, sub-Manifest dirs)
    'two_dirs': (['a/f1', 'b/f2', 'f0'], []),
    'nested': (['a/f1', 'a/c/f2', 'b/f3', 'f0'], []),
    'nested_sub': (['a/f1', 'a/c/f2', 'b/f3', 'f0'], ['a']),
    'lookalike': (['a/f1', 'ab/f2', 'ab/a/f3'], ['ab']),
    'hidden': (['a/f1', 'b/.hid', '.hd/f2', 'b/f3'], []),
    'hidden_nested': (['a/.hd/f1', 'a/f2', 'a/c/.hd2/f3', 'b/f4'], []),
    'six': (['a/f1', 'a/f2', 'b/f3', 'b/c/f4', 'd/f5', 'f0'], ['b']),
}
STATES = ('ok', 'missing', 'altered', 'resized', 'dir', 'pfile')
POLICIES = ('false', 'true', 'none', 'first_false', 'last_false')


def build(layout, states, strays):
    files, subs = LAYOUTS[layout]
    content = {p: ('c-' + p).encode() for p in files}
    specs = {TOP: []}
    for d in subs:
        specs[d + '/Manifest'] = []
    for p in files:
        home = TOP
        for d in sorted(subs, key=len, reverse=True):
            if p.startswith(d + '/'):
                home = d + '/Manifest'
                break
        specs[home].append(('F', 'DATA', p, ('SHA1',)))
    for d in subs:
        specs[TOP].append(('M', d + '/Manifest', ('SHA1',)))
    t = Tree(content)
    render_layout(t, [MSpec(k, v) for k, v in specs.items()])
    for p, st in zip(files, states):
        if st == 'missing':
            del t.files[p]
        elif st == 'altered':
            t.files[p] = t.files[p].swapcase()
        elif st == 'resized':
            t.files[p] += b'+'
        elif st == 'dir':
            del t.files[p]
            t.dirs.add(p)
    for p, st in zip(files, states):
        if st == 'pfile' and '/' in p:
            # the file's directory becomes a regular file: everything listed beneath it is missing now, and the
            # regular file itself is a stray
            d = os.path.dirname(p)
            if any(d == q or d.startswith(q + '/') for q in t.files):
                continue        # that directory (or one above it) is a regular file already
            for q in [q for q in t.files if q.startswith(d + '/')]:
                del t.files[q]
            for q in [q for q in t.dirs if q == d or q.startswith(d + '/')]:
                t.dirs.discard(q)
            t.files[d] = b'was a directory'
    for d in strays:
        if d.rstrip('#M') and (d.rstrip('#M') in t.files or any(d.rstrip('#M').startswith(q + '/') for q in t.files)):
            continue        # that directory is a regular file now
        name = 'stray'
        if d.endswith('#M'):
            # a stray file that is named like a Manifest (only the real top-level one may be skipped)
            d, name = d[:-2], 'Manifest'
        # (the Manifest-named stray is an empty, i.e. syntactically valid, Manifest: the CLI's top-level
        # discovery parses every file called Manifest on the way up)
        t.files[os.path.join(d, name) if d else name] = b's' if name == 'stray' else b''
    return t


def run_keepgoing(root, path, policy, n_expected):
    calls = []

    def handler(e):
        calls.append(e.path)
        if policy == 'false':
            return False
        if policy == 'true':
            return True
        if policy == 'none':
            return None
        if policy == 'first_false':
            return False if len(calls) == 1 else True
        if policy == 'last_false':
            return False if len(calls) == n_expected else True
    o = gem.lib_verify(root, TOP, path, fail_handler=handler)
    return o, calls


def check_case(case, scratch, stats=None):
    root = fresh_root(scratch)
    Tree.from_json(case['tree']).write(root)
    path, policy, order = case['path'], case['policy'], case['order']
    v = refverify.expected_verify(root, TOP, path)
    out = []
    if stats is not None:
        stats.evaluations += 1
    dc = v.kind == 'dontcare' or v.chain_broken or v.conflicts or v.enotdir or v.oserror
    # files below a directory that stands in place of a listed file are not descended into
    if dc:
        if stats is not None:
            stats.dontcare[(v.dc or ['chain/conflict/enotdir'])[0]] += 1
        return out
    expected = collections.Counter(v.offenders.keys())
    n = sum(expected.values())
    ofn = seams.order_sorted if order == 'sorted' else seams.order_reversed
    fd0 = len(os.listdir('/proc/self/fd'))
    with seams.scandir_order(ofn):
        o, calls = run_keepgoing(root, path, policy, n)
    fd1 = len(os.listdir('/proc/self/fd'))
    got = collections.Counter(calls)
    if policy in ('false',):
        exp_ret = (n == 0)
    elif policy in ('true', 'none'):
        exp_ret = True
    else:
        exp_ret = (n == 0)
    if stats is not None:
        stats.transitions += 1
        stats.compared += 1
        stats.outcomes[f'offenders={min(n, 3)}{"+" if n > 3 else ""}/{policy}/{gem.brief(o)}'] += 1

    def viol(check, msg):
        out.append({'sig': {'check': check, 'iface': case.get('iface', 'lib'), 'policy': policy},
                    'case': case, 'message': f'{check}: {msg} (path={path!r} policy={policy} order={order})'})
    if fd1 != fd0:
        # one descriptor lost per offender means a tree with more offenders than
        # RLIMIT_NOFILE cannot be reported completely (EMFILE aborts the scan)
        viol('descriptor_leak', f'{fd1 - fd0} file descriptors still open after a keep-going run with {n} offenders')
    if o['kind'] != 'ret':
        viol('keepgoing_raised', f'got {gem.brief(o)}; expected offenders {dict(expected)}')
    else:
        if got != expected:
            missing = sorted((expected - got).elements())
            extra = sorted((got - expected).elements())
            viol('offender_set_differs', f'not reported: {missing}; reported without cause / twice: {extra}')
        elif o['value'] is not exp_ret:
            viol('wrong_overall_result', f'returned {o["value"]!r}, expected {exp_ret!r} with {n} offenders')
    # CLI -k (handler always returns False)
    if policy == 'false' and order == 'sorted':
        oc = gem.cli(['verify', '-k', os.path.join(root, path) if path else root])
        if stats is not None:
            stats.transitions += 1
        rep = collections.Counter()
        for (lv, m), info in zip(oc['log'], oc['log_info']):
            if lv != 'ERROR':
                continue
            if info is not None and info['exc'] == 'ManifestMismatch' and info['path'] is not None:
                rep[info['path']] += 1          # the logged exception object itself, not its wording
            else:
                rep['<other>:' + m.split('\n')[0]] += 1
        # the statement says "non-zero exit status", not a particular value
        bad_exit = (oc.get('exit') != 0) if n == 0 else (not isinstance(oc.get('exit'), int) or oc.get('exit') == 0)
        want_exit = 0 if n == 0 else 'non-zero'
        if bad_exit:
            out.append({'sig': {'check': 'cli_exit_status', 'iface': 'cli', 'policy': 'false'}, 'case': case,
                        'message': f'cli_exit_status: verify -k exit {oc.get("exit")!r} ({gem.brief(oc)}), '
                        f'expected {want_exit} with offenders {dict(expected)}'})
        elif rep != expected:
            out.append({'sig': {'check': 'cli_reported_set_differs', 'iface': 'cli', 'policy': 'false'}, 'case': case,
                        'message': f'cli_reported_set_differs: logged {dict(rep)}, expected {dict(expected)}'})
        # the same over SEVERAL paths in one invocation (all top-level directories, both orders): every path is
        # scanned, each offender of each path is logged once, exit status non-zero iff any path has an offender
        if path == '':
            tops = sorted({p.split('/')[0] for p in Tree.from_json(case['tree']).all_dirs()
                           if p and not p.startswith('.')})
            for paths in ([tops, tops[::-1]] if len(tops) > 1 else []):
                exp_m = collections.Counter()
                definite = True
                for sp in paths:
                    vv = refverify.expected_verify(root, TOP, sp)
                    if vv.kind == 'dontcare' or vv.chain_broken or vv.conflicts or vv.enotdir or vv.oserror:
                        definite = False
                        break
                    exp_m.update(vv.offenders.keys())
                if not definite:
                    continue
                om = gem.cli(['verify', '-k'] + [os.path.join(root, sp) for sp in paths])
                if stats is not None:
                    stats.transitions += 1
                    stats.counters['cli_multi_path_runs'] += 1
                    if exp_m:
                        stats.counters['cli_multi_path_runs_with_offenders'] += 1
                repm = collections.Counter()
                for (lv, m), info in zip(om['log'], om['log_info']):
                    if lv != 'ERROR':
                        continue
                    if info is not None and info['exc'] == 'ManifestMismatch' and info['path'] is not None:
                        repm[info['path']] += 1
                    else:
                        repm['<other>:' + m.split('\n')[0]] += 1
                nm = sum(exp_m.values())
                bad_exit = (om.get('exit') != 0) if nm == 0 else (not isinstance(om.get('exit'), int)
                                                                  or om.get('exit') == 0)
                if bad_exit:
                    out.append({'sig': {'check': 'cli_multi_path_exit_status', 'iface': 'cli', 'policy': 'false'},
                                'case': case,
                                'message': f'cli_multi_path_exit_status: verify -k {paths} exit {om.get("exit")!r} '
                                f'({gem.brief(om)}), expected {"0" if nm == 0 else "non-zero"} with offenders {dict(exp_m)}'})
                elif repm != exp_m:
                    out.append({'sig': {'check': 'cli_multi_path_reported_set_differs', 'iface': 'cli', 'policy': 'false'},
                                'case': case,
                                'message': f'cli_multi_path_reported_set_differs: verify -k {paths} logged {dict(repm)}, '
                                f'expected {dict(exp_m)}'})
    return out


def replay(case, scratch):
    return check_case(case, scratch)


def shards(tier, seed):
    out = []
    for layout, (files, _s) in LAYOUTS.items():
        if tier == 'quick' and len(files) > 4:
            continue
        # shard by the state of the first file and first stray flag
        for s0 in STATES:
            out.append((layout, s0))
    return out


def run_shard(spec, tier, seed, scratch):
    stats = Stats()
    layout, s0 = spec
    files, _subs = LAYOUTS[layout]
    dirs = sorted({os.path.dirname(p) for p in files} | {''})
    alld = sorted(Tree({p: b'' for p in files}).all_dirs() | {''})
    vdirs = [d for d in alld]
    nfiles = len(files)
    state_menu = STATES if (nfiles <= 4 and tier == 'thorough') else ('ok', 'missing', 'altered', 'dir', 'pfile')
    if s0 not in state_menu:
        return stats
    stray_sets = [()] + [(d,) for d in dirs] + [tuple(dirs)]
    stray_sets += [(d + '#M',) for d in dirs if d and d not in _subs]
    stray_sets += [tuple(d + '#M' for d in dirs if d and d not in _subs) + ('',)]
    for rest in itertools.product(state_menu, repeat=nfiles - 1):
        states = (s0,) + rest
        npf = states.count('pfile')
        if tier == 'quick' and (npf > 1 or (npf == 1 and sum(x != 'ok' for x in states) > 2)):
            continue        # quick: one directory-turned-file together with at most one other discrepancy
        for strays in stray_sets:
            if tier == 'quick' and npf and len(strays) > 1:
                continue
            if nfiles > 4 and strays and sum(s != 'ok' for s in states) > 2:
                continue
            tree = build(layout, states, strays)
            tj = tree.to_json()
            for path in vdirs:
                for policy in POLICIES:
                    for order in ('sorted', 'reversed'):
                        if policy in ('true', 'none') and order == 'reversed':
                            continue
                        if tier == 'quick' and (policy == 'none' or (order == 'reversed' and policy != 'false')):
                            continue
                        if tier == 'quick' and any(x.endswith('#M') for x in strays) and policy not in ('false', 'first_false'):
                            continue
                        desc = (layout, states, strays, path, policy, order)
                        case = {'tree': tj, 'path': path, 'policy': policy, 'order': order,
                                'desc': repr(desc)}
                        vs = check_case(case, scratch, stats)
                        ndisc = sum(s != 'ok' for s in states) + len(strays)
                        stats.case(desc, nontrivial=ndisc > 0)
                        if ndisc >= 3 and len(stats.samples) < 2:
                            stats.sample({'layout': layout, 'files': files, 'states': states,
                                          'stray_in': strays, 'verify_path': path, 'policy': policy,
                                          'order': order})
                        for x in vs:
                            stats.violation(x['sig'], x['case'], x['message'])
    return stats


def finish(total, tier):
    errs = []
    if not any(k.startswith('offenders=3') for k in total.outcomes):
        errs.append('vacuity: no case with >=3 simultaneous offenders')
    if not any(k.startswith('offenders=0') for k in total.outcomes):
        errs.append('vacuity: no clean case')
    if not total.counters.get('cli_multi_path_runs_with_offenders'):
        errs.append('vacuity: no multi-path CLI run with offenders')
    return errs
