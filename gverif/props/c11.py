"""C11 — incremental update equals full update.

Family 'hist' (the *history* and *configuration* quantifiers).  Two replicas of one
tree, both created with ``gemato create -t -H SHA1``: A is only ever updated with
``gemato update --incremental -H SHA1 <dir>``, B with the full ``gemato update -H SHA1
<dir>``.  Every history of R rounds (2 quick, 3 thorough) is played: a round is one
applicable operation from {modify content keeping the size, modify content changing the
size, add a file, delete a file, touch only, replace by a new inode with equal content}
on one of three file slots, giving the file an explicit mtime in one of four classes
relative to the TIMESTAMP replica A carried before the round (T-1 s, T, T+0.5 s, T+1 s),
followed by one update of each replica at a harness-owned clock value.  All of that in
the local time zones UTC, XXX-3 (east) and XXX5 (west), with a flat and a nested
(sub-directory Manifest) layout and with the scan starting on a whole second or at
T+0.7 s.

Family 'inflight' (the *schedule* quantifier).  While an update (incremental or full) is
running, right after the k-th per-file call of ``update_entry_for_path`` has returned
(k = 0: right after the start time has been taken), file j is rewritten (same size /
other size) with mtime = the instant of the edit (scan start + 0, + 0.5 s, + 2 s); either
nothing else had changed (the running update then keeps the old TIMESTAMP) or another
file had (it writes a fresh TIMESTAMP).  Then one more ``update --incremental`` runs
100 s later and, on the same directory and at the same instant, a full update: the full
update must have nothing left to correct.

Oracle (three-valued).  MUST: after a round in which every content-modified file has a
changed size or an mtime strictly later than the previous TIMESTAMP, the reference-parsed
entries of *all* Manifest files of A and B are equal (TIMESTAMP lines excluded), and A
verifies.  ALWAYS: a TIMESTAMP found after an update is not later than the fake clock
value at which the scan started; B verifies (harness sanity).  DONT_CARE: same-size
modification with mtime <= previous TIMESTAMP (premise false); an *added* file whose mtime
is not later than the TIMESTAMP (is an added file a "modified file"? two readings); an
in-flight same-size edit whose mtime equals the whole second of the scan start.
An mtime of T+0.5 s counts as later than TIMESTAMP T (MUST): the TIMESTAMP is the scan start
rounded *down*, so a file written at T+0.5 may have been written after a scan that began at
T+0.2 and cannot be told apart from one hashed by a scan that began at T+0.9; re-hashing the
latter is harmless, skipping the former breaks the second sentence of the statement.
"""

import argparse
import contextlib
import datetime as _dt
import io
import logging
import os
import re
import time
import types

import gemato.cli
import gemato.recursiveloader

from gverif import gem, refmanifest as rm, seams
from gverif.common import fresh_root, rot
from gverif.evidence import Stats
from gverif.treemodel import snapshot, wipe

PID = 'C11'
LEVEL = 'model_checking'
RULE = ('hist: {UTC, XXX-3, XXX5} x {flat, nested layout} x {scan start on the second, +0.7 s} x every history '
        'of R rounds (R=2 quick; thorough: R=3 with whole-second clock, R=2 with +0.7 s) of one applicable '
        'operation {modify_same_size, modify_other_size, touch, replace_equal} x slot x mtime class {T-1, T, '
        'T+0.5, T+1 relative to A\'s previous TIMESTAMP} | add x absent slot x mtime class | delete x slot, '
        'each followed by `update --incremental` on replica A and `update` on replica B at fake instant '
        'T0+100*round; a state is a (configuration, history prefix); non-trivial = the round was judged MUST. '
        'inflight: the same configurations x running update {incremental, full} x k in 0..K (K = number of '
        'update_entry_for_path calls that carry the last_mtime keyword, i.e. the per-file calls of the walk) x '
        'file slot j x {same size, other size} x edit instant {scan start +0, +0.5 s, +2 s} x {no other pending '
        'change, another file changed beforehand}, then incremental + full update 100 s later')
ASSUMPTIONS = [
    'the clock is owned by replacing the name `datetime` inside gemato.cli with a stand-in module whose '
    'datetime.utcnow()/now() return the harness instant; it never advances on its own (only the in-flight hook '
    'and the harness move it); every update must consult it exactly once (checked)',
    'file mtimes are set explicitly (os.utime ns=) after every write; a Manifest that an update (re)wrote gets '
    'mtime = scan start + 1 s',
    'os.scandir order is pinned to sorted order so that "the k-th call" is reproducible',
    'create and round 1 of every history, the two updates under test of every in-flight case and every replay go '
    'through the unmodified gemato.cli.main (gem.cli); rounds >= 2 of the exploration (and create / comparison '
    'update / verify of the in-flight cases) run main()\'s body with the argparse tree built '
    'once per process instead of once per call (fresh command object per call); a behavioural difference between '
    'the two would surface as a violation that does not reproduce on stand-alone replay',
    'entries are compared per Manifest file as multisets (line order is not demanded); the size/digest of a '
    'MANIFEST entry for a sub-Manifest that is itself compared is left to `gemato verify` on replica A',
    'after a DONT_CARE round or a violation replica A is re-synchronised with one full update at the same fake '
    'instant and the history continues (the explored space does not depend on the verdicts)',
    'operations with mtime classes only for files that exist / slots that are absent; directories are never '
    'removed; only the default profile, SHA1, no compression, no signing; TIMESTAMP refresh without -t',
    'touch / replace_equal / delete rounds modify no content, so equality is demanded for every mtime class',
]

T0 = 1600000000                  # 2020-09-13T12:26:40Z, creation instant (whole seconds)
STEP = 100                       # seconds between rounds
OLD = T0 - 1000                  # mtime of the initial files
TZS = {'utc': ('UTC', 0), 'east': ('XXX-3', 3 * 3600), 'west': ('XXX5', -5 * 3600)}
LAYOUTS = ('flat', 'nested')
FRACS = (0, 700000)              # microseconds past the whole second at which a scan starts
MCLASSES = ('older', 'equal', 'frac', 'newer')
MC_NS = {'older': -10 ** 9, 'equal': 0, 'frac': 5 * 10 ** 8, 'newer': 10 ** 9}
EXISTING_OPS = ('modify_same_size', 'modify_other_size', 'touch', 'replace_equal')
DELTAS = (0, 500000, 2000000)    # in-flight edit instant, microseconds after the scan start
HASH = 'SHA1'

_FILES = ['a', 'b c', 'ü', 'q.x', 'ab']
_DIRS = ['d', 'e f', 'dé', 'sub']


class HarnessError(Exception):
    pass


# ------------------------------------------------------------------ clock and TZ seams

class _Clock:
    us = T0 * 10 ** 6            # the fake instant, integer microseconds since the epoch (UTC)
    calls = 0
    on_utcnow = None


CLOCK = _Clock()
_EPOCH = _dt.datetime(1970, 1, 1)


class _FakeDatetime(_dt.datetime):
    @classmethod
    def utcnow(cls):
        CLOCK.calls += 1
        r = _EPOCH + _dt.timedelta(microseconds=CLOCK.us)
        cb = CLOCK.on_utcnow
        if cb is not None:
            cb()
        return r

    @classmethod
    def now(cls, tz=None):
        CLOCK.calls += 1
        r = _dt.datetime.fromtimestamp(CLOCK.us / 1e6, tz)
        cb = CLOCK.on_utcnow
        if cb is not None:
            cb()
        return r

    @classmethod
    def today(cls):
        return cls.now()


_FAKE_MODULE = types.ModuleType('datetime')
_FAKE_MODULE.__dict__.update({k: v for k, v in vars(_dt).items() if not k.startswith('__')})
_FAKE_MODULE.datetime = _FakeDatetime


@contextlib.contextmanager
def harness_env(tz):
    """Own gemato.cli's clock and the process time zone for the duration of the block."""
    old_mod = gemato.cli.datetime
    old_tz = os.environ.get('TZ')
    gemato.cli.datetime = _FAKE_MODULE
    os.environ['TZ'] = TZS[tz][0]
    time.tzset()
    try:
        probe = time.localtime(T0)
        if probe.tm_gmtoff != TZS[tz][1]:
            raise HarnessError(f'TZ={TZS[tz][0]} did not take effect (gmtoff {probe.tm_gmtoff})')
        yield
    finally:
        gemato.cli.datetime = old_mod
        if old_tz is None:
            os.environ.pop('TZ', None)
        else:
            os.environ['TZ'] = old_tz
        time.tzset()
        CLOCK.on_utcnow = None


@contextlib.contextmanager
def inflight_hook(k, action):
    """Call action() once: after the k-th update_entry_for_path call that carries the
    last_mtime keyword has returned (k >= 1), or from inside utcnow() (k == 0).  k None:
    only count."""
    rl = gemato.recursiveloader
    orig = rl.update_entry_for_path
    st = {'n': 0, 'fired': 0}

    def fire():
        st['fired'] += 1
        action()

    def wrapped(*a, **kw):
        r = orig(*a, **kw)
        if 'last_mtime' in kw:
            st['n'] += 1
            if k is not None and k >= 1 and st['n'] == k:
                fire()
        return r
    rl.update_entry_for_path = wrapped
    CLOCK.on_utcnow = fire if k == 0 else None
    try:
        yield st
    finally:
        rl.update_entry_for_path = orig
        CLOCK.on_utcnow = None


# ------------------------------------------------------------------ tree helpers

def slot_paths(seed):
    f = rot(_FILES, seed)
    d = rot(_DIRS, seed)[0]
    return [f[0], d + '/' + f[1], d + '/' + f[2]]


def slot_dir(seed):
    return rot(_DIRS, seed)[0]


def initial_content(slot, seed):
    c = bytes([0x61 + (slot + seed) % 20])
    return c * (4 + 2 * slot)


def set_mtime_ns(path, ns):
    os.utime(path, ns=(ns, ns))


def write_file(path, data, ns):
    with open(path, 'wb') as f:
        f.write(data)
    set_mtime_ns(path, ns)


def build_tree(d, cfg, n_existing):
    os.makedirs(d)
    sp = slot_paths(cfg['seed'])
    os.makedirs(os.path.join(d, slot_dir(cfg['seed'])))
    for s in range(n_existing):
        write_file(os.path.join(d, sp[s]), initial_content(s, cfg['seed']), OLD * 10 ** 9)
    if cfg['layout'] == 'nested':
        write_file(os.path.join(d, slot_dir(cfg['seed']), 'Manifest'), b'', OLD * 10 ** 9)


def restore(d, snap):
    wipe(d)
    for p in sorted(snap):
        if snap[p][0] == 'd':
            os.makedirs(os.path.join(d, p), exist_ok=True)
    for p, v in snap.items():
        if v[0] == 'f':
            write_file(os.path.join(d, p), v[1], v[2])
        elif v[0] != 'd':
            raise HarnessError(f'unexpected object in replica: {p} {v[0]}')


def read_manifests(d):
    out = {}
    for dp, _dn, fn in os.walk(d):
        for f in fn:
            if f.startswith('Manifest'):
                p = os.path.join(dp, f)
                with open(p, 'rb') as fh:
                    out[os.path.relpath(p, d)] = fh.read()
    return out


_TS_RE = re.compile(r'^(\d{4})-(\d\d)-(\d\d)T(\d\d):(\d\d):(\d\d)Z$')


def ts_epoch(s):
    y, mo, d, h, mi, sec = (int(x) for x in _TS_RE.match(s).groups())
    delta = _dt.datetime(y, mo, d, h, mi, sec) - _EPOCH
    return delta.days * 86400 + delta.seconds


_PARSED = {}


def parsed(manis):
    """-> ({manifest path: sorted entries without TIMESTAMP}, TIMESTAMP epoch seconds,
    {manifest path: entries in file order}); memoised on the bytes (results are not mutated)"""
    key = tuple(sorted(manis.items()))
    r = _PARSED.get(key)
    if r is None:
        if len(_PARSED) > 4000:
            _PARSED.clear()
        r = _PARSED[key] = _parse_manifests(manis)
    return r


def _parse_manifests(manis):
    out, raw, stamps = {}, {}, []
    for p, b in manis.items():
        st, ents = rm.parse(b.decode('utf8'))
        if st != 'ok':
            raise HarnessError(f'reference parser: {p}: {st} {ents}')
        body = []
        for e in ents:
            if e[0] == 'TIMESTAMP':
                if p == 'Manifest':
                    stamps.append(e[1])
                continue
            if e[0] == 'MANIFEST' and os.path.normpath(os.path.join(os.path.dirname(p), e[1])) in manis:
                e = ('MANIFEST', e[1], None, ())
            body.append(e)
        raw[p] = body
        out[p] = sorted(body, key=repr)
    if len(stamps) != 1:
        raise HarnessError(f'top-level Manifest carries {len(stamps)} TIMESTAMP entries')
    return out, ts_epoch(stamps[0]), raw


def diff_paths(ea, eb):
    bad = []
    for p in sorted(set(ea) | set(eb)):
        a, b = ea.get(p), eb.get(p)
        if a == b:
            continue
        if a is None or b is None:
            bad.append(f'{p}: only in {"B" if a is None else "A"}')
            continue
        for e in a:
            if e not in b:
                bad.append(f'{p}: A has {rm.entry_line(e) if e[2] is not None else e}')
        for e in b:
            if e not in a:
                bad.append(f'{p}: B has {rm.entry_line(e) if e[2] is not None else e}')
    return bad


# ------------------------------------------------------------------ running gemato

_HOISTED = {}


def _main_with_hoisted_parser(argv):
    """gemato.cli.main(['gemato'] + argv) with the one implementation-independent part -
    building the argparse tree, about 60 % of the cost of a call on these tiny trees -
    done once per process.  Everything else is main()'s body: parse the arguments, give
    them to a *fresh* command object, call it, clean up, map GematoException to 1."""
    if not _HOISTED:
        argp = argparse.ArgumentParser(prog='gemato', description='Gentoo Manifest Tool')
        subp = argp.add_subparsers()
        for cmdclass in (gemato.cli.VerifyCommand, gemato.cli.UpdateCommand, gemato.cli.CreateCommand):
            cmd = cmdclass()
            cmdp = subp.add_parser(cmd.name, help=cmd.help)
            cmd.add_options(cmdp)
            cmdp.set_defaults(cmd=cmd)
        _HOISTED['argp'] = argp
    argp = _HOISTED['argp']
    vals = argp.parse_args(argv)
    cmd = type(vals.cmd)()
    try:
        try:
            cmd.parse_args(vals, argp)
            return cmd()
        finally:
            cmd.cleanup()
    except gemato.cli.GematoException as e:
        logging.error(e)
        return 1


def hoisted_cli(argv):
    """Same observation shape as gem.cli."""
    gem._handler.records = []
    out = io.StringIO()
    with contextlib.redirect_stdout(out), contextlib.redirect_stderr(out):
        o = gem.call(_main_with_hoisted_parser, list(argv))
    o['log'] = list(gem._handler.records)
    gem._handler.records = []
    return o


class Run:
    """Per-case context: configuration, statistics sink, collected violations."""

    def __init__(self, cfg, stats, hoist_from_round=None):
        self.cfg = cfg
        self.stats = stats if stats is not None else Stats()
        self.vio = []
        self.case = None
        self.hoist_from_round = hoist_from_round     # None: always the unmodified gemato.cli.main
        self.rnd = 0

    def violation(self, sig, message):
        sig = dict(sig, tz=self.cfg['tz'])
        self.vio.append({'sig': sig, 'case': self.case, 'message': message})

    def cli(self, argv):
        with seams.scandir_order(seams.order_sorted):
            if self.hoist_from_round is not None and self.rnd >= self.hoist_from_round:
                self.stats.counters['cli_calls_with_hoisted_parser'] += 1
                return hoisted_cli(argv)
            self.stats.counters['cli_calls_through_main'] += 1
            return gem.cli(argv)

    def verify(self, d):
        self.stats.counters['verify_runs'] += 1
        r = self.cli(['verify', d])
        return r['kind'] == 'ret' and r['value'] == 0, r

    def update(self, d, mode, start_us, what):
        """mode: 'create' | 'incr' | 'full'.  Runs the command with the scan starting at
        fake instant start_us; checks the TIMESTAMP; re-stamps rewritten Manifests.
        -> (ok, observation)"""
        before = read_manifests(d)
        ts_before = parsed(before)[1] if before.get('Manifest') else None
        argv = {'create': ['create', '-t'], 'incr': ['update', '--incremental'], 'full': ['update']}[mode]
        CLOCK.us = start_us
        calls0 = CLOCK.calls
        r = self.cli(argv + ['-H', HASH, d])
        self.stats.transitions += 1
        self.stats.outcomes[f'{mode}/{gem.brief(r)}'] += 1
        ok = r['kind'] == 'ret' and r['value'] == 0
        if not ok:
            self.violation({'check': 'update_failed', 'mode': mode, 'got': gem.brief(r),
                            'where': r.get('where')},
                           f'update_failed: {what}: `gemato {" ".join(argv)}` gave {gem.brief(r)} '
                           f'{r.get("msg") or r["log"][-1:]}')
            return False, r
        if CLOCK.calls != calls0 + 1:
            raise HarnessError(f'clock seam: {mode} consulted the fake clock {CLOCK.calls - calls0} times')
        after = read_manifests(d)
        for p, b in after.items():
            if before.get(p) != b:
                set_mtime_ns(os.path.join(d, p), (start_us + 10 ** 6) * 1000)
        ts_after = parsed(after)[1]
        if ts_after * 10 ** 6 > start_us:
            self.violation({'check': 'timestamp_later_than_scan_start'},
                           f'timestamp_later_than_scan_start: {what}: {mode} started scanning at fake instant '
                           f'{start_us / 1e6:.6f} (UTC epoch) but the Manifest now carries TIMESTAMP {ts_after} '
                           f'({ts_after - start_us / 1e6:+.1f} s), TZ={TZS[self.cfg["tz"]][0]}')
        elif ts_after not in (ts_before, start_us // 10 ** 6):
            self.stats.counters['clock_seam_mismatch'] += 1
            if len(self.stats.notes) < 4:
                self.stats.notes.append(f'TIMESTAMP {ts_after} is neither the previous one ({ts_before}) nor '
                                        f'the fake scan start {start_us // 10 ** 6} (tz={self.cfg["tz"]}, {mode})')
        else:
            self.stats.counters['timestamp_refreshed' if ts_after == start_us // 10 ** 6
                                else 'timestamp_kept'] += 1
        return True, r


def new_content(old, op, slot, seed):
    if op == 'modify_same_size':
        return bytes([(old[0] + 1) % 256]) + old[1:]
    if op == 'modify_other_size':
        if not old:
            return bytes([0x6e, 0x30 + (slot + seed) % 10])
        if slot == 2:
            return b''
        return old + b'+'
    raise ValueError(op)


def apply_op(d, cfg, choice, ts_prev):
    """Apply one operation to replica directory d.  -> mtime ns given (or None)"""
    op, slot, mc = choice
    p = os.path.join(d, slot_paths(cfg['seed'])[slot])
    ns = None if mc is None else ts_prev * 10 ** 9 + MC_NS[mc]
    if op == 'delete':
        os.unlink(p)
        return None
    if op == 'add':
        data = b'' if slot == 2 else b'new' + bytes([0x30 + (slot + cfg['seed']) % 10])
        write_file(p, data, ns)
        return ns
    with open(p, 'rb') as f:
        old = f.read()
    if op == 'touch':
        set_mtime_ns(p, ns)
    elif op == 'replace_equal':
        tmp = p + '.c11tmp'
        write_file(tmp, old, ns)
        os.replace(tmp, p)
        set_mtime_ns(p, ns)
    else:
        write_file(p, new_content(old, op, slot, cfg['seed']), ns)
    return ns


def choices(d, cfg):
    """Applicable operations in the current state of replica directory d."""
    out = []
    for s, rel in enumerate(slot_paths(cfg['seed'])):
        p = os.path.join(d, rel)
        if os.path.exists(p):
            for op in EXISTING_OPS:
                if op == 'modify_same_size' and os.path.getsize(p) == 0:
                    continue
                for mc in MCLASSES:
                    out.append((op, s, mc))
            out.append(('delete', s, None))
        else:
            for mc in MCLASSES:
                out.append(('add', s, mc))
    return out


def initial_choices():
    """choices() on the initial history tree (slots 0 and 1 exist, non-empty; slot 2 absent)."""
    out = []
    for s in (0, 1):
        for op in EXISTING_OPS:
            for mc in MCLASSES:
                out.append((op, s, mc))
        out.append(('delete', s, None))
    for mc in MCLASSES:
        out.append(('add', 2, mc))
    return out


def verdict_for(choice):
    """-> ('must', None) | ('dontcare', reason)"""
    op, _slot, mc = choice
    later = mc in ('frac', 'newer')
    if op == 'modify_same_size' and not later:
        return 'dontcare', 'same-size modification with mtime not later than the previous TIMESTAMP (premise false)'
    if op == 'add' and not later:
        return 'dontcare', ('added file with mtime not later than the previous TIMESTAMP: arguable whether an '
                            'added file is a "modified file" of the premise')
    return 'must', None


def sig_class(mc):
    return 'newer' if mc in ('frac', 'newer') else mc


# ------------------------------------------------------------------ family 'hist'

def play_round(run, A, B, choice, rnd, history):
    """One round on both replicas.  -> False when the history cannot be continued."""
    cfg, stats = run.cfg, run.stats
    op, slot, mc = choice
    run.rnd = rnd
    start_us = (T0 + STEP * rnd) * 10 ** 6 + cfg['frac']
    ts_prev = parsed(read_manifests(A))[1]
    apply_op(A, cfg, choice, ts_prev)
    apply_op(B, cfg, choice, ts_prev)
    what = f'history {history} tz={cfg["tz"]} layout={cfg["layout"]} frac={cfg["frac"]}us round {rnd}'
    stats.evaluations += 1
    ok_a, _ra = run.update(A, 'incr', start_us, what)
    ok_b, _rb = run.update(B, 'full', start_us, what)
    if not (ok_a and ok_b):
        return False
    ea, _tsa, rawa = parsed(read_manifests(A))
    eb, _tsb, rawb = parsed(read_manifests(B))
    vb, rvb = run.verify(B)
    if not vb:
        run.violation({'check': 'sanity_full_update_result_fails_verify', 'op': op},
                      f'sanity: {what}: replica B does not verify after a full update: {rvb["log"][-2:]}')
    verdict, reason = verdict_for(choice)
    equal = ea == eb
    stats.counters[f'round:{op}:{mc}'] += 1
    stats.counters[f'tz:{cfg["tz"]}'] += 1
    stats.counters[f'layout:{cfg["layout"]}'] += 1
    if equal and rawa != rawb:
        stats.counters['equal_but_line_order_differs'] += 1
    if verdict == 'must':
        stats.compared += 1
        stats.counters['pre_true'] += 1
        sig = {'check': 'incremental_differs_from_full', 'op': op, 'mtime_class': sig_class(mc)}
        if not equal:
            stats.outcomes['must/differs'] += 1
            run.violation(sig, f'incremental_differs_from_full: {what}: {op} on slot {slot} '
                          f'({slot_paths(cfg["seed"])[slot]!r}) with mtime = previous TIMESTAMP {ts_prev} '
                          f'{MC_NS[mc] / 1e9:+.1f} s ({mc}), TZ={TZS[cfg["tz"]][0]}: {"; ".join(diff_paths(ea, eb))}')
        else:
            if snapshot(A) == snapshot(B):
                # same files, same mtimes, byte-identical Manifests (TIMESTAMP included): gemato verify
                # is given identical input in A and B, B's run above stands for both
                stats.counters['A_verify_implied_by_byte_identical_replicas'] += 1
                va, rva = vb, rvb
            else:
                va, rva = run.verify(A)
            if va:
                stats.outcomes['must/equal'] += 1
            else:
                stats.outcomes['must/equal_but_A_fails_verify'] += 1
                run.violation(dict(sig, check='incremental_result_fails_verify'),
                              f'incremental_result_fails_verify: {what}: {op} on slot {slot} ({mc}): '
                              f'{rva["log"][-2:]}')
    else:
        stats.counters['pre_false'] += 1
        stats.dontcare[reason] += 1
        stats.outcomes[f'dontcare/{"equal" if equal else "differs"}/{op}:{mc}'] += 1
    if not equal:
        stats.counters['resync_full_update_on_A'] += 1
        ok, _r = run.update(A, 'full', start_us, what + ' (re-sync)')
        if not ok:
            return False
        ea2 = parsed(read_manifests(A))[0]
        if ea2 != eb:
            raise HarnessError(f'{what}: a full update on A does not give B\'s Manifests: {diff_paths(ea2, eb)}')
    return True


def start_history(run, root):
    cfg = run.cfg
    wipe(root)
    A, B = os.path.join(root, 'A'), os.path.join(root, 'B')
    for d in (A, B):
        build_tree(d, cfg, 2)
        ok, _r = run.update(d, 'create', T0 * 10 ** 6 + cfg['frac'], f'create tz={cfg["tz"]}')
        if not ok:
            return None
        if not run.verify(d)[0]:
            raise HarnessError('created tree does not verify')
    ma, mb = read_manifests(A), read_manifests(B)
    if ma != mb or (cfg['layout'] == 'nested') != (len(ma) == 2):
        raise HarnessError(f'replicas differ after create or layout not as intended: {sorted(ma)}')
    return A, B


def hist_case(cfg, history):
    return {'family': 'hist', 'tz': cfg['tz'], 'layout': cfg['layout'], 'frac': cfg['frac'],
            'seed': cfg['seed'], 'rounds': [list(c) for c in history]}


def explore_hist(cfg, first, depth_max, stats, scratch):
    run = Run(cfg, stats, hoist_from_round=2)
    root = fresh_root(scratch)
    run.case = hist_case(cfg, [])
    ab = start_history(run, root)
    for v in run.vio:
        stats.violation(v['sig'], v['case'], v['message'])
    run.vio = []
    if ab is None:
        return
    A, B = ab

    def rec(history):
        rnd = len(history) + 1
        chs = choices(A, cfg)
        if rnd == 1:
            if chs != initial_choices():
                raise HarnessError('initial choices differ from the static list')
            chs = [chs[first]]
        snap = (snapshot(A), snapshot(B))
        for ch in chs:
            restore(A, snap[0])
            restore(B, snap[1])
            h = history + [ch]
            run.case = hist_case(cfg, h)
            n0 = stats.compared
            cont = play_round(run, A, B, ch, rnd, h)
            stats.case(('hist', cfg['tz'], cfg['layout'], cfg['frac'], tuple(h)), nontrivial=stats.compared > n0)
            if len(stats.samples) < 1 and rnd == 2 and first == 0 and cfg['layout'] == 'nested':
                stats.sample({'family': 'hist', 'config': cfg, 'history': h})
            for v in run.vio:
                stats.violation(v['sig'], v['case'], v['message'])
            run.vio = []
            if cont and rnd < depth_max:
                rec(h)
    rec([])


def replay_hist(case, scratch):
    cfg = {'tz': case['tz'], 'layout': case['layout'], 'frac': case['frac'], 'seed': case['seed']}
    run = Run(cfg, None)
    run.case = case
    with harness_env(cfg['tz']):
        ab = start_history(run, fresh_root(scratch))
        if ab is None:
            return run.vio
        A, B = ab
        history = []
        for rnd, ch in enumerate(case['rounds'], 1):
            ch = tuple(ch)
            if ch not in choices(A, cfg):
                raise HarnessError(f'replay: {ch} is not applicable in round {rnd}')
            history.append(ch)
            if not play_round(run, A, B, ch, rnd, history):
                break
    return run.vio


# ------------------------------------------------------------------ family 'inflight'

def inflight_case(cfg, mode, pre, k, j, size, delta):
    return {'family': 'inflight', 'tz': cfg['tz'], 'layout': cfg['layout'], 'frac': cfg['frac'],
            'seed': cfg['seed'], 'mode': mode, 'pre': pre, 'k': k, 'j': j, 'size': size, 'delta': delta}


def check_inflight(run, root, mode, pre, k, j, size, delta):
    """pre: 'none' | 'other' - with 'other' a different file was edited (other size, mtime after
    the creation TIMESTAMP) before the running update starts, so that this update has something
    to record and writes a fresh TIMESTAMP; with 'none' it finds nothing and keeps the old one.
    -> number of counted update_entry_for_path calls of the running update (K), or None"""
    cfg, stats = run.cfg, run.stats
    wipe(root)
    A = os.path.join(root, 'A')
    build_tree(A, cfg, 3)
    what = (f'in-flight tz={cfg["tz"]} layout={cfg["layout"]} frac={cfg["frac"]}us running={mode} pre={pre} '
            f'k={k} slot={j} size={size} edit at scan start +{(delta or 0) / 1e6:.1f} s')
    run.rnd = 1
    ok, _r = run.update(A, 'create', T0 * 10 ** 6 + cfg['frac'], what)
    if not ok:
        return None
    sp = slot_paths(cfg['seed'])
    if pre == 'other':
        pp = os.path.join(A, sp[((j or 0) + 1) % 3])
        with open(pp, 'rb') as f:
            old = f.read()
        write_file(pp, new_content(old, 'modify_other_size', ((j or 0) + 1) % 3, cfg['seed']), (T0 + 1) * 10 ** 9)
    s1 = (T0 + STEP) * 10 ** 6 + cfg['frac']
    path = os.path.join(A, sp[j]) if j is not None else None
    edit = {}

    def action():
        CLOCK.us += delta
        with open(path, 'rb') as f:
            old = f.read()
        new = new_content(old, 'modify_same_size' if size == 'same' else 'modify_other_size', j, cfg['seed'])
        write_file(path, new, CLOCK.us * 1000)
        edit['ns'] = CLOCK.us * 1000
        edit['resized'] = len(new) != len(old)

    stats.evaluations += 1
    run.rnd = 0                       # the two updates under test always go through gemato.cli.main
    with inflight_hook(k, action) as st:
        ok, _r = run.update(A, mode, s1, what + ' (running update)')
    if not ok:
        return None
    if k is None:
        return st['n']
    if st['fired'] != 1:
        raise HarnessError(f'{what}: hook fired {st["fired"]} times ({st["n"]} calls counted)')
    ts_run = parsed(read_manifests(A))[1]
    stats.counters['inflight_running_update_' + ('refreshed_timestamp' if ts_run == s1 // 10 ** 6
                                                 else 'kept_timestamp')] += 1
    s2 = (T0 + 2 * STEP) * 10 ** 6 + cfg['frac']
    ok, _r = run.update(A, 'incr', s2, what + ' (next incremental)')
    if not ok:
        return None
    run.rnd = 1
    e_incr = parsed(read_manifests(A))[0]
    v_incr, rv = run.verify(A)
    ok, _r = run.update(A, 'full', s2, what + ' (full update for comparison)')
    if not ok:
        return None
    e_full = parsed(read_manifests(A))[0]
    if not run.verify(A)[0]:
        run.violation({'check': 'sanity_full_update_result_fails_verify', 'op': 'inflight'},
                      f'sanity: {what}: the tree does not verify after a full update')
    op = 'modify_same_size' if size == 'same' else 'modify_other_size'
    later = edit['ns'] > (s1 // 10 ** 6) * 10 ** 9
    stats.counters[f'inflight:{cfg["layout"]}:k{k}:j{j}'] += 1
    stats.counters[f'tz:{cfg["tz"]}'] += 1
    equal = e_incr == e_full
    if edit['resized'] or later:
        stats.compared += 1
        stats.counters['inflight_pre_true'] += 1
        sig = {'check': 'incremental_differs_from_full', 'op': op, 'mtime_class': 'newer' if later else 'equal'}
        if not equal:
            stats.outcomes['inflight/must/missed'] += 1
            run.violation(sig, f'incremental_differs_from_full: {what}: the file changed while the update was running '
                          f'(mtime {edit["ns"] / 1e9:.1f}, scan start {s1 / 1e6:.1f}, TIMESTAMP afterwards {ts_run}) '
                          f'is not picked up by the next incremental run, TZ={TZS[cfg["tz"]][0]}: a full update '
                          f'still changes: {"; ".join(diff_paths(e_incr, e_full))}')
        elif not v_incr:
            stats.outcomes['inflight/must/equal_but_fails_verify'] += 1
            run.violation(dict(sig, check='incremental_result_fails_verify'),
                          f'incremental_result_fails_verify: {what}: {rv["log"][-2:]}')
        else:
            stats.outcomes['inflight/must/picked_up'] += 1
    else:
        stats.counters['inflight_pre_false'] += 1
        stats.dontcare['in-flight same-size edit whose mtime equals the whole second of the scan start (the '
                       'TIMESTAMP value): not "later than the TIMESTAMP" at its 1 s resolution - needs an edit in '
                       'the very microsecond of the scan start or a filesystem with 1 s mtime granularity'] += 1
        stats.outcomes[f'inflight/dontcare/{"picked_up" if equal else "missed"}'] += 1
    return st['n']


def explore_inflight(cfg, mode, stats, scratch):
    run = Run(cfg, stats, hoist_from_round=1)
    root = fresh_root(scratch)
    run.case = inflight_case(cfg, mode, 'none', None, None, None, None)
    K = check_inflight(run, root, mode, 'none', None, None, None, None)
    if K is None:
        for v in run.vio:
            stats.violation(v['sig'], v['case'], v['message'])
        return
    stats.counters[f'inflight_K:{cfg["layout"]}:{K}'] += 1
    for pre in ('none', 'other'):
        for k in range(K + 1):
            for j in range(3):
                for size in ('same', 'other'):
                    for delta in DELTAS:
                        run.case = inflight_case(cfg, mode, pre, k, j, size, delta)
                        n0 = stats.compared
                        check_inflight(run, root, mode, pre, k, j, size, delta)
                        stats.case(('inflight', cfg['tz'], cfg['layout'], cfg['frac'], mode, pre, k, j, size, delta),
                                   nontrivial=stats.compared > n0)
                        if len(stats.samples) < 1 and pre == 'other' and k == 2 and size == 'same' and delta:
                            stats.sample(run.case)
                        for v in run.vio:
                            stats.violation(v['sig'], v['case'], v['message'])
                        run.vio = []


def replay_inflight(case, scratch):
    cfg = {'tz': case['tz'], 'layout': case['layout'], 'frac': case['frac'], 'seed': case['seed']}
    run = Run(cfg, None)
    run.case = case
    with harness_env(cfg['tz']):
        check_inflight(run, fresh_root(scratch), case['mode'], case['pre'], case['k'], case['j'], case['size'],
                       case['delta'])
    return run.vio


# ------------------------------------------------------------------ runner interface

def replay(case, scratch):
    if case['family'] == 'hist':
        return replay_hist(case, scratch)
    return replay_inflight(case, scratch)


def depth_for(tier, frac):
    if tier == 'quick':
        return 2
    return 3 if frac == 0 else 2


def shards(tier, seed):
    out = []
    n_first = len(initial_choices())
    for frac in FRACS:
        for tz in TZS:
            for layout in LAYOUTS:
                for first in range(n_first):
                    out.append(('hist', tz, layout, frac, first))
    for tz in TZS:
        for layout in LAYOUTS:
            for frac in FRACS:
                for mode in ('incr', 'full'):
                    out.append(('inflight', tz, layout, frac, mode))

    def cost(s):          # rough number of gemato runs; longest first keeps the workers busy
        if s[0] == 'inflight':
            return 1000
        return 120 if depth_for(tier, s[3]) == 2 else 4500
    out.sort(key=lambda s: -cost(s))
    # one cheap shard whose first node is the smallest history that can show a time-zone dependence goes
    # first, so that the example kept for a signature tends to be a one-round history
    w = ('hist', 'west', 'flat', 0, initial_choices().index(('modify_same_size', 0, 'newer')))
    out.remove(w)
    return [w] + out


def run_shard(spec, tier, seed, scratch):
    stats = Stats()
    fam, tz, layout, frac = spec[:4]
    cfg = {'tz': tz, 'layout': layout, 'frac': frac, 'seed': seed}
    off0 = time.localtime(T0).tm_gmtoff
    with harness_env(tz):
        if fam == 'hist':
            explore_hist(cfg, spec[4], depth_for(tier, frac), stats, scratch)
        else:
            explore_inflight(cfg, spec[4], stats, scratch)
    if time.localtime(T0).tm_gmtoff != off0 or gemato.cli.datetime is not _dt:
        raise HarnessError('time zone or clock seam not restored')
    return stats


def finish(total, tier):
    errs = []
    c = total.counters
    for op in EXISTING_OPS + ('add',):
        for mc in MCLASSES:
            if not c.get(f'round:{op}:{mc}'):
                errs.append(f'vacuity: no round with {op} x {mc}')
    if not c.get('round:delete:None'):
        errs.append('vacuity: no delete round')
    for k in ('pre_true', 'pre_false', 'inflight_pre_true', 'inflight_pre_false',
              'timestamp_refreshed', 'timestamp_kept', 'resync_full_update_on_A',
              'inflight_running_update_refreshed_timestamp', 'inflight_running_update_kept_timestamp',
              'cli_calls_through_main', 'cli_calls_with_hoisted_parser'):
        if not c.get(k):
            errs.append(f'vacuity: counter {k} is zero')
    for tz in TZS:
        if not c.get(f'tz:{tz}'):
            errs.append(f'vacuity: time zone {tz} not exercised')
    for layout in LAYOUTS:
        if not c.get(f'layout:{layout}'):
            errs.append(f'vacuity: layout {layout} not exercised')
        ks = sorted(int(k.rsplit(':', 1)[1]) for k in c if k.startswith(f'inflight_K:{layout}:'))
        if len(ks) != 1 or ks[0] < 3:
            errs.append(f'in-flight family: number of per-file calls for layout {layout} is {ks} (one value >= 3 expected)')
            continue
        for k in range(ks[0] + 1):
            for j in range(3):
                if not c.get(f'inflight:{layout}:k{k}:j{j}'):
                    errs.append(f'vacuity: in-flight (k={k}, j={j}) not covered for layout {layout}')
    if c.get('clock_seam_mismatch'):
        errs.append(f'clock seam: {c["clock_seam_mismatch"]} updates left a TIMESTAMP that is neither the previous '
                    'one nor the fake scan start (real time leaked, or the TIMESTAMP is not the UTC scan start); '
                    'see notes')
    if not total.outcomes.get('must/equal') or not total.outcomes.get('inflight/must/picked_up'):
        errs.append('vacuity: no MUST round ended with equal Manifests')
    return errs
