"""C11 — incremental update equals full update.

Family 'hist' (the *history* and *configuration* quantifiers).  Two replicas of one
tree, both created with ``gemato create -t -H SHA1``: A is only ever updated with
``gemato update --incremental -H SHA1 <dir>``, B with the full ``gemato update -H SHA1
<dir>``.  Every history of R rounds (2 quick, 3 thorough - see depth_for) is played: a round is one
applicable operation from {modify content keeping the size, modify content changing the
size, add a file, delete a file, touch only, replace by a new inode with equal content}
on one of three file slots, giving the file an explicit mtime in one of four classes
relative to the TIMESTAMP replica A carried before the round (T-1 s, T, T+0.5 s, T+1 s),
followed by one update of each replica at a harness-owned clock value.  All of that in
the local time zones UTC, XXX-3 (east) and XXX5 (west), with a flat and a nested
(sub-directory Manifest) layout and with the scan starting on a whole second or at
T+0.7 s.  In the nested layout the sub-Manifest file is a file of the tree like any other
and three more operations edit it out of band in ways an update has no reason to undo:
append a DIST line, append an IGNORE line for a name that does not exist (both change the
size), and - once the DIST line is there - flip one digit of its checksum (same size);
what must follow is that the parent's MANIFEST entry is re-hashed.

Clock schedules.  'mono': round r starts at T0 + 100 r.  'back1': the clock is stepped
back by 3600 s between create and round 1 (round r at T0 - 3600 + 100 r), 'back2': between
round 1 and round 2.  In a stepped-back round the previous TIMESTAMP lies in the future of
the fake clock (Manifest made on a host with a fast clock, or the clock was corrected); if
the round changes anything the Manifest is rewritten and the TIMESTAMP it then carries
must not be later than the scan start.  The history continues at later instants that are
still before the stale future TIMESTAMP; mtime classes are always taken relative to the
*model* TIMESTAMP (what the Manifest carries, except that after a reported
timestamp_later_than_scan_start it is the scan start of that round, i.e. what an update
that honours the statement's second sentence wrote), so that a file modified after the
stepped-back update, with mtime before the stale TIMESTAMP, is demanded to be picked up.

Family 'dirs' (histories of whole-directory edits; same replicas, same rounds, same oracle,
monotonic clock, scan start on the whole second, all three zones, both layouts, R = 2 rounds
(quick also R = 3 in UTC with package kinds plain / own plain Manifest only);
thorough: R = 3 in UTC, and R = 2 in all zones with every compression - see DIRS_PLAN).  A *package directory* can exist at two places - next to the slot
directory ('top') and inside it ('inner', i.e. below the sub-Manifest in the nested layout).
It holds two files and, depending on its kind, nothing else ('plain') or a Manifest file of
its own that the harness writes with the reference writer: one valid DATA entry (size, SHA1)
per file, stored as ``Manifest`` ('mani'), ``Manifest.gz`` ('gz') or - thorough tier, two-round
histories - ``Manifest.bz2``, ``Manifest.lzma``, ``Manifest.xz``.  Nothing in the tree refers to such a Manifest when it arrives.
Operations of a round: add a package directory (place x kind x mtime class, every file in it
gets that mtime); remove a package directory or the slot directory with everything in them;
replace a package directory by a fresh copy in which one file has other content of the same
/ of another size and the directory's own Manifest (if it has one) is regenerated to match
(x mtime class for all files of the copy); a Manifest file appears in an existing directory
that has none (slot directory in the flat layout, 'plain' package directories) - with one
valid entry per file below that directory or with no entry, plain or compressed, x mtime
class; and inside an existing package directory: modify a file keeping / changing its size,
add a file (x mtime class), delete a file.  The premise is not looked up per operation but
read off the tree: snapshots before / after the edit give the files whose content was
modified (MUST needs a changed size or an mtime later than the previous TIMESTAMP for each,
Manifest files included) and the added files (mtime not later: DONT_CARE as in 'hist').
When *both* updates fail on the edited tree (the pinned gemato raises FileNotFoundError from
either when a directory is gone whose Manifest the tree still refers to) the round is
DONT_CARE provided they left equal Manifest contents, and the history ends there; when only
one of them fails that is reported.

Family 'opts' (the options of the updates as part of the history).  The statement compares "update
--incremental" with "a full update"; both take the same options, and the options need not be those of the
update that wrote the Manifest before.  Same replicas, same rounds, same comparison as 'hist' (monotonic clock,
scan start on the whole second, both layouts), but a round is a pair (tree operation, options) and the
incremental update on A and the full update on B of that round are both run with those options:
``--hashes`` from a menu {SHA1, SHA256, "SHA1 SHA256"} (thorough: also "SHA256 SHA512"), which relative to the
hash set of the previous update of the history (create: SHA1) is the same set, a superset, a subset, a disjoint
or an overlapping one; and one of {nothing else, ``--profile ebuild`` (entries sorted, sub-Manifests of 128
bytes and more compressed), ``--compress-watermark 0`` (every sub-Manifest that gets written is compressed),
``--compress-watermark 1000000`` (... uncompressed), ``--force-rewrite``}.  Tree operations: none at all; per
existing slot file touch (mtime T+1), same-size modification (T+1), other-size modification (T-1), deletion;
an absent slot file is added (T+1); nested layout: a DIST line is appended to the uncompressed sub-Manifest
(T+1); flat layout: a valid Manifest listing the slot directory's files with SHA1 (the hash set of create, so
that its entries and the ones the top-level Manifest already has for the same files can carry different hash
sets) appears in the slot directory (T+1).  The mtime classes are the ones for which the premise holds, so every
round is MUST (the premise is nevertheless read off the tree snapshots as in 'dirs').  The tree of this family
has one more directory holding nothing but a Manifest with one DIST line: a sub-Manifest that no update has a
reason to change and whose MANIFEST entry still has to follow the requested hash set (create registers and
rewrites it, so it is dated after the first TIMESTAMP and looked at by every first round; from the second round
on it is older than the TIMESTAMP - guarded by a counter).  Quick: two-round
histories in UTC of which at most one round carries a tree operation, one-round histories in the other zones;
thorough: all two-round histories in the three zones with the wider hash menu, plus three-round histories in UTC
with at most one tree operation (see OPTS_PLAN).  Oracle unchanged: same Manifest files (by name, compressed or
not) with the same entries - tag, path, size, hash names and digests - as the full update with the same options
on the same tree left; MANIFEST entries of A match the bytes of the file they name under every hash they carry
and carry the same hash names as B's; A verifies.  Nothing is demanded of the full update itself (which hashes
it records, whether it compresses): that is observed and only used for the vacuity guards.

Family 'multi' (several trees in one invocation).  ``gemato update`` takes any number of paths; the statement's
"previous TIMESTAMP" is the one of the Manifest being updated, whatever else the same command line names.  Two
replica sets of two trees each (tree #2 has other names and contents than tree #1, same layout): A1, A2 are only
ever updated by one ``gemato update --incremental -H SHA1 A1 A2``, B1, B2 by one ``gemato update -H SHA1 B1 B2``.
The two trees are created (one ``create -t`` each) 50 s apart, so that their TIMESTAMPs differ - the first-listed
tree is the older one ('old_first') or the newer one ('new_first').  A round is one slot-file operation of family
hist on tree #1 or on tree #2 (of both sets) with an mtime class {T-1 s, T, T+0.5 s, T+1 s} taken relative to the
edited tree's own TIMESTAMP or relative to the *other* tree's TIMESTAMP (which puts mtimes between the two
TIMESTAMPs), then the two invocations at T0 + 100 r.  Quick: one-round histories in the three zones and both
layouts; thorough: two-round histories in UTC (after round 1 the trees that had something to record carry a
fresh TIMESTAMP, the others their old one), one round elsewhere (MULTI_PLAN).  Oracle unchanged, per tree: the
premise is read off the edited tree's snapshots against *its own* previous TIMESTAMP; MUST -> that tree's
Manifests in A equal those in B, A verifies; the tree that was not edited is always MUST; every TIMESTAMP
written is not later than the scan start (the clock stands still during an invocation).

Family 'inflight' (the *schedule* quantifier).  While an update (incremental or full) is
running, right after the k-th call of ``update_entry_for_path`` on a regular file has returned
(k = 0: right after the start time has been taken), file j is rewritten (same size /
other size) with mtime = the instant of the edit (scan start + 0, + 0.5 s, + 2 s); either
nothing else had changed (the running update then keeps the old TIMESTAMP) or another
file had (it writes a fresh TIMESTAMP).  Then one more ``update --incremental`` runs
100 s later and, on the same directory and at the same instant, a full update: the full
update must have nothing left to correct.  The number of injection points K is whatever a dry
run of the same update without an edit shows (per running mode, pending change and file j);
nothing is assumed about how many calls the implementation spends per file.  Instead the
harness looks at what the running update recorded for file j (content before / after the
edit) and demands of itself that, for every file, some injection came before and some after
a running full update recorded it.

Oracle (three-valued).  MUST: after a round in which every content-modified file has a
changed size or an mtime strictly later than the previous TIMESTAMP, the reference-parsed
entries of *all* Manifest files of A and B are equal (TIMESTAMP lines excluded), every
MANIFEST entry of A matches size and every digest it carries of the sub-Manifest file it
names (reference hashes), and A verifies.  ALWAYS: a TIMESTAMP found after an update that wrote the top-level
Manifest is not later than the fake clock value at which the scan started (an update that
finds nothing to record does not write and keeps the old TIMESTAMP, even a future one -
that TIMESTAMP was not "written by" it); B verifies (harness sanity).  DONT_CARE: same-size
modification with mtime <= previous TIMESTAMP (premise false); an *added* file whose mtime
is not later than the TIMESTAMP (is an added file a "modified file"? two readings); an
in-flight same-size edit whose mtime equals the whole second of the scan start.
An mtime of T+0.5 s counts as later than TIMESTAMP T (MUST): the TIMESTAMP is the scan start
rounded *down*, so a file written at T+0.5 may have been written after a scan that began at
T+0.2 and cannot be told apart from one hashed by a scan that began at T+0.9; re-hashing the
latter is harmless, skipping the former breaks the second sentence of the statement.
"""

import argparse
import contextlib
import datetime as _dt
import io
import logging
import os
import re
import shutil
import time
import types

import gemato.cli
import gemato.recursiveloader

from gverif import gem, refmanifest as rm, seams
from gverif.common import fresh_root, rot
from gverif.evidence import Stats
from gverif.treemodel import comp_of, compress, decompress, snapshot, wipe

PID = 'C11'
LEVEL = 'model_checking'
RULE = ('hist: {UTC, XXX-3, XXX5} x {flat, nested layout} x {(clock mono, scan start on the second), (mono, +0.7 s), '
        '(back1, on the second), (back2, on the second)} x every history '
        'of R rounds (R=2 quick; thorough: R=3 for (mono, on the second) in all zones and for back1/back2 in UTC, '
        'R=2 for +0.7 s and for back1/back2 in the other two zones) of one applicable '
        'operation {modify_same_size, modify_other_size, touch, replace_equal} x slot x mtime class {T-1, T, '
        'T+0.5, T+1 relative to the previous (model) TIMESTAMP} | add x absent slot x mtime class | delete x slot '
        '| nested layout only: {append DIST line, append IGNORE line (each once), flip a digit of the DIST '
        'checksum (when present)} on the sub-Manifest file x mtime class, '
        'each followed by `update --incremental` on replica A and `update` on replica B at fake instant '
        'T0+100*round (mono), T0-3600+100*round (back1: clock stepped back 3600 s before round 1; back2: the same '
        'from round 2 on, round 1 at T0+100); a state is a (configuration, history prefix); non-trivial = the '
        'round was judged MUST. '
        'dirs: {UTC, XXX-3, XXX5} x {flat, nested} x (clock mono, scan start on the second) x every history of R '
        'rounds (quick: R=2 with kinds K = {plain, own valid Manifest, own valid Manifest.gz}; thorough: R=3 with '
        'the same K in UTC plus R=2 in all three zones with K extended by Manifest.bz2, .lzma, .xz) of one '
        'applicable operation: dir_add x place {top, inner = inside the slot '
        'directory} x kind in K x mtime '
        'class (place must be free) | dir_remove x {top, inner, slot directory} (present) | dir_replace x place x '
        '{one file rewritten with same size, with other size; own Manifest regenerated} x mtime class (package '
        'present) | mani_appear x {slot directory, top, inner} x {one valid entry per file below, no entries} x '
        '(K without plain) x mtime class (directory present and without a Manifest '
        'file) | inside a present package directory: {modify_same_size, modify_other_size, add a file} x mtime class, '
        'delete a file; updates, clock and comparison as in hist; verdict from the premise evaluated on tree '
        'snapshots before/after the edit; non-trivial = judged MUST. '
        'opts: {flat, nested} x (clock mono, scan start on the second) x every history of R rounds, a round = one '
        'applicable tree operation {none | touch (T+1), modify_same_size (T+1), modify_other_size (T-1), delete x '
        'existing slot | add (T+1) x absent slot | nested: append DIST line to the uncompressed sub-Manifest (T+1) | '
        'flat: valid SHA1 Manifest for the slot directory appears in it (T+1)} x options of both updates of the '
        'round {--hashes in H} x {none, --profile ebuild, --compress-watermark 0, --compress-watermark 1000000, '
        '--force-rewrite}; quick: R=2 in UTC restricted to histories with at most one round whose tree operation '
        'is not "none", R=1 in XXX-3 and XXX5, H = {SHA1, SHA256, SHA1 SHA256}; thorough: R=2 unrestricted in all '
        'three zones with H extended by "SHA256 SHA512", plus R=3 in UTC with at most one tree operation and the '
        'quick H; create with -H SHA1; the tree has an additional directory holding only a Manifest with one DIST '
        'line; verdict from the premise on tree snapshots (always MUST by construction); comparison as in hist, '
        'hash names of MANIFEST entries included. '
        'multi: {flat, nested} x {first-listed tree has the older, the newer TIMESTAMP (trees created 50 s apart)} x '
        'every history of R rounds (quick: R=1 in UTC, XXX-3, XXX5; thorough: R=2 in UTC, R=1 in the other zones) of '
        'one applicable operation {modify_same_size, modify_other_size, touch, replace_equal} x slot x tree {#1, #2 '
        'of the command line} x mtime class {T-1, T, T+0.5, T+1} x {T = the edited tree\'s own previous TIMESTAMP, '
        'T = the other tree\'s} | add x absent slot x tree x the same 8 mtimes | delete x slot x tree, followed by ONE '
        '`update --incremental A1 A2` and ONE `update B1 B2` at T0+100*round; per tree: verdict from the premise on '
        'tree snapshots against that tree\'s own previous TIMESTAMP, comparison as in hist (the untouched tree is '
        'always MUST); non-trivial = some tree judged MUST. '
        'inflight: the hist configurations with the monotonic clock x running update {incremental, full} x {no other '
        'pending change, another file changed beforehand} x file slot j x k in 0..K (K = number of '
        'update_entry_for_path calls on regular files that returned during a dry run of the same update without an '
        'edit; k=0: right after the start time was taken) x {same size, other size} x edit instant {scan start +0, '
        '+0.5 s, +2 s}, then incremental + full update 100 s later')
ASSUMPTIONS = [
    'the clock is owned by replacing the name `datetime` inside gemato.cli with a stand-in module whose '
    'datetime.utcnow()/now() return the harness instant and - where gemato.cli holds the module `time` (or the '
    'function time.time) under the name `time` - that name with a stand-in whose time()/time_ns()/argument-less '
    'gmtime()/localtime() return the same instant (both spellings of the wall clock share one call counter and '
    'the in-flight k=0 callback; timeit / monotonic clocks measure durations and stay real); the clock never '
    'advances on its own (only the in-flight hook and the harness move it); every update of one tree must consult '
    'it exactly once, an invocation over n trees between once and n times (checked); any other route to the real '
    'clock shows up as the clock_seam_mismatch harness error',
    'family multi: both trees of an invocation share the scan start (the fake clock stands still); tree #2 is '
    'built with the seed rotated by one (other names / contents); creates are one invocation per tree (the '
    'TIMESTAMPs must differ); more than two trees, trees nested in each other, the same tree listed twice, '
    'a failing first tree and options other than -H SHA1 are not explored; after a round in which a tree of A '
    'differs from B (violation or DONT_CARE) or carries another TIMESTAMP, that tree continues as a copy of B\'s',
    'file mtimes are set explicitly (os.utime ns=) after every write; a Manifest that an update (re)wrote gets '
    'mtime = scan start + 1 s; "an update wrote the Manifest" is observed as changed bytes or a changed '
    'st_mtime_ns (gemato writes in place, which stamps the real wall clock, decades away from the fake one)',
    'in a stepped-back round the files keep mtimes that lie in the future of the fake clock (gemato never '
    'compares an mtime with the clock, only with the TIMESTAMP); the step is 3600 s, larger than the whole '
    'history, so every later round is still before the stale TIMESTAMP',
    'mtime classes are relative to the model TIMESTAMP, which equals the TIMESTAMP in replica A\'s Manifest '
    'unless a timestamp_later_than_scan_start violation has been reported earlier in the same history '
    '(checked: a difference without such a report is a harness error)',
    'sub-Manifest edits: the DIST / IGNORE lines name nothing that exists; applied identically to both '
    'replicas; the appended lines are never duplicated (duplicate entries are another property)',
    'os.scandir order is pinned to sorted order so that "the k-th call" is reproducible; the in-flight seam is '
    'gemato.recursiveloader.update_entry_for_path (DESIGN 0): each normal return of a call on a regular file is an '
    'injection point, wherever the call comes from and however often a file is visited',
    'create and round 1 of every history, the two updates under test of every in-flight case and every replay go '
    'through the unmodified gemato.cli.main (gem.cli); rounds >= 2 of the exploration (and create / comparison '
    'update / verify of the in-flight cases) run main()\'s body with the argparse tree built '
    'once per process instead of once per call (fresh command object per call); a behavioural difference between '
    'the two would surface as a violation that does not reproduce on stand-alone replay',
    'entries are compared per Manifest file as multisets (line order is not demanded); the size/digest of a '
    'MANIFEST entry for a sub-Manifest that is itself compared is not compared between A and B (line order may '
    'differ) but against the reference digests / size of the file it names in the same replica (its hash names are '
    'compared between A and B): stale in A and current '
    'in B counts as a difference; `gemato verify` on replica A checks it once more',
    'after a DONT_CARE round or a violation replica A is re-synchronised with one full update at the same fake '
    'instant and the history continues (the explored space does not depend on the verdicts)',
    'operations with mtime classes only for files that exist / slots that are absent; outside family opts only '
    'the default profile and -H SHA1; no signing; TIMESTAMP refresh without -t; family hist never removes a '
    'directory and has no compressed Manifest',
    'family opts: both updates of a round get the same options (an incremental and a full update with different '
    'options are not comparable); options are one --hashes value plus at most one of --profile ebuild / '
    '--compress-watermark 0 / --compress-watermark 1000000 / --force-rewrite; --compress-format other than the '
    'default gz, --profile old-ebuild, combinations of the non-hash options, signing options and partial-tree '
    'updates (a path below the top, which --incremental refuses) are not explored; the tree has no file that the '
    'ebuild profile treats specially (no metadata.xml, *.ebuild, files/), so that profile shows as sorted entries '
    'and the 128-byte compression watermark only',
    'family opts: one mtime class per tree operation (the one shown in RULE; the classes are explored with the '
    'default options in hist); a re-synchronising full update after a differing round uses the round\'s options; '
    'compressed Manifests that an update wrote are compared after decompression (gzip headers carry the wall '
    'clock), the MANIFEST entry for them against the compressed bytes on disk of the same replica; the DIST-line '
    'edit of the sub-Manifest is only offered while that file is uncompressed',
    'the violation signature of family opts keeps the tree operation, mtime class and non-hash options only for '
    'rounds whose hash set equals the previous one; with a changed hash set it is (relation of the requested hash '
    'set to the previous one, tree operation none / some, time zone)',
    'family dirs: Manifest files that arrive with a directory or appear in one are written by the reference '
    'writer (gverif.refmanifest), valid for the files they cover (DATA, size, SHA1 - the hash set of the updates), '
    'compressed with gzip (mtime field 0) / bz2 / lzma / xz by the harness; Manifest files of all replicas are '
    'decompressed by file suffix before the reference parser reads them, a MANIFEST entry is checked against the '
    'bytes on disk; invalid or stale shipped Manifests, Manifests with other hash sets, TIMESTAMP or '
    'IGNORE entries in shipped Manifests, directories deeper than two levels and symlinked directories are not '
    'explored; the slot-file operations of hist are not mixed into dirs histories; a removed slot directory does '
    'not come back',
    'family dirs, an appearing Manifest with entries lists every regular file below its directory except those '
    'inside a deeper directory that has a Manifest file of its own; entries for the same files that an upper '
    'Manifest already carries stay there until an update moves or drops them (both replicas alike)',
    'family dirs tolerates an update that fails: both fail + equal Manifest contents = DONT_CARE, history ends; '
    'if after a differing round a full update on A does not reproduce B (what the incremental run recorded is '
    'not undone), A continues as a copy of B (counted as dirs/resync_by_copy_of_B)',
    'touch / replace_equal / delete rounds modify no content, so equality is demanded for every mtime class',
    'the in-flight family runs with the monotonic clock only and does not edit Manifest files',
]

T0 = 1600000000                  # 2020-09-13T12:26:40Z, creation instant (whole seconds)
STEP = 100                       # seconds between rounds
OLD = T0 - 1000                  # mtime of the initial files
TZS = {'utc': ('UTC', 0), 'east': ('XXX-3', 3 * 3600), 'west': ('XXX5', -5 * 3600)}
LAYOUTS = ('flat', 'nested')
FRACS = (0, 700000)              # microseconds past the whole second at which a scan starts
MCLASSES = ('older', 'equal', 'frac', 'newer')
MC_NS = {'older': -10 ** 9, 'equal': 0, 'frac': 5 * 10 ** 8, 'newer': 10 ** 9}
EXISTING_OPS = ('modify_same_size', 'modify_other_size', 'touch', 'replace_equal')
DELTAS = (0, 500000, 2000000)    # in-flight edit instant, microseconds after the scan start
HASH = 'SHA1'
CLOCKS = ('mono', 'back1', 'back2')
BACK = 3600                      # seconds by which the fake clock is stepped back
CLOCK_FRACS = (('mono', 0), ('mono', 700000), ('back1', 0), ('back2', 0))
MANI_APPEND_OPS = ('mani_append_dist', 'mani_append_ignore')
MANI_OPS = MANI_APPEND_OPS + ('mani_edit_dist',)
DIST_PREFIX = b'DIST c11-dist-1.tar.gz '
DIST_LINE = DIST_PREFIX + b'4 SHA1 ' + b'0' * 40 + b'\n'
IGNORE_LINE = b'IGNORE c11-not-there\n'

# family 'dirs'
LOCS = ('top', 'inner')          # where a package directory goes: <root>/<pkg> or <root>/<slot dir>/<pkg>
KINDS = {'base': ('plain', 'mani', 'gz'), 'wide': ('plain', 'mani', 'gz', 'bz2', 'lzma', 'xz'), 'slim': ('plain', 'mani')}
# tier -> [(time zone, kinds of package directory / appearing Manifest, rounds per history)]
DIRS_PLAN = {'quick': [('utc', 'base', 2), ('east', 'base', 2), ('west', 'base', 2), ('utc', 'slim', 3)],
             'thorough': [('utc', 'base', 3), ('utc', 'wide', 2), ('east', 'wide', 2), ('west', 'wide', 2)]}
KIND_COMP = {'mani': None, 'gz': 'gz', 'bz2': 'bz2', 'lzma': 'lzma', 'xz': 'xz'}
HOWS = ('same', 'other')         # dir_replace: the rewritten file keeps / changes its size
CONTENTS = ('full', 'empty')     # mani_appear: entries for every file below the directory / no entry at all
DIR_MC_OPS = ('dir_add', 'dir_replace', 'mani_appear', 'pkg_modify_same_size', 'pkg_modify_other_size', 'pkg_add')
DIR_PLAIN_OPS = ('dir_remove', 'pkg_delete')
DIR_OPS = DIR_MC_OPS + DIR_PLAIN_OPS

# family 'opts': the options of a round's pair of updates are part of the history alphabet
OPT_HASHES = {'base': ('SHA1', 'SHA256', 'SHA1 SHA256'),                  # value of --hashes
              'wide': ('SHA1', 'SHA256', 'SHA1 SHA256', 'SHA256 SHA512')}
OPT_EXTRAS = {'plain': (),                               # nothing besides --hashes (default profile)
              'ebuild': ('--profile', 'ebuild'),         # sorted entries, compress watermark 128, gz
              'c0': ('--compress-watermark', '0'),       # every sub-Manifest that is written gets compressed
              'cbig': ('--compress-watermark', '1000000'),   # ... gets uncompressed
              'force': ('--force-rewrite',)}
# tier -> [(time zone, rounds per history, most rounds of a history that may carry a tree operation (None: any
# number), hash menu)]
OPTS_PLAN = {'quick': [('utc', 2, 1, 'base'), ('east', 1, None, 'base'), ('west', 1, None, 'base')],
             'thorough': [('utc', 2, None, 'wide'), ('east', 2, None, 'wide'), ('west', 2, None, 'wide'),
                          ('utc', 3, 1, 'base')]}
OPT_SLOT_OPS = (('touch', 'newer'), ('modify_same_size', 'newer'), ('modify_other_size', 'older'), ('delete', None))
OPT_MANI_APPEAR = ('mani_appear', 'slotdir:full:mani', 'newer')
OPT_TREE_OPS = ('none', 'touch', 'modify_same_size', 'modify_other_size', 'delete', 'add', 'mani_append_dist',
                'mani_appear')
HASH_RELATIONS = ('same', 'superset', 'subset', 'disjoint', 'overlap')

# family 'multi': one invocation over two trees whose previous TIMESTAMPs differ
GAP = 50                         # seconds between the creation instants (= first TIMESTAMPs) of the two trees
ORDERS = ('old_first', 'new_first')      # which of the two trees is listed first on the command line
MULTI_REFS = ('own', 'oth')      # an mtime class is taken relative to the tree's own / to the other tree's TIMESTAMP
MULTI_MCS = tuple(f'{ref}:{mc}' for ref in MULTI_REFS for mc in MCLASSES)
# tier -> [(time zone, rounds per history)]
MULTI_PLAN = {'quick': [('utc', 1), ('east', 1), ('west', 1)],
              'thorough': [('utc', 2), ('east', 1), ('west', 1)]}

_FILES = ['a', 'b c', 'ü', 'q.x', 'ab']
_DIRS = ['d', 'e f', 'dé', 'sub']
_PKGS = ['pkg', 'v n', 'pä', 'new.d']


class HarnessError(Exception):
    pass


def round_start_s(clock, rnd):
    """Whole-second part of the fake instant at which the updates of round rnd start
    (round 0 = create)."""
    s = T0 + STEP * rnd
    if (clock == 'back1' and rnd >= 1) or (clock == 'back2' and rnd >= 2):
        s -= BACK
    return s


# ------------------------------------------------------------------ clock and TZ seams

class _Clock:
    us = T0 * 10 ** 6            # the fake instant, integer microseconds since the epoch (UTC)
    calls = 0
    on_utcnow = None


CLOCK = _Clock()
_EPOCH = _dt.datetime(1970, 1, 1)


class _FakeDatetime(_dt.datetime):
    @classmethod
    def utcnow(cls):
        CLOCK.calls += 1
        r = _EPOCH + _dt.timedelta(microseconds=CLOCK.us)
        cb = CLOCK.on_utcnow
        if cb is not None:
            cb()
        return r

    @classmethod
    def now(cls, tz=None):
        CLOCK.calls += 1
        r = _dt.datetime.fromtimestamp(CLOCK.us / 1e6, tz)
        cb = CLOCK.on_utcnow
        if cb is not None:
            cb()
        return r

    @classmethod
    def today(cls):
        return cls.now()


_FAKE_MODULE = types.ModuleType('datetime')
_FAKE_MODULE.__dict__.update({k: v for k, v in vars(_dt).items() if not k.startswith('__')})
_FAKE_MODULE.datetime = _FakeDatetime


def _consult():
    """One look at the wall clock through a name of gemato.cli other than datetime: same instant, same
    bookkeeping (call count, in-flight callback) as _FakeDatetime.utcnow()."""
    CLOCK.calls += 1
    us = CLOCK.us
    cb = CLOCK.on_utcnow
    if cb is not None:
        cb()
    return us


def _fake_time():
    return _consult() / 1e6


def _fake_time_ns():
    return _consult() * 1000


def _fake_gmtime(secs=None):
    return time.gmtime(_consult() // 10 ** 6 if secs is None else secs)


def _fake_localtime(secs=None):
    return time.localtime(_consult() // 10 ** 6 if secs is None else secs)


# stand-in for the module `time` (the epoch-seconds spelling of the same wall clock); monotonic / perf_counter
# (elapsed-time measurement) stay real
_FAKE_TIME_MODULE = types.ModuleType('time')
_FAKE_TIME_MODULE.__dict__.update({k: v for k, v in vars(time).items() if not k.startswith('__')})
_FAKE_TIME_MODULE.time = _fake_time
_FAKE_TIME_MODULE.time_ns = _fake_time_ns
_FAKE_TIME_MODULE.gmtime = _fake_gmtime
_FAKE_TIME_MODULE.localtime = _fake_localtime


@contextlib.contextmanager
def harness_env(tz):
    """Own gemato.cli's clock and the process time zone for the duration of the block."""
    old_mod = gemato.cli.datetime
    old_tz = os.environ.get('TZ')
    gemato.cli.datetime = _FAKE_MODULE
    # the wall clock has a second spelling, time.time(): wherever gemato.cli holds the module `time` (or the
    # function) under its usual name it gets the same harness instant
    old_time = vars(gemato.cli).get('time')
    if old_time is time:
        gemato.cli.time = _FAKE_TIME_MODULE
    elif old_time is time.time:
        gemato.cli.time = _fake_time
    os.environ['TZ'] = TZS[tz][0]
    time.tzset()
    try:
        probe = time.localtime(T0)
        if probe.tm_gmtoff != TZS[tz][1]:
            raise HarnessError(f'TZ={TZS[tz][0]} did not take effect (gmtoff {probe.tm_gmtoff})')
        yield
    finally:
        gemato.cli.datetime = old_mod
        if old_time is not None:
            gemato.cli.time = old_time
        if old_tz is None:
            os.environ.pop('TZ', None)
        else:
            os.environ['TZ'] = old_tz
        time.tzset()
        CLOCK.on_utcnow = None


@contextlib.contextmanager
def inflight_hook(k, action):
    """Call action() once: after the k-th update_entry_for_path call on a regular file that
    returned normally (k >= 1), or from inside utcnow() (k == 0).  k None: only count.  How
    the call is spelled (keywords, how many calls per file, whether a call belongs to the
    walk or to the saving of the Manifests) does not matter: every return is one instant at
    which the running update has just finished looking at some file."""
    rl = gemato.recursiveloader
    orig = rl.update_entry_for_path
    st = {'n': 0, 'fired': 0}

    def fire():
        st['fired'] += 1
        action()

    def wrapped(*a, **kw):
        r = orig(*a, **kw)
        target = a[0] if a else kw.get('path')
        if isinstance(target, (str, bytes)) and os.path.isfile(target):
            st['n'] += 1
            if k is not None and k >= 1 and st['n'] == k:
                fire()
        return r
    rl.update_entry_for_path = wrapped
    CLOCK.on_utcnow = fire if k == 0 else None
    try:
        yield st
    finally:
        rl.update_entry_for_path = orig
        CLOCK.on_utcnow = None


# ------------------------------------------------------------------ tree helpers

def slot_paths(seed):
    f = rot(_FILES, seed)
    d = rot(_DIRS, seed)[0]
    return [f[0], d + '/' + f[1], d + '/' + f[2]]


def slot_dir(seed):
    return rot(_DIRS, seed)[0]


def initial_content(slot, seed):
    c = bytes([0x61 + (slot + seed) % 20])
    return c * (4 + 2 * slot)


def dist_dir(seed):
    """Family 'opts': a second directory that holds nothing but a Manifest with one DIST line - a sub-Manifest
    that no update has a reason to change, whose MANIFEST entry in the top-level Manifest nevertheless has to
    follow the requested hash set."""
    return rot(_DIRS, seed)[1]


def opt_split(opt):
    """'<value of --hashes>/<name in OPT_EXTRAS>' -> (hashes, extra); None: what create used."""
    if opt is None:
        return HASH, 'plain'
    hashes, extra = opt.rsplit('/', 1)
    return hashes, extra


def opt_argv(opt):
    hashes, extra = opt_split(opt)
    return list(OPT_EXTRAS[extra]) + ['-H', hashes]


def hash_relation(prev, new):
    """How the requested hash set relates to the one of the previous update of the same history."""
    a, b = set(prev.split()), set(new.split())
    if a == b:
        return 'same'
    if b > a:
        return 'superset'
    if b < a:
        return 'subset'
    return 'overlap' if a & b else 'disjoint'


def pkg_dir(cfg, loc):
    """Relative path of the package directory at location loc."""
    name = rot(_PKGS, cfg['seed'])[0]
    return name if loc == 'top' else os.path.join(slot_dir(cfg['seed']), name)


def pkg_names(seed):
    """Names of the three files of a package directory: the one that gets rewritten, the one
    that can be deleted, the one that can be added."""
    f = rot(_FILES, seed)
    return f[3], f[4], f[0]


def where_dir(cfg, where):
    return slot_dir(cfg['seed']) if where == 'slotdir' else pkg_dir(cfg, where)


def manifest_names_in(path):
    return sorted(n for n in os.listdir(path) if n.startswith('Manifest') and os.path.isfile(os.path.join(path, n)))


def manifest_file_name(kind):
    comp = KIND_COMP[kind]
    return 'Manifest' + ('.' + comp if comp else '')


def shipped_manifest(files):
    """Reference-written Manifest text with one valid DATA entry (size, SHA1) per file of
    {path relative to the Manifest's directory: content}."""
    return rm.write([rm.file_entry('DATA', n, files[n], [HASH]) for n in sorted(files)]).encode('utf8')


def files_below(path):
    """{relative path: content} of the regular non-Manifest files below path that are not
    inside a deeper directory carrying a Manifest file of its own."""
    out = {}
    for dp, dn, fn in os.walk(path):
        if dp != path and any(f.startswith('Manifest') for f in fn):
            dn[:] = []
            continue
        dn.sort()
        for f in fn:
            if not f.startswith('Manifest'):
                with open(os.path.join(dp, f), 'rb') as fh:
                    out[os.path.relpath(os.path.join(dp, f), path)] = fh.read()
    return out


def write_pkg(path, kind, files, ns):
    """(Re)create directory path with the given files and, unless kind is 'plain', a valid
    Manifest (compressed as kind says) for them; every file gets mtime ns."""
    if os.path.lexists(path):
        shutil.rmtree(path)
    os.makedirs(path)
    for n, data in files.items():
        write_file(os.path.join(path, n), data, ns)
    if kind != 'plain':
        write_file(os.path.join(path, manifest_file_name(kind)),
                   compress(shipped_manifest(files), KIND_COMP[kind]), ns)


def set_mtime_ns(path, ns):
    os.utime(path, ns=(ns, ns))


def write_file(path, data, ns):
    with open(path, 'wb') as f:
        f.write(data)
    set_mtime_ns(path, ns)


def build_tree(d, cfg, n_existing):
    os.makedirs(d)
    sp = slot_paths(cfg['seed'])
    os.makedirs(os.path.join(d, slot_dir(cfg['seed'])))
    for s in range(n_existing):
        write_file(os.path.join(d, sp[s]), initial_content(s, cfg['seed']), OLD * 10 ** 9)
    if cfg['layout'] == 'nested':
        write_file(os.path.join(d, slot_dir(cfg['seed']), 'Manifest'), b'', OLD * 10 ** 9)
    if cfg.get('alpha', 'files') == 'opts':
        os.makedirs(os.path.join(d, dist_dir(cfg['seed'])))
        write_file(os.path.join(d, dist_dir(cfg['seed']), 'Manifest'), DIST_LINE, OLD * 10 ** 9)


def restore(d, snap):
    wipe(d)
    for p in sorted(snap):
        if snap[p][0] == 'd':
            os.makedirs(os.path.join(d, p), exist_ok=True)
    for p, v in snap.items():
        if v[0] == 'f':
            write_file(os.path.join(d, p), v[1], v[2])
        elif v[0] != 'd':
            raise HarnessError(f'unexpected object in replica: {p} {v[0]}')


def read_manifests(d):
    out = {}
    for dp, _dn, fn in os.walk(d):
        for f in fn:
            if f.startswith('Manifest'):
                p = os.path.join(dp, f)
                with open(p, 'rb') as fh:
                    out[os.path.relpath(p, d)] = fh.read()
    return out


_TS_RE = re.compile(r'^(\d{4})-(\d\d)-(\d\d)T(\d\d):(\d\d):(\d\d)Z$')


def ts_epoch(s):
    y, mo, d, h, mi, sec = (int(x) for x in _TS_RE.match(s).groups())
    delta = _dt.datetime(y, mo, d, h, mi, sec) - _EPOCH
    return delta.days * 86400 + delta.seconds


_PARSED = {}


def parsed(manis):
    """-> ({manifest path: sorted entries without TIMESTAMP}, TIMESTAMP epoch seconds,
    {manifest path: entries in file order}, [sub-Manifest paths whose MANIFEST entry does not match
    size / digests of the file]); memoised on the bytes (results are not mutated)"""
    key = tuple(sorted(manis.items()))
    r = _PARSED.get(key)
    if r is None:
        if len(_PARSED) > 4000:
            _PARSED.clear()
        r = _PARSED[key] = _parse_manifests(manis)
    return r


def _parse_manifests(manis):
    out, raw, stamps, stale = {}, {}, [], []
    for p, b in manis.items():
        try:
            text = decompress(b, comp_of(p)).decode('utf8')
        except Exception as e:
            raise HarnessError(f'{p}: not readable as a{" " + comp_of(p) if comp_of(p) else ""} Manifest: {e!r}')
        st, ents = rm.parse(text)
        if st != 'ok':
            raise HarnessError(f'reference parser: {p}: {st} {ents}')
        body = []
        for e in ents:
            if e[0] == 'TIMESTAMP':
                if p == 'Manifest':
                    stamps.append(e[1])
                continue
            if e[0] == 'MANIFEST' and os.path.normpath(os.path.join(os.path.dirname(p), e[1])) in manis:
                sub = os.path.normpath(os.path.join(os.path.dirname(p), e[1]))
                # every digest the entry carries against the reference digest of the bytes on disk; what is kept
                # for the comparison between the replicas is the *set of hash names*
                if e[2] != len(manis[sub]) or not e[3] or any(
                        not rm.available(h) or v.lower() != rm.hexdigest(h, manis[sub]) for h, v in e[3]):
                    stale.append(sub)
                e = ('MANIFEST', e[1], None, tuple(h for h, _v in e[3]))
            body.append(e)
        raw[p] = body
        out[p] = sorted(body, key=repr)
    if len(stamps) != 1:
        raise HarnessError(f'top-level Manifest carries {len(stamps)} TIMESTAMP entries')
    return out, ts_epoch(stamps[0]), raw, sorted(stale)


def unregistered(manis):
    """Manifest files (other than the top-level one) that no MANIFEST entry of any Manifest
    file names."""
    named = set()
    for p, b in manis.items():
        for e in parsed(manis)[2][p]:
            if e[0] == 'MANIFEST':
                named.add(os.path.normpath(os.path.join(os.path.dirname(p), e[1])))
    return sorted(p for p in manis if p != 'Manifest' and p not in named)


def recorded_for(manis, rel):
    """(size, SHA1) that the Manifests record for tree file rel, or None."""
    for p, ents in parsed(manis)[2].items():
        for e in ents:
            if e[0] not in ('IGNORE', 'DIST', 'MANIFEST') and e[2] is not None \
                    and os.path.normpath(os.path.join(os.path.dirname(p), rm.full_path(e[0], e[1]))) == rel:
                return e[2], dict(e[3]).get(HASH, '').lower()
    return None


def diff_paths(ea, eb):
    bad = []
    for p in sorted(set(ea) | set(eb)):
        a, b = ea.get(p), eb.get(p)
        if a == b:
            continue
        if a is None or b is None:
            bad.append(f'{p}: only in {"B" if a is None else "A"}')
            continue
        for e in a:
            if e not in b:
                bad.append(f'{p}: A has {rm.entry_line(e) if e[2] is not None else e}')
        for e in b:
            if e not in a:
                bad.append(f'{p}: B has {rm.entry_line(e) if e[2] is not None else e}')
    return bad


# ------------------------------------------------------------------ running gemato

_HOISTED = {}


def _main_with_hoisted_parser(argv):
    """gemato.cli.main(['gemato'] + argv) with the one implementation-independent part -
    building the argparse tree, about 60 % of the cost of a call on these tiny trees -
    done once per process.  Everything else is main()'s body: parse the arguments, give
    them to a *fresh* command object, call it, clean up, map GematoException to 1."""
    if not _HOISTED:
        argp = argparse.ArgumentParser(prog='gemato', description='Gentoo Manifest Tool')
        subp = argp.add_subparsers()
        for cmdclass in (gemato.cli.VerifyCommand, gemato.cli.UpdateCommand, gemato.cli.CreateCommand):
            cmd = cmdclass()
            cmdp = subp.add_parser(cmd.name, help=cmd.help)
            cmd.add_options(cmdp)
            cmdp.set_defaults(cmd=cmd)
        _HOISTED['argp'] = argp
    argp = _HOISTED['argp']
    vals = argp.parse_args(argv)
    cmd = type(vals.cmd)()
    try:
        try:
            cmd.parse_args(vals, argp)
            return cmd()
        finally:
            cmd.cleanup()
    except gemato.cli.GematoException as e:
        logging.error(e)
        return 1


def hoisted_cli(argv):
    """Same observation shape as gem.cli."""
    gem._handler.records = []
    out = io.StringIO()
    with contextlib.redirect_stdout(out), contextlib.redirect_stderr(out):
        o = gem.call(_main_with_hoisted_parser, list(argv))
    o['log'] = list(gem._handler.records)
    gem._handler.records = []
    return o


class Run:
    """Per-case context: configuration, statistics sink, collected violations."""

    def __init__(self, cfg, stats, hoist_from_round=None):
        self.cfg = cfg
        self.stats = stats if stats is not None else Stats()
        self.vio = []
        self.case = None
        self.hoist_from_round = hoist_from_round     # None: always the unmodified gemato.cli.main
        self.rnd = 0
        self.last = None          # facts about the most recent successful update()
        # history state (saved / restored with the replica snapshots): model TIMESTAMP, whether it differs
        # from the Manifest's, the future TIMESTAMP that a stepped-back round replaced (None: none yet)
        # and (family 'opts') the value of --hashes of the previous update
        self.h = {'ts_model': None, 'diverged': False, 'stale': None, 'hashes': HASH}

    def violation(self, sig, message):
        sig = dict(sig, tz=self.cfg['tz'])
        self.vio.append({'sig': sig, 'case': self.case, 'message': message})

    def cli(self, argv):
        with seams.scandir_order(seams.order_sorted):
            if self.hoist_from_round is not None and self.rnd >= self.hoist_from_round:
                self.stats.counters['cli_calls_with_hoisted_parser'] += 1
                return hoisted_cli(argv)
            self.stats.counters['cli_calls_through_main'] += 1
            return gem.cli(argv)

    def report_failed(self, mode, r, what):
        argv = ({'create': ['create', '-t'], 'incr': ['update', '--incremental'], 'full': ['update']}[mode]
                + (self.last or {}).get('opt_argv', []))
        self.violation({'check': 'update_failed', 'mode': mode, 'got': gem.brief(r), 'where': r.get('where')},
                       f'update_failed: {what}: `gemato {" ".join(argv)}` gave {gem.brief(r)} '
                       f'{r.get("msg") or r["log"][-1:]}')

    def verify(self, d):
        self.stats.counters['verify_runs'] += 1
        r = self.cli(['verify', d])
        return r['kind'] == 'ret' and r['value'] == 0, r

    def update(self, d, mode, start_us, what, tolerate=False, opt=None):
        """mode: 'create' | 'incr' | 'full'.  Runs the command with the scan starting at
        fake instant start_us; checks the TIMESTAMP; re-stamps rewritten Manifests.
        tolerate: a failing command is not reported here (the caller judges it).
        opt: the options of the command (family 'opts', see opt_split); None: ``-H SHA1`` alone.
        -> (ok, observation)"""
        ok, r, lasts = self.update_many([d], mode, start_us, what, tolerate=tolerate, opt=opt)
        if ok:
            self.last = lasts[0]
        return ok, r

    def update_many(self, ds, mode, start_us, what, tolerate=False, opt=None):
        """One invocation of the command over the trees ds (in that order on the command line).  The fake clock
        stands still during the invocation, so start_us is the scan start of every tree; the TIMESTAMP check and
        the re-stamping of rewritten Manifests are made per tree.
        -> (ok, observation, [facts per tree as in self.last])"""
        befores = [read_manifests(d) for d in ds]
        mt_befores = [{p: os.stat(os.path.join(d, p)).st_mtime_ns for p in before} for d, before in zip(ds, befores)]
        argv = {'create': ['create', '-t'], 'incr': ['update', '--incremental'], 'full': ['update']}[mode]
        CLOCK.us = start_us
        calls0 = CLOCK.calls
        r = self.cli(argv + opt_argv(opt) + list(ds))
        self.stats.transitions += 1
        self.stats.outcomes[f'{mode}/{gem.brief(r)}'] += 1
        ok = r['kind'] == 'ret' and r['value'] == 0
        if not ok:
            self.last = {'argv': argv, 'opt_argv': opt_argv(opt) if opt is not None else []}
            if not tolerate:
                self.report_failed(mode, r, what)
            return False, r, None
        n = CLOCK.calls - calls0
        # one tree: exactly one look at the clock; several trees: at least one (one scan start for the whole
        # invocation is as good as one per tree - the clock does not move) and at most one per tree
        if not (n == 1 if len(ds) == 1 else 1 <= n <= len(ds)):
            raise HarnessError(f'clock seam: {mode} over {len(ds)} tree(s) consulted the fake clock {n} times')
        lasts = []
        for i, (d, before, mt_before) in enumerate(zip(ds, befores, mt_befores)):
            w = what if len(ds) == 1 else f'{what} [tree #{i + 1} of the invocation]'
            lasts.append(self._judge_timestamp(d, before, mt_before, mode, start_us, w))
        return True, r, lasts

    def _judge_timestamp(self, d, before, mt_before, mode, start_us, what):
        ts_before = parsed(before)[1] if before.get('Manifest') else None
        after = read_manifests(d)
        written = set()
        for p, b in after.items():
            if before.get(p) != b or mt_before.get(p) != os.stat(os.path.join(d, p)).st_mtime_ns:
                if before.get(p) == b:
                    self.stats.counters['manifest_rewritten_with_identical_bytes'] += 1
                written.add(p)
                set_mtime_ns(os.path.join(d, p), (start_us + 10 ** 6) * 1000)
        ts_after = parsed(after)[1]
        start_s = start_us // 10 ** 6
        top_written = 'Manifest' in written
        stepback = ts_before is not None and ts_before > start_s     # the fake clock is before the previous TIMESTAMP
        if stepback:
            self.stats.counters['update_with_clock_before_previous_timestamp:'
                                + ('top_manifest_written' if top_written else 'nothing_written')] += 1
        ts_model = ts_after
        if ts_after * 10 ** 6 > start_us and (top_written or ts_after != ts_before):
            ts_model = start_s
            self.violation({'check': 'timestamp_later_than_scan_start'},
                           f'timestamp_later_than_scan_start: {what}: {mode} started scanning at fake instant '
                           f'{start_us / 1e6:.6f} (UTC epoch) but the Manifest it wrote carries TIMESTAMP {ts_after} '
                           f'({ts_after - start_us / 1e6:+.1f} s; previous TIMESTAMP {ts_before}), '
                           f'TZ={TZS[self.cfg["tz"]][0]}')
        elif ts_after * 10 ** 6 > start_us:
            # nothing to record, top-level Manifest not written: the old (future) TIMESTAMP stays
            self.stats.counters['future_timestamp_kept_by_update_that_did_not_write'] += 1
        elif ts_after not in (ts_before, start_us // 10 ** 6):
            self.stats.counters['clock_seam_mismatch'] += 1
            if len(self.stats.notes) < 4:
                self.stats.notes.append(f'TIMESTAMP {ts_after} is neither the previous one ({ts_before}) nor '
                                        f'the fake scan start {start_us // 10 ** 6} (tz={self.cfg["tz"]}, {mode})')
        else:
            self.stats.counters['timestamp_refreshed' if ts_after == start_us // 10 ** 6
                                else 'timestamp_kept'] += 1
        return {'top_written': top_written, 'stepback': stepback, 'ts_before': ts_before,
                'ts_after': ts_after, 'ts_model': ts_model}


def new_content(old, op, slot, seed):
    if op == 'modify_same_size':
        return bytes([(old[0] + 1) % 256]) + old[1:]
    if op == 'modify_other_size':
        if not old:
            return bytes([0x6e, 0x30 + (slot + seed) % 10])
        if slot == 2:
            return b''
        return old + b'+'
    raise ValueError(op)


def sub_manifest(d, cfg):
    return os.path.join(d, slot_dir(cfg['seed']), 'Manifest')


def mani_applicable(op, data):
    """data: current bytes of the sub-Manifest.  Appends need a newline-terminated (or empty) file and are
    made once (no duplicate entries); the same-size edit needs the DIST line with a hex digit at its end."""
    lines = data.splitlines(True)
    dist = [ln for ln in lines if ln.startswith(DIST_PREFIX)]
    if op == 'mani_edit_dist':
        return len(dist) == 1 and dist[0].endswith(b'\n') and dist[0][-2:-1] in (b'0', b'1')
    if data and not data.endswith(b'\n'):
        return False
    if op == 'mani_append_dist':
        return not dist
    return IGNORE_LINE not in lines


# ------------------------------------------------------------------ alphabet 'dirs'

def dir_state(d, cfg):
    """What the applicability of the directory operations depends on, read from replica directory d."""
    sd = os.path.join(d, slot_dir(cfg['seed']))
    st = {'slotdir': os.path.isdir(sd), 'slotdir_manifest': False, 'pkgs': {}}
    if st['slotdir']:
        st['slotdir_manifest'] = bool(manifest_names_in(sd))
    for loc in LOCS:
        p = os.path.join(d, pkg_dir(cfg, loc))
        if not os.path.isdir(p):
            st['pkgs'][loc] = None
        else:
            st['pkgs'][loc] = dict(zip('xyz', (os.path.isfile(os.path.join(p, n)) for n in pkg_names(cfg['seed']))),
                                   manifest=bool(manifest_names_in(p)))
    return st


def initial_dir_state(layout):
    return {'slotdir': True, 'slotdir_manifest': layout == 'nested', 'pkgs': {loc: None for loc in LOCS}}


def dir_choices(st, kinds):
    """Applicable directory operations in abstract state st (see dir_state)."""
    out = []
    for loc in LOCS:
        pk = st['pkgs'][loc]
        if pk is None:
            if loc == 'inner' and not st['slotdir']:
                continue
            for kind in kinds:
                for mc in MCLASSES:
                    out.append(('dir_add', f'{loc}:{kind}', mc))
            continue
        out.append(('dir_remove', loc, None))
        if pk['x']:
            for how in HOWS:
                for mc in MCLASSES:
                    out.append(('dir_replace', f'{loc}:{how}', mc))
            for op in ('pkg_modify_same_size', 'pkg_modify_other_size'):
                for mc in MCLASSES:
                    out.append((op, loc, mc))
        if pk['y']:
            out.append(('pkg_delete', loc, None))
        if not pk['z']:
            for mc in MCLASSES:
                out.append(('pkg_add', loc, mc))
    if st['slotdir']:
        out.append(('dir_remove', 'slotdir', None))
    for where in ('slotdir',) + LOCS:
        if where == 'slotdir':
            bare = st['slotdir'] and not st['slotdir_manifest']
        else:
            bare = st['pkgs'][where] is not None and not st['pkgs'][where]['manifest']
        if bare:
            for content in CONTENTS:
                for kind in kinds:
                    if kind != 'plain':
                        for mc in MCLASSES:
                            out.append(('mani_appear', f'{where}:{content}:{kind}', mc))
    return out


def apply_dir_op(d, cfg, choice, ns):
    op, arg, _mc = choice
    seed = cfg['seed']
    px, py, pz = pkg_names(seed)
    if op == 'dir_add':
        loc, kind = arg.split(':')
        write_pkg(os.path.join(d, pkg_dir(cfg, loc)), kind,
                  {px: bytes([0x70 + seed % 8]) * 4, py: bytes([0x51 + seed % 8]) * 2}, ns)
    elif op == 'dir_remove':
        shutil.rmtree(os.path.join(d, where_dir(cfg, arg)))
    elif op == 'dir_replace':
        loc, how = arg.split(':')
        path = os.path.join(d, pkg_dir(cfg, loc))
        names = manifest_names_in(path)
        if len(names) > 1:
            raise HarnessError(f'{path}: more than one Manifest file: {names}')
        kind = 'plain' if not names else (comp_of(names[0]) or 'mani')
        files = {}
        for n in sorted(os.listdir(path)):
            if n not in names:
                if not os.path.isfile(os.path.join(path, n)):
                    raise HarnessError(f'{path}/{n}: not a regular file')
                with open(os.path.join(path, n), 'rb') as f:
                    files[n] = f.read()
        old = files[px]
        # 'other': 4 -> 41 -> 411 bytes, so that the number of digits of the size (and with it the size of a
        # plain Manifest that lists it) changes as well
        files[px] = (bytes([old[0] ^ 1]) + old[1:]) if how == 'same' else old + b'+' * (9 * len(old) + 1)
        write_pkg(path, kind, files, ns)
    elif op == 'mani_appear':
        where, content, kind = arg.split(':')
        path = os.path.join(d, where_dir(cfg, where))
        if manifest_names_in(path):
            raise HarnessError(f'mani_appear: {path} has a Manifest already')
        files = files_below(path) if content == 'full' else {}
        write_file(os.path.join(path, manifest_file_name(kind)),
                   compress(shipped_manifest(files), KIND_COMP[kind]), ns)
    elif op in ('pkg_modify_same_size', 'pkg_modify_other_size'):
        p = os.path.join(d, pkg_dir(cfg, arg), px)
        with open(p, 'rb') as f:
            old = f.read()
        write_file(p, new_content(old, op[4:], 0, seed), ns)
    elif op == 'pkg_delete':
        os.unlink(os.path.join(d, pkg_dir(cfg, arg), py))
    elif op == 'pkg_add':
        write_file(os.path.join(d, pkg_dir(cfg, arg), pz), b'z' + bytes([0x30 + seed % 10]) * 2, ns)
    else:
        raise ValueError(op)
    return ns


def premise(before, after, ts_prev):
    """The statement's premise read off two snapshots of one replica (before / after the tree edit of a
    round): -> ('must', None) when every file whose content was modified has a changed size or an mtime later
    than the previous TIMESTAMP and every added file has an mtime later than it; else ('dontcare', reason)."""
    cut = ts_prev * 10 ** 9
    added_old = False
    for p, v in sorted(after.items()):
        if v[0] != 'f':
            continue
        o = before.get(p)
        if o is None or o[0] != 'f':
            added_old = added_old or v[2] <= cut
        elif o[1] != v[1] and len(o[1]) == len(v[1]) and v[2] <= cut:
            return 'dontcare', ('same-size modification' + (' of a Manifest file' if os.path.basename(p).startswith('Manifest')
                                                            else '')
                                + ' with mtime not later than the previous TIMESTAMP (premise false)')
    if added_old:
        return 'dontcare', ('added file with mtime not later than the previous TIMESTAMP: arguable whether an '
                            'added file is a "modified file" of the premise')
    return 'must', None


def describe_dir_op(cfg, choice):
    op, arg, _mc = choice
    px, py, pz = pkg_names(cfg['seed'])
    if op == 'dir_add':
        loc, kind = arg.split(':')
        return (f'new directory {pkg_dir(cfg, loc)!r} with files {px!r}, {py!r}'
                + ('' if kind == 'plain' else f' and its own valid {manifest_file_name(kind)}'))
    if op == 'dir_remove':
        return f'directory {where_dir(cfg, arg)!r} removed with everything in it'
    if op == 'dir_replace':
        loc, how = arg.split(':')
        return (f'directory {pkg_dir(cfg, loc)!r} replaced by a new copy in which {px!r} has other content of '
                f'{"the same" if how == "same" else "another"} size (its own Manifest file, if any, regenerated to match)')
    if op == 'mani_appear':
        where, content, kind = arg.split(':')
        return (f'a valid {manifest_file_name(kind)} ({"one entry per file below" if content == "full" else "no entries"}) '
                f'appears in existing directory {where_dir(cfg, where)!r}')
    name = {'pkg_modify_same_size': px, 'pkg_modify_other_size': px, 'pkg_delete': py, 'pkg_add': pz}[op]
    return f'{op[4:]} on {os.path.join(pkg_dir(cfg, arg), name)!r}'


def apply_op(d, cfg, choice, ts_prev):
    """Apply one operation to replica directory d.  -> mtime ns given (or None)"""
    op, slot, mc = choice[:3]
    choice = tuple(choice[:3])
    ns = None if mc is None else ts_prev * 10 ** 9 + MC_NS[mc]
    if op == 'none':
        return None
    if op in DIR_OPS:
        return apply_dir_op(d, cfg, choice, ns)
    if op in MANI_OPS:
        p = sub_manifest(d, cfg)
        with open(p, 'rb') as f:
            old = f.read()
        if not mani_applicable(op, old):
            raise HarnessError(f'{op} is not applicable to {old!r}')
        if op == 'mani_append_dist':
            new = old + DIST_LINE
        elif op == 'mani_append_ignore':
            new = old + IGNORE_LINE
        else:
            lines = old.splitlines(True)
            i = [n for n, ln in enumerate(lines) if ln.startswith(DIST_PREFIX)][0]
            body = lines[i].rstrip(b'\n')
            lines[i] = body[:-1] + (b'1' if body[-1:] == b'0' else b'0') + b'\n'
            new = b''.join(lines)
            if len(new) != len(old) or new == old:
                raise HarnessError('mani_edit_dist is not a same-size modification')
        write_file(p, new, ns)
        return ns
    p = os.path.join(d, slot_paths(cfg['seed'])[slot])
    if op == 'delete':
        os.unlink(p)
        return None
    if op == 'add':
        data = b'' if slot == 2 else b'new' + bytes([0x30 + (slot + cfg['seed']) % 10])
        write_file(p, data, ns)
        return ns
    with open(p, 'rb') as f:
        old = f.read()
    if op == 'touch':
        set_mtime_ns(p, ns)
    elif op == 'replace_equal':
        tmp = p + '.c11tmp'
        write_file(tmp, old, ns)
        os.replace(tmp, p)
        set_mtime_ns(p, ns)
    else:
        write_file(p, new_content(old, op, slot, cfg['seed']), ns)
    return ns


def opt_menu(cfg):
    return [f'{h}/{x}' for h in OPT_HASHES[cfg['hashes']] for x in OPT_EXTRAS]


def opt_tree_choices(existing, nonempty, layout, sub_plain, slotdir_bare):
    """Tree operations of family 'opts': nothing at all; per existing slot file a touch, a same-size and an
    other-size modification and its deletion; an absent slot file is added; nested layout: a DIST line is
    appended to the (uncompressed) sub-Manifest; flat layout: a valid Manifest listing the slot directory's files
    with the hash set of create appears in it.  One mtime class each, such that the premise holds."""
    out = [('none', None, None)]
    for s in range(3):
        if s in existing:
            for op, mc in OPT_SLOT_OPS:
                if op == 'modify_same_size' and s not in nonempty:
                    continue
                out.append((op, s, mc))
        else:
            out.append(('add', s, 'newer'))
    if layout == 'nested' and sub_plain:
        out.append(('mani_append_dist', None, 'newer'))
    if layout == 'flat' and slotdir_bare:
        out.append(OPT_MANI_APPEAR)
    return out


def with_options(tree_choices, cfg):
    return [t + (o,) for t in tree_choices for o in opt_menu(cfg)]


def choices(d, cfg):
    """Applicable operations in the current state of replica directory d."""
    if cfg.get('alpha', 'files') == 'dirs':
        return dir_choices(dir_state(d, cfg), tuple(cfg['kinds']))
    if cfg.get('alpha', 'files') == 'opts':
        paths = [os.path.join(d, rel) for rel in slot_paths(cfg['seed'])]
        existing = {s for s, p in enumerate(paths) if os.path.exists(p)}
        sub_plain = False
        if os.path.isfile(sub_manifest(d, cfg)):
            with open(sub_manifest(d, cfg), 'rb') as f:
                sub_plain = mani_applicable('mani_append_dist', f.read())
        return with_options(opt_tree_choices(
            existing, {s for s in existing if os.path.getsize(paths[s])}, cfg['layout'], sub_plain,
            not manifest_names_in(os.path.join(d, slot_dir(cfg['seed'])))), cfg)
    out = []
    for s, rel in enumerate(slot_paths(cfg['seed'])):
        p = os.path.join(d, rel)
        if os.path.exists(p):
            for op in EXISTING_OPS:
                if op == 'modify_same_size' and os.path.getsize(p) == 0:
                    continue
                for mc in MCLASSES:
                    out.append((op, s, mc))
            out.append(('delete', s, None))
        else:
            for mc in MCLASSES:
                out.append(('add', s, mc))
    if cfg['layout'] == 'nested' and os.path.isfile(sub_manifest(d, cfg)):
        with open(sub_manifest(d, cfg), 'rb') as f:
            data = f.read()
        for op in MANI_OPS:
            if mani_applicable(op, data):
                for mc in MCLASSES:
                    out.append((op, None, mc))
    return out


def initial_choices(layout, alpha='files', kinds=()):
    """choices() on the initial history tree (slots 0 and 1 exist, non-empty; slot 2 absent; nested: the
    sub-Manifest carries neither of the lines that the harness appends; no package directory)."""
    if alpha == 'dirs':
        return dir_choices(initial_dir_state(layout), tuple(kinds))
    if alpha == 'opts':         # kinds: name of the hash menu
        return with_options(opt_tree_choices({0, 1}, {0, 1}, layout, True, layout == 'flat'), {'hashes': kinds})
    out = []
    for s in (0, 1):
        for op in EXISTING_OPS:
            for mc in MCLASSES:
                out.append((op, s, mc))
        out.append(('delete', s, None))
    for mc in MCLASSES:
        out.append(('add', 2, mc))
    if layout == 'nested':
        for op in MANI_APPEND_OPS:
            for mc in MCLASSES:
                out.append((op, None, mc))
    return out


def verdict_for(choice):
    """-> ('must', None) | ('dontcare', reason)"""
    op, _slot, mc = choice
    later = mc in ('frac', 'newer')
    if op == 'modify_same_size' and not later:
        return 'dontcare', 'same-size modification with mtime not later than the previous TIMESTAMP (premise false)'
    if op == 'mani_edit_dist' and not later:
        return 'dontcare', ('same-size modification of the sub-Manifest file with mtime not later than the previous '
                            'TIMESTAMP (premise false)')
    if op == 'add' and not later:
        return 'dontcare', ('added file with mtime not later than the previous TIMESTAMP: arguable whether an '
                            'added file is a "modified file" of the premise')
    return 'must', None


def sig_class(mc):
    return 'newer' if mc in ('frac', 'newer') else mc


# ------------------------------------------------------------------ family 'hist'

def entry_hash_names(e):
    """Hash names of a reference-parsed file entry (MANIFEST entries of compared sub-Manifests carry names only)."""
    return frozenset(x if isinstance(x, str) else x[0] for x in e[3])


def opts_observations(stats, e0, eb, req, rel, extra, cfg, la, lb):
    """Family 'opts', not part of the verdict: what the *full* update made of the options, so that finish() can
    tell whether the option dimension had any effect at all (a full update that kept the old hash set, never
    compressed and never rewrote would make the comparison with the incremental one vacuous).
    e0 / eb: parsed Manifests of a replica before the round / of B after it; la / lb: Run.last of the two updates."""
    want = frozenset(req.split())
    names = [entry_hash_names(e) for ents in eb.values() for e in ents if e[0] not in ('IGNORE', 'DIST')]
    mnames = [entry_hash_names(e) for ents in eb.values() for e in ents if e[0] == 'MANIFEST']
    if names:
        stats.counters[f'opts/after_full_update:hash_set_{rel}:'
                       + ('every_entry_carries_the_requested_hash_set' if all(n == want for n in names)
                          else 'some_entry_carries_another_hash_set')] += 1
    if mnames and rel != 'same' and all(n == want for n in mnames):
        stats.counters['opts/after_full_update:MANIFEST_entries_follow_changed_hash_set'] += 1
    sub0 = {p for p in e0 if p != 'Manifest'}
    sub1 = {p for p in eb if p != 'Manifest'}
    for p in sorted(sub1 - sub0):
        if comp_of(p) and p[:-len(comp_of(p)) - 1] in sub0:
            stats.counters[f'opts/full_update_compressed_a_sub_manifest:{extra}'] += 1
    for p in sorted(sub0 - sub1):
        if comp_of(p) and p[:-len(comp_of(p)) - 1] in sub1:
            stats.counters[f'opts/full_update_uncompressed_a_sub_manifest:{extra}'] += 1
    if any(comp_of(p) for p in sub1):
        stats.counters[f'opts/round_ended_with_compressed_sub_manifest:{cfg["layout"]}'] += 1
    if any(comp_of(p) for p in sub0):
        stats.counters['opts/round_started_with_compressed_sub_manifest'] += 1
    for mode, last in (('incr', la), ('full', lb)):
        stats.counters[f'opts/{mode}:{extra}:' + ('top_manifest_written' if last['top_written']
                                                   else 'top_manifest_not_written')] += 1


def play_round(run, A, B, choice, rnd, history):
    """One round on both replicas.  -> False when the history cannot be continued."""
    cfg, stats = run.cfg, run.stats
    op, slot, mc = choice[:3]
    opt = choice[3] if len(choice) > 3 else None         # family 'opts': the options of this round's two updates
    dirs = cfg.get('alpha', 'files') == 'dirs'
    opts = cfg.get('alpha', 'files') == 'opts'
    fam = 'dirs/' if dirs else 'opts/' if opts else ''   # prefix of the outcome classes and of the family's own counters
    run.rnd = rnd
    h = run.h
    start_s = round_start_s(cfg['clock'], rnd)
    start_us = start_s * 10 ** 6 + cfg['frac']
    e0, ts_actual, _raw0, stale0 = parsed(read_manifests(A))
    if stale0:
        stats.counters['round_started_with_stale_manifest_entry_in_A'] += 1
    ts_prev = h['ts_model']
    if ts_actual != ts_prev:
        if not h['diverged']:
            raise HarnessError(f'model TIMESTAMP {ts_prev} != TIMESTAMP in A {ts_actual} without a reported violation')
        stats.counters['round_relative_to_model_timestamp_after_timestamp_violation'] += 1
    tree_before = snapshot(A) if dirs or opts else None
    ns = apply_op(A, cfg, choice, ts_prev)
    apply_op(B, cfg, choice, ts_prev)
    if dirs or opts:
        # the premise is read off the tree itself (what was modified / added, with which size and mtime)
        verdict, reason = premise(tree_before, snapshot(A), ts_prev)
        pending = unregistered(read_manifests(A)) if dirs else []
    else:
        verdict, reason = verdict_for(choice)
        pending = []
    what = (f'history {history} tz={cfg["tz"]} layout={cfg["layout"]} clock={cfg["clock"]} frac={cfg["frac"]}us '
            f'round {rnd}')
    if opts:
        req, extra = opt_split(opt)
        rel = hash_relation(h['hashes'], req)
        what += f' (both updates with `{" ".join(opt_argv(opt))}`; the previous update had -H {h["hashes"]!r})'
    stats.evaluations += 1
    ok_a, ra = run.update(A, 'incr', start_us, what, tolerate=dirs, opt=opt)
    la = run.last
    ok_b, rb = run.update(B, 'full', start_us, what, tolerate=dirs, opt=opt)
    stats.counters[f'{fam}round:{op}:{mc}'] += 1
    if dirs:
        stats.counters[f'dirs/arg:{op}:{slot}'] += 1
        stats.counters[f'dirs/tz:{cfg["tz"]}'] += 1
        stats.counters[f'dirs/layout:{cfg["layout"]}'] += 1
    elif opts:
        stats.counters[f'opts/tz:{cfg["tz"]}'] += 1
        stats.counters[f'opts/layout:{cfg["layout"]}'] += 1
        stats.counters[f'opts/hashes:{req}'] += 1
        stats.counters[f'opts/extra:{extra}'] += 1
        stats.counters[f'opts/round{rnd}:hash_set_{rel}:{extra}'] += 1
    else:
        stats.counters[f'tz:{cfg["tz"]}'] += 1
        stats.counters[f'layout:{cfg["layout"]}'] += 1
        stats.counters[f'clock:{cfg["clock"]}'] += 1
    if not (ok_a and ok_b):
        if not dirs:
            return False
        if ok_a or ok_b:
            # one update fails where the other succeeds: whatever the premise, report the failing one
            run.report_failed('full' if ok_a else 'incr', rb if ok_a else ra,
                              what + f' ({describe_dir_op(cfg, choice[:3])}; the '
                              f'{"incremental" if ok_a else "full"} update on the same tree succeeded)')
            stats.outcomes[f'dirs/one_update_fails/{"full" if ok_a else "incr"}'] += 1
            return False
        ea, eb = parsed(read_manifests(A))[0], parsed(read_manifests(B))[0]
        if ea != eb and verdict == 'must':
            stats.compared += 1
            stats.outcomes['dirs/must/both_updates_fail_and_differ'] += 1
            run.violation({'check': 'incremental_differs_from_full', 'op': op, 'mtime_class': sig_class(mc)},
                          f'incremental_differs_from_full: {what}: {describe_dir_op(cfg, choice)}: both updates failed '
                          f'({gem.brief(ra)} / {gem.brief(rb)}) but left different Manifests: '
                          f'{"; ".join(diff_paths(ea, eb))}')
        else:
            stats.dontcare['both the incremental and the full update fail (the statement does not say what an update '
                           'does with such a tree) and leave the same Manifest contents'
                           if ea == eb else reason] += 1
            stats.outcomes[f'dirs/dontcare/both_updates_fail/{op}:{gem.brief(ra)}/{gem.brief(rb)}'] += 1
        return False
    ea, _tsa, rawa, stale_a = parsed(read_manifests(A))
    eb, _tsb, rawb, stale_b = parsed(read_manifests(B))
    if stale_b:
        stats.counters['B_manifest_entry_stale_after_full_update'] += 1     # verify(B) below reports it
    vb, rvb = run.verify(B)
    if not vb:
        run.violation({'check': 'sanity_full_update_result_fails_verify', 'op': op},
                      f'sanity: {what}: replica B does not verify after a full update: {rvb["log"][-2:]}')
    stale_a = [p for p in stale_a if p not in stale_b]      # stale in B as well: not a difference (B fails verify)
    equal = ea == eb and not stale_a
    if la['stepback']:
        stats.counters[f'stepback_round:{cfg["clock"]}:round{rnd}:'
                       + ('top_manifest_written' if la['top_written'] else 'nothing_written')] += 1
    between = (h['stale'] is not None and start_s < h['stale'] and ns is not None
               and ts_prev * 10 ** 9 < ns < h['stale'] * 10 ** 9)
    if between:
        # a change made after a stepped-back update wrote its TIMESTAMP, but before the future TIMESTAMP that
        # this update replaced, at a fake instant that is still before that stale TIMESTAMP
        stats.counters[f'round_with_mtime_between_written_and_stale_timestamp:{verdict}:{op}'] += 1
    if op in MANI_OPS:
        stats.counters[f'sub_manifest_edit:{verdict}:'
                       + ('parent_entry_current_in_A' if not stale_a else 'parent_entry_stale_in_A')] += 1
    for p in pending:
        # a Manifest file that no MANIFEST entry named when the updates started
        still = p in unregistered(read_manifests(B))
        stats.counters[f'dirs/unregistered_manifest_before_round:{verdict}:{comp_of(p) or "plain"}:'
                       + ('still_unregistered_after_full_update' if still else 'registered_by_full_update')] += 1
    if equal and rawa != rawb:
        stats.counters['equal_but_line_order_differs'] += 1
    if opts:
        opts_observations(stats, e0, eb, req, rel, extra, cfg, la, run.last)
        # a sub-Manifest that nobody touched since before the previous TIMESTAMP and that the full update left
        # byte-identical, whose MANIFEST entry the full update nevertheless gave other hash names
        mb = read_manifests(B)
        for mp, ents in eb.items():
            for e in ents:
                sub = os.path.normpath(os.path.join(os.path.dirname(mp), e[1]))
                old = tree_before.get(sub)
                if (e[0] == 'MANIFEST' and e[2] is None and old is not None and old[0] == 'f' and old[1] == mb.get(sub)
                        and old[2] <= ts_prev * 10 ** 9 and e not in e0.get(mp, ())):
                    stats.counters['opts/full_update_changed_hash_set_of_MANIFEST_entry_for_old_unchanged_sub_manifest'] += 1
    if verdict == 'must':
        stats.compared += 1
        stats.counters[fam + 'pre_true'] += 1
        sig = {'check': 'incremental_differs_from_full', 'op': op, 'mtime_class': sig_class(mc)}
        if opts:
            # classified by how the requested hash set relates to the previous one; the other options only where
            # the hash set cannot be what makes the difference
            sig.update(hash_set=rel, options=extra)
            if rel != 'same':
                sig.update(op='none' if op == 'none' else 'tree_op', mtime_class='*', options='*')
            stats.counters[f'opts/must:{op}:hash_set_{rel}'] += 1
        if op == 'none':
            target = 'nothing changed in the tree'
        elif op in DIR_OPS:
            target = describe_dir_op(cfg, choice[:3])
        elif slot is None:
            target = f'{op} on the sub-Manifest {os.path.join(slot_dir(cfg["seed"]), "Manifest")!r}'
        else:
            target = f'{op} on slot {slot} ({slot_paths(cfg["seed"])[slot]!r})'
        if not equal:
            stats.outcomes[fam + 'must/differs'] += 1
            when = '' if mc is None else (f' with mtime = previous TIMESTAMP {ts_prev} {MC_NS[mc] / 1e9:+.1f} s ({mc}'
                                          + (f'; the Manifest of A carries the stale TIMESTAMP {ts_actual}'
                                             if ts_actual != ts_prev else '') + ')')
            diffs = diff_paths(ea, eb) + [f'A: MANIFEST entry for {p} does not match the file (size / {HASH}), '
                                          f'B: it does' for p in stale_a]
            run.violation(sig, f'incremental_differs_from_full: {what}: {target}{when}, '
                          f'TZ={TZS[cfg["tz"]][0]}: {"; ".join(diffs)}')
        else:
            if snapshot(A) == snapshot(B):
                # same files, same mtimes, byte-identical Manifests (TIMESTAMP included): gemato verify
                # is given identical input in A and B, B's run above stands for both
                stats.counters['A_verify_implied_by_byte_identical_replicas'] += 1
                va, rva = vb, rvb
            else:
                va, rva = run.verify(A)
            if va:
                stats.outcomes[fam + 'must/equal'] += 1
            else:
                stats.outcomes[fam + 'must/equal_but_A_fails_verify'] += 1
                run.violation(dict(sig, check='incremental_result_fails_verify'),
                              f'incremental_result_fails_verify: {what}: {target} ({mc}): '
                              f'{rva["log"][-2:]}')
    else:
        stats.counters[fam + 'pre_false'] += 1
        stats.dontcare[reason] += 1
        stats.outcomes[f'{fam}dontcare/{"equal" if equal else "differs"}/{op}:{mc}'] += 1
    if not equal:
        stats.counters['resync_full_update_on_A'] += 1
        ok, _r = run.update(A, 'full', start_us, what + ' (re-sync)', opt=opt)
        if not ok:
            return False
        la = dict(run.last, stepback=la['stepback'], ts_before=la['ts_before'],
                  top_written=la['top_written'] or run.last['top_written'])
        ea2, _ts2, _raw2, stale2 = parsed(read_manifests(A))
        if ea2 != eb or (stale2 and not stale_b):
            if not (dirs or opts):
                raise HarnessError(f'{what}: a full update on A does not give B\'s Manifests: {diff_paths(ea2, eb)} '
                                   f'{stale2}')
            # what the incremental update recorded (e.g. a Manifest file as plain data) is not undone by a full
            # update: continue from a copy of B with B's TIMESTAMP
            stats.counters[fam + 'resync_by_copy_of_B'] += 1
            tsb = parsed(read_manifests(B))[1]
            restore(A, snapshot(B))
            la = dict(la, ts_after=tsb, ts_model=tsb if la['ts_model'] == la['ts_after'] else la['ts_model'])
    if opts:
        h['hashes'] = req
    h['ts_model'] = la['ts_model']
    h['diverged'] = la['ts_model'] != la['ts_after']
    if la['stepback'] and la['top_written']:
        h['stale'] = la['ts_before']
    return True


def start_history(run, root):
    cfg = run.cfg
    wipe(root)
    A, B = os.path.join(root, 'A'), os.path.join(root, 'B')
    for d in (A, B):
        build_tree(d, cfg, 2)
        ok, _r = run.update(d, 'create', T0 * 10 ** 6 + cfg['frac'], f'create tz={cfg["tz"]}')
        if not ok:
            return None
        if not run.verify(d)[0]:
            raise HarnessError('created tree does not verify')
    ma, mb = read_manifests(A), read_manifests(B)
    if ma != mb or len(ma) != 1 + (cfg['layout'] == 'nested') + (cfg.get('alpha', 'files') == 'opts'):
        raise HarnessError(f'replicas differ after create or layout not as intended: {sorted(ma)}')
    # model TIMESTAMP: what create wrote, or - when that was reported as later than the scan start - the scan start
    run.h = {'ts_model': run.last['ts_model'], 'diverged': run.last['ts_model'] != parsed(ma)[1], 'stale': None,
             'hashes': HASH}
    if run.h['ts_model'] != T0:
        raise HarnessError(f'TIMESTAMP after create is {run.h["ts_model"]}')
    return A, B


def hist_case(cfg, history):
    case = {'family': 'hist', 'tz': cfg['tz'], 'layout': cfg['layout'], 'frac': cfg['frac'], 'clock': cfg['clock'],
            'seed': cfg['seed'], 'rounds': [list(c) for c in history]}
    if cfg.get('alpha', 'files') == 'dirs':
        case.update(family='dirs', alpha='dirs', kinds=list(cfg['kinds']))
    if cfg.get('alpha', 'files') == 'opts':
        case.update(family='opts', alpha='opts', hashes=cfg['hashes'])
    return case


def tree_ops_in(history):
    return sum(1 for c in history if c[0] != 'none')


def explore_hist(cfg, first, depth_max, stats, scratch, max_tree_ops=None):
    """max_tree_ops (family 'opts'): histories in which more rounds than that carry a tree operation are left out
    (None: no such bound)."""
    run = Run(cfg, stats, hoist_from_round=2)
    root = fresh_root(scratch)
    run.case = hist_case(cfg, [])
    ab = start_history(run, root)
    for v in run.vio:
        stats.violation(v['sig'], v['case'], v['message'])
    run.vio = []
    if ab is None:
        return
    A, B = ab

    def rec(history):
        rnd = len(history) + 1
        chs = choices(A, cfg)
        if rnd == 1:
            if chs != initial_choices(cfg['layout'], cfg.get('alpha', 'files'),
                                      cfg.get('kinds', ()) or cfg.get('hashes')):
                raise HarnessError('initial choices differ from the static list')
            chs = [chs[first]]
        elif max_tree_ops is not None and tree_ops_in(history) >= max_tree_ops:
            chs = [c for c in chs if c[0] == 'none']
        snap = (snapshot(A), snapshot(B), dict(run.h))
        for ch in chs:
            restore(A, snap[0])
            restore(B, snap[1])
            run.h = dict(snap[2])
            h = history + [ch]
            run.case = hist_case(cfg, h)
            n0 = stats.compared
            cont = play_round(run, A, B, ch, rnd, h)
            stats.case((run.case['family'], cfg['tz'], cfg['layout'], cfg['clock'], cfg['frac'], tuple(h)),
                       nontrivial=stats.compared > n0)
            if len(stats.samples) < 1 and rnd == 2 and first == 0 and cfg['layout'] == 'nested':
                stats.sample({'family': run.case['family'], 'config': cfg, 'history': h})
            for v in run.vio:
                stats.violation(v['sig'], v['case'], v['message'])
            run.vio = []
            if cont and rnd < depth_max:
                rec(h)
    rec([])


def replay_hist(case, scratch):
    cfg = {'tz': case['tz'], 'layout': case['layout'], 'frac': case['frac'], 'seed': case['seed'],
           'clock': case.get('clock', 'mono')}
    if case.get('alpha', 'files') == 'dirs':
        cfg.update(alpha='dirs', kinds=tuple(case['kinds']))
    if case.get('alpha', 'files') == 'opts':
        cfg.update(alpha='opts', hashes=case['hashes'])
    run = Run(cfg, None)
    run.case = case
    with harness_env(cfg['tz']):
        ab = start_history(run, fresh_root(scratch))
        if ab is None:
            return run.vio
        A, B = ab
        history = []
        for rnd, ch in enumerate(case['rounds'], 1):
            ch = tuple(ch)
            if ch not in choices(A, cfg):
                raise HarnessError(f'replay: {ch} is not applicable in round {rnd}')
            history.append(ch)
            if not play_round(run, A, B, ch, rnd, history):
                break
    return run.vio


# ------------------------------------------------------------------ family 'multi'

def multi_tree_cfg(cfg, t):
    """Tree #t of an invocation has its own names and contents (seed rotation), the same layout."""
    return dict(cfg, seed=cfg['seed'] + t, alpha='files')


def multi_created_at(order, t):
    return T0 + (GAP if (t == 1) == (order == 'old_first') else 0)


def multi_choices(dirs, cfg):
    """Applicable operations: the slot-file operations of family hist on tree #t (t = position on the command
    line), with the mtime classes taken relative to that tree's own and relative to the other tree's TIMESTAMP."""
    out = []
    for t, d in enumerate(dirs):
        tcfg = multi_tree_cfg(cfg, t)
        for s, rel in enumerate(slot_paths(tcfg['seed'])):
            p = os.path.join(d, rel)
            if os.path.exists(p):
                for op in EXISTING_OPS:
                    if op == 'modify_same_size' and os.path.getsize(p) == 0:
                        continue
                    for mc in MULTI_MCS:
                        out.append((op, s, mc, t))
                out.append(('delete', s, None, t))
            else:
                for mc in MULTI_MCS:
                    out.append(('add', s, mc, t))
    return out


def multi_initial_choices():
    out = []
    for t in (0, 1):
        for s in (0, 1):
            for op in EXISTING_OPS:
                for mc in MULTI_MCS:
                    out.append((op, s, mc, t))
            out.append(('delete', s, None, t))
        for mc in MULTI_MCS:
            out.append(('add', 2, mc, t))
    return out


def multi_case(cfg, history):
    return {'family': 'multi', 'tz': cfg['tz'], 'layout': cfg['layout'], 'order': cfg['order'], 'seed': cfg['seed'],
            'rounds': [list(c) for c in history]}


def start_multi(run, root):
    """Two trees per replica set: A0, A1 (updated incrementally, one invocation over both), B0, B1 (full update,
    one invocation over both).  Tree #t is created (one tree per invocation) at multi_created_at(order, t).
    -> ([A0, A1], [B0, B1]) or None"""
    cfg = run.cfg
    wipe(root)
    As, Bs = [os.path.join(root, f'A{t}') for t in (0, 1)], [os.path.join(root, f'B{t}') for t in (0, 1)]
    ts = []
    for t in (0, 1):
        tcfg = multi_tree_cfg(cfg, t)
        at = multi_created_at(cfg['order'], t)
        for d in (As[t], Bs[t]):
            build_tree(d, tcfg, 2)
            ok, _r = run.update(d, 'create', at * 10 ** 6, f'create tz={cfg["tz"]} (multi, tree #{t + 1})')
            if not ok:
                return None
            if not run.verify(d)[0]:
                raise HarnessError('created tree does not verify')
        if read_manifests(As[t]) != read_manifests(Bs[t]):
            raise HarnessError('replicas differ after create')
        if run.last['ts_model'] != at:
            raise HarnessError(f'TIMESTAMP after create at {at} is {run.last["ts_model"]}')
        ts.append(run.last['ts_model'])
    run.h = {'ts': ts}
    return As, Bs


def play_multi_round(run, As, Bs, choice, rnd, history):
    """One round: one operation on tree #t of both replica sets, then `update --incremental A0 A1` and
    `update B0 B1`.  -> False when the history cannot be continued."""
    cfg, stats = run.cfg, run.stats
    op, slot, mc, t = choice
    run.rnd = rnd
    ts_prev = list(run.h['ts'])
    ref, cls = mc.split(':') if mc is not None else (None, None)
    ts_ref = ts_prev[t if ref != 'oth' else 1 - t]
    tcfg = multi_tree_cfg(cfg, t)
    start_us = (T0 + STEP * rnd) * 10 ** 6
    before = snapshot(As[t])
    ns = apply_op(As[t], tcfg, (op, slot, cls), ts_ref)
    apply_op(Bs[t], tcfg, (op, slot, cls), ts_ref)
    verdict, reason = premise(before, snapshot(As[t]), ts_prev[t])
    listed = ('older' if ts_prev[0] < ts_prev[1] else 'newer' if ts_prev[0] > ts_prev[1] else 'equal')
    what = (f'multi: history {history} tz={cfg["tz"]} layout={cfg["layout"]} order={cfg["order"]} round {rnd}: one '
            f'invocation over two trees with previous TIMESTAMPs {ts_prev[0]} (listed first) and {ts_prev[1]}')
    stats.evaluations += 1
    ok_a, _ra, la = run.update_many(As, 'incr', start_us, what)
    ok_b, _rb, lb = run.update_many(Bs, 'full', start_us, what)
    stats.counters[f'multi/round:{op}:{mc}'] += 1
    stats.counters[f'multi/tz:{cfg["tz"]}'] += 1
    stats.counters[f'multi/layout:{cfg["layout"]}'] += 1
    stats.counters[f'multi/order:{cfg["order"]}'] += 1
    stats.counters[f'multi/edited_tree_is_listed:{"first" if t == 0 else "second"}'] += 1
    stats.counters[f'multi/first_listed_tree_has_the_{listed}_timestamp'] += 1
    if not (ok_a and ok_b):
        return False
    lo, hi = min(ts_prev) * 10 ** 9, max(ts_prev) * 10 ** 9
    between = ns is not None and lo < ns < hi
    if between and ts_prev[t] * 10 ** 9 == lo:
        # dated after the edited tree's own TIMESTAMP and before the TIMESTAMP of the other tree of the invocation
        stats.counters[f'multi/mtime_between_the_two_timestamps:{verdict}:{op}:edited_tree_listed_'
                       + ('first' if t == 0 else 'second')] += 1
    target = f'{op} on slot {slot} ({slot_paths(tcfg["seed"])[slot]!r}) of tree #{t + 1}'
    when = '' if mc is None else (f' with mtime = {"its own" if ref == "own" else "the other tree\'s"} previous '
                                  f'TIMESTAMP {ts_ref} {MC_NS[cls] / 1e9:+.1f} s')
    all_equal = True
    for i in (0, 1):
        ea, _tsa, rawa, stale_a = parsed(read_manifests(As[i]))
        eb, _tsb, _rawb, stale_b = parsed(read_manifests(Bs[i]))
        vb, rvb = run.verify(Bs[i])
        if not vb:
            run.violation({'check': 'sanity_full_update_result_fails_verify', 'op': op, 'trees': 2},
                          f'sanity: {what}: tree #{i + 1} of replica set B does not verify after a full update: '
                          f'{rvb["log"][-2:]}')
        stale_a = [p for p in stale_a if p not in stale_b]
        equal = ea == eb and not stale_a
        all_equal = all_equal and equal
        # the tree that was not edited: nothing modified, the premise holds trivially
        v, why = (verdict, reason) if i == t else ('must', None)
        tag = 'edited' if i == t else 'untouched'
        if v == 'must':
            stats.compared += 1
            stats.counters['multi/pre_true'] += 1
            sig = {'check': 'incremental_differs_from_full', 'trees': 2, 'op': op if i == t else 'none',
                   'mtime_class': sig_class(cls) if i == t else None,
                   'relative_to': ref if i == t else None}
            if not equal:
                stats.outcomes[f'multi/must/differs/{tag}'] += 1
                diffs = diff_paths(ea, eb) + [f'A: MANIFEST entry for {p} does not match the file, B: it does'
                                              for p in stale_a]
                run.violation(sig, f'incremental_differs_from_full: {what}: {target}{when}, TZ={TZS[cfg["tz"]][0]}: '
                              f'tree #{i + 1} ({tag}; previous TIMESTAMP {ts_prev[i]}) after `update --incremental '
                              f'<tree #1> <tree #2>` differs from the same tree after `update <tree #1> <tree #2>`: '
                              f'{"; ".join(diffs)}')
            else:
                if snapshot(As[i]) == snapshot(Bs[i]):
                    stats.counters['A_verify_implied_by_byte_identical_replicas'] += 1
                    va, rva = vb, rvb
                else:
                    va, rva = run.verify(As[i])
                if va:
                    stats.outcomes[f'multi/must/equal/{tag}'] += 1
                else:
                    stats.outcomes['multi/must/equal_but_A_fails_verify'] += 1
                    run.violation(dict(sig, check='incremental_result_fails_verify'),
                                  f'incremental_result_fails_verify: {what}: {target}{when}: tree #{i + 1}: '
                                  f'{rva["log"][-2:]}')
        else:
            stats.counters['multi/pre_false'] += 1
            stats.dontcare[why] += 1
            stats.outcomes[f'multi/dontcare/{"equal" if equal else "differs"}/{op}'] += 1
        if not equal:
            # continue from what the full update left (contents, TIMESTAMP, mtimes)
            stats.counters['multi/resync_by_copy_of_B'] += 1
            restore(As[i], snapshot(Bs[i]))
        run.h['ts'][i] = lb[i]['ts_model']
        if equal and la[i]['ts_model'] != lb[i]['ts_model']:
            stats.counters['multi/equal_entries_but_other_timestamp_than_full_update'] += 1
            restore(As[i], snapshot(Bs[i]))
    return True


def explore_multi(cfg, firsts, depth_max, stats, scratch):
    """firsts: indices into multi_initial_choices() of the first rounds this shard plays (after one set of creates)."""
    run = Run(cfg, stats, hoist_from_round=2)
    root = fresh_root(scratch)
    run.case = multi_case(cfg, [])
    ab = start_multi(run, root)
    for v in run.vio:
        stats.violation(v['sig'], v['case'], v['message'])
    run.vio = []
    if ab is None:
        return
    As, Bs = ab

    def rec(history):
        rnd = len(history) + 1
        chs = multi_choices(As, cfg)
        if rnd == 1:
            if chs != multi_initial_choices():
                raise HarnessError('multi: initial choices differ from the static list')
            chs = [chs[i] for i in firsts]
        snap = ([snapshot(d) for d in As], [snapshot(d) for d in Bs], {'ts': list(run.h['ts'])})
        for ch in chs:
            for i in (0, 1):
                restore(As[i], snap[0][i])
                restore(Bs[i], snap[1][i])
            run.h = {'ts': list(snap[2]['ts'])}
            h = history + [ch]
            run.case = multi_case(cfg, h)
            n0 = stats.compared
            cont = play_multi_round(run, As, Bs, ch, rnd, h)
            stats.case(('multi', cfg['tz'], cfg['layout'], cfg['order'], tuple(h)), nontrivial=stats.compared > n0)
            if len(stats.samples) < 1 and 0 in firsts and cfg['layout'] == 'nested':
                stats.sample({'family': 'multi', 'config': cfg, 'history': h})
            for v in run.vio:
                stats.violation(v['sig'], v['case'], v['message'])
            run.vio = []
            if cont and rnd < depth_max:
                rec(h)
    rec([])


def replay_multi(case, scratch):
    cfg = {'tz': case['tz'], 'layout': case['layout'], 'frac': 0, 'seed': case['seed'], 'clock': 'mono',
           'order': case['order']}
    run = Run(cfg, None)
    run.case = case
    with harness_env(cfg['tz']):
        ab = start_multi(run, fresh_root(scratch))
        if ab is None:
            return run.vio
        As, Bs = ab
        history = []
        for rnd, ch in enumerate(case['rounds'], 1):
            ch = tuple(ch)
            if ch not in multi_choices(As, cfg):
                raise HarnessError(f'replay: {ch} is not applicable in round {rnd}')
            history.append(ch)
            if not play_multi_round(run, As, Bs, ch, rnd, history):
                break
    return run.vio


def finish_multi(total, tier):
    """Vacuity guards of family 'multi'."""
    errs = []
    c = total.counters
    for op in EXISTING_OPS + ('add',):
        for mc in MULTI_MCS:
            if not c.get(f'multi/round:{op}:{mc}'):
                errs.append(f'vacuity: multi: no round with {op} x {mc}')
    if not c.get('multi/round:delete:None'):
        errs.append('vacuity: multi: no delete round')
    for k in ([f'multi/tz:{tz}' for tz in TZS] + [f'multi/layout:{x}' for x in LAYOUTS]
              + [f'multi/order:{x}' for x in ORDERS]
              + ['multi/edited_tree_is_listed:first', 'multi/edited_tree_is_listed:second',
                 'multi/first_listed_tree_has_the_older_timestamp', 'multi/first_listed_tree_has_the_newer_timestamp',
                 'multi/pre_true', 'multi/pre_false',
                 # what the family is for: a same-size modification dated after the TIMESTAMP of its own tree and
                 # before the TIMESTAMP of the other tree of the same invocation, judged MUST, whichever is listed first
                 'multi/mtime_between_the_two_timestamps:must:modify_same_size:edited_tree_listed_first',
                 'multi/mtime_between_the_two_timestamps:must:modify_same_size:edited_tree_listed_second']):
        if not c.get(k):
            errs.append(f'vacuity: counter {k} is zero')
    if not total.outcomes.get('multi/must/equal/edited') or not total.outcomes.get('multi/must/equal/untouched'):
        errs.append('vacuity: multi: no MUST round ended with equal Manifests (edited / untouched tree)')
    labels = [k for k, v in total.outcomes.items() if k.startswith('multi/') and v]
    if len(labels) < 2:
        errs.append(f'vacuity: multi: a single outcome class ({labels})')
    return errs


# ------------------------------------------------------------------ family 'inflight'

def inflight_case(cfg, mode, pre, k, j, size, delta):
    return {'family': 'inflight', 'tz': cfg['tz'], 'layout': cfg['layout'], 'frac': cfg['frac'],
            'seed': cfg['seed'], 'mode': mode, 'pre': pre, 'k': k, 'j': j, 'size': size, 'delta': delta}


def check_inflight(run, root, mode, pre, k, j, size, delta):
    """pre: 'none' | 'other' - with 'other' a different file was edited (other size, mtime after
    the creation TIMESTAMP) before the running update starts, so that this update has something
    to record and writes a fresh TIMESTAMP; with 'none' it finds nothing and keeps the old one.
    -> number of counted update_entry_for_path calls of the running update (K), or None"""
    cfg, stats = run.cfg, run.stats
    wipe(root)
    A = os.path.join(root, 'A')
    build_tree(A, cfg, 3)
    what = (f'in-flight tz={cfg["tz"]} layout={cfg["layout"]} frac={cfg["frac"]}us running={mode} pre={pre} '
            f'k={k} slot={j} size={size} edit at scan start +{(delta or 0) / 1e6:.1f} s')
    run.rnd = 1
    ok, _r = run.update(A, 'create', T0 * 10 ** 6 + cfg['frac'], what)
    if not ok:
        return None
    sp = slot_paths(cfg['seed'])
    if pre == 'other':
        pp = os.path.join(A, sp[((j or 0) + 1) % 3])
        with open(pp, 'rb') as f:
            old = f.read()
        write_file(pp, new_content(old, 'modify_other_size', ((j or 0) + 1) % 3, cfg['seed']), (T0 + 1) * 10 ** 9)
    s1 = (T0 + STEP) * 10 ** 6 + cfg['frac']
    path = os.path.join(A, sp[j]) if j is not None else None
    edit = {}

    def action():
        CLOCK.us += delta
        with open(path, 'rb') as f:
            old = f.read()
        new = new_content(old, 'modify_same_size' if size == 'same' else 'modify_other_size', j, cfg['seed'])
        write_file(path, new, CLOCK.us * 1000)
        edit['ns'] = CLOCK.us * 1000
        edit['resized'] = len(new) != len(old)
        edit['old'], edit['new'] = old, new

    stats.evaluations += 1
    run.rnd = 0                       # the two updates under test always go through gemato.cli.main
    with inflight_hook(k, action) as st:
        ok, _r = run.update(A, mode, s1, what + ' (running update)')
    if not ok:
        return None
    if k is None:
        return st['n']
    if st['fired'] != 1:
        raise HarnessError(f'{what}: hook fired {st["fired"]} times ({st["n"]} calls counted)')
    ts_run = parsed(read_manifests(A))[1]
    # did the running update record the file as it was before or after the edit?  (observed in the Manifests it
    # left, not in how it got there: 'new' = the edit came before the update read the file, 'old' = after that
    # - or the update had no reason to read it)
    rec = recorded_for(read_manifests(A), sp[j])
    seen = {(len(edit['new']), rm.hexdigest(HASH, edit['new'])): 'new',
            (len(edit['old']), rm.hexdigest(HASH, edit['old'])): 'old'}.get(rec, 'neither')
    stats.counters[f'inflight_running_update_recorded:{cfg["layout"]}:{mode}:j{j}:{seen}'] += 1
    stats.counters['inflight_running_update_' + ('refreshed_timestamp' if ts_run == s1 // 10 ** 6
                                                 else 'kept_timestamp')] += 1
    s2 = (T0 + 2 * STEP) * 10 ** 6 + cfg['frac']
    ok, _r = run.update(A, 'incr', s2, what + ' (next incremental)')
    if not ok:
        return None
    run.rnd = 1
    e_incr = parsed(read_manifests(A))[0]
    v_incr, rv = run.verify(A)
    ok, _r = run.update(A, 'full', s2, what + ' (full update for comparison)')
    if not ok:
        return None
    e_full = parsed(read_manifests(A))[0]
    if not run.verify(A)[0]:
        run.violation({'check': 'sanity_full_update_result_fails_verify', 'op': 'inflight'},
                      f'sanity: {what}: the tree does not verify after a full update')
    op = 'modify_same_size' if size == 'same' else 'modify_other_size'
    later = edit['ns'] > (s1 // 10 ** 6) * 10 ** 9
    stats.counters[f'inflight:{cfg["layout"]}:j{j}'] += 1
    stats.counters[f'tz:{cfg["tz"]}'] += 1
    equal = e_incr == e_full
    if edit['resized'] or later:
        stats.compared += 1
        stats.counters['inflight_pre_true'] += 1
        sig = {'check': 'incremental_differs_from_full', 'op': op, 'mtime_class': 'newer' if later else 'equal'}
        if not equal:
            stats.outcomes['inflight/must/missed'] += 1
            run.violation(sig, f'incremental_differs_from_full: {what}: the file changed while the update was running '
                          f'(mtime {edit["ns"] / 1e9:.1f}, scan start {s1 / 1e6:.1f}, TIMESTAMP afterwards {ts_run}) '
                          f'is not picked up by the next incremental run, TZ={TZS[cfg["tz"]][0]}: a full update '
                          f'still changes: {"; ".join(diff_paths(e_incr, e_full))}')
        elif not v_incr:
            stats.outcomes['inflight/must/equal_but_fails_verify'] += 1
            run.violation(dict(sig, check='incremental_result_fails_verify'),
                          f'incremental_result_fails_verify: {what}: {rv["log"][-2:]}')
        else:
            stats.outcomes['inflight/must/picked_up'] += 1
    else:
        stats.counters['inflight_pre_false'] += 1
        stats.dontcare['in-flight same-size edit whose mtime equals the whole second of the scan start (the '
                       'TIMESTAMP value): not "later than the TIMESTAMP" at its 1 s resolution - needs an edit in '
                       'the very microsecond of the scan start or a filesystem with 1 s mtime granularity'] += 1
        stats.outcomes[f'inflight/dontcare/{"picked_up" if equal else "missed"}'] += 1
    return st['n']


def explore_inflight(cfg, mode, stats, scratch):
    run = Run(cfg, stats, hoist_from_round=1)
    root = fresh_root(scratch)
    for pre in ('none', 'other'):
        for j in range(3):
            # number of injection points of this running update (dry run without an edit)
            run.case = inflight_case(cfg, mode, pre, None, j, None, None)
            K = check_inflight(run, root, mode, pre, None, j, None, None)
            for v in run.vio:
                stats.violation(v['sig'], v['case'], v['message'])
            run.vio = []
            if K is None:
                continue
            stats.counters['inflight_injection_points'] += K + 1
            for k in range(K + 1):
                for size in ('same', 'other'):
                    for delta in DELTAS:
                        run.case = inflight_case(cfg, mode, pre, k, j, size, delta)
                        n0 = stats.compared
                        check_inflight(run, root, mode, pre, k, j, size, delta)
                        stats.case(('inflight', cfg['tz'], cfg['layout'], cfg['frac'], mode, pre, k, j, size, delta),
                                   nontrivial=stats.compared > n0)
                        if len(stats.samples) < 1 and pre == 'other' and k == 2 and size == 'same' and delta:
                            stats.sample(run.case)
                        for v in run.vio:
                            stats.violation(v['sig'], v['case'], v['message'])
                        run.vio = []


def replay_inflight(case, scratch):
    cfg = {'tz': case['tz'], 'layout': case['layout'], 'frac': case['frac'], 'seed': case['seed'], 'clock': 'mono'}
    run = Run(cfg, None)
    run.case = case
    with harness_env(cfg['tz']):
        check_inflight(run, fresh_root(scratch), case['mode'], case['pre'], case['k'], case['j'], case['size'],
                       case['delta'])
    return run.vio


# ------------------------------------------------------------------ runner interface

def replay(case, scratch):
    if case['family'] in ('hist', 'dirs', 'opts'):
        return replay_hist(case, scratch)
    if case['family'] == 'multi':
        return replay_multi(case, scratch)
    return replay_inflight(case, scratch)


def depth_for(tier, frac, clock='mono', tz='utc'):
    """Rounds per history.  thorough: 3 with the monotonic clock starting on the whole second (all zones) and
    with the stepped-back clocks in UTC; 2 for +0.7 s and for the stepped-back clocks in the other two zones
    (a third round there would add about 650 000 rounds, half as much again as everything else, and push the
    tier past its 10 minutes on a loaded box; the two-round histories cross the step with every zone)."""
    if tier == 'quick' or frac != 0:
        return 2
    return 3 if clock == 'mono' or tz == 'utc' else 2




def shards(tier, seed):
    out = []
    for clock, frac in CLOCK_FRACS:
        for tz in TZS:
            for layout in LAYOUTS:
                for first in range(len(initial_choices(layout))):
                    out.append(('hist', tz, layout, frac, first, clock))
    for tz, kset, depth in DIRS_PLAN[tier]:
        for layout in LAYOUTS:
            for first in range(len(initial_choices(layout, 'dirs', KINDS[kset]))):
                out.append(('dirs', tz, layout, 0, first, 'mono', kset, depth))
    for tz, depth, max_ops, menu in OPTS_PLAN[tier]:
        for layout in LAYOUTS:
            ini = initial_choices(layout, 'opts', menu)
            for first in range(len(ini)):
                if max_ops == 0 and ini[first][0] != 'none':
                    continue
                out.append(('opts', tz, layout, 0, first, 'mono', depth, max_ops, menu))
    for tz in TZS:
        for layout in LAYOUTS:
            for frac in FRACS:
                for mode in ('incr', 'full'):
                    out.append(('inflight', tz, layout, frac, mode))
    n_multi = len(multi_initial_choices())
    for tz, depth in MULTI_PLAN[tier]:
        for layout in LAYOUTS:
            for order in ORDERS:
                if depth == 1:
                    # one-round histories are cheap: a shard plays a stride of them after one pair of creates
                    for part in range(4):
                        out.append(('multi', tz, layout, 0, (part, 4), 'mono', depth, order))
                else:
                    for first in range(n_multi):
                        out.append(('multi', tz, layout, 0, (first, n_multi), 'mono', depth, order))

    def cost(s):          # rough number of gemato runs; longest first keeps the workers busy
        if s[0] == 'inflight':
            return 1000
        if s[0] == 'multi':
            return 12 + 6 * (n_multi // s[4][1]) * (1 if s[6] == 1 else n_multi)
        if s[0] == 'opts':
            ini = initial_choices(s[2], 'opts', s[8])
            n = len(ini)
            if s[7] is not None and tree_ops_in([ini[s[4]]]) >= s[7]:
                n = len(opt_menu({'hashes': s[8]}))       # only rounds without a tree operation follow
            return 4 + 3 * sum(n ** k for k in range(s[6]))
        if s[0] == 'dirs':
            n = len(initial_choices(s[2], 'dirs', KINDS[s[6]]))
            return 4 * n if s[7] == 2 else 4 * n * n
        n = len(initial_choices(s[2]))
        return 3 * n if depth_for(tier, s[3], s[5], s[1]) == 2 else 3 * n * n
    out.sort(key=lambda s: -cost(s))
    # one cheap shard whose first node is the smallest history that can show a time-zone dependence goes
    # first, so that the example kept for a signature tends to be a one-round history
    w = ('hist', 'west', 'flat', 0, initial_choices('flat').index(('modify_same_size', 0, 'newer')), 'mono')
    out.remove(w)
    # the same for family 'dirs': the one-round history "a directory with its own Manifest is added"
    w2 = ('dirs', 'utc', 'flat', 0,
          initial_choices('flat', 'dirs', KINDS['base']).index(('dir_add', 'top:mani', 'newer')), 'mono', 'base',
          DIRS_PLAN[tier][0][2])
    out.remove(w2)
    # and for family 'opts': the one-round history "nothing changes in the tree, the updates ask for another hash"
    tz3, depth3, max3, menu3 = OPTS_PLAN[tier][0]
    w3 = ('opts', tz3, 'flat', 0,
          initial_choices('flat', 'opts', menu3).index(('none', None, None, OPT_HASHES[menu3][1] + '/plain')), 'mono',
          depth3, max3, menu3)
    out.remove(w3)
    return [w, w2, w3] + out


def run_shard(spec, tier, seed, scratch):
    stats = Stats()
    fam, tz, layout, frac = spec[:4]
    cfg = {'tz': tz, 'layout': layout, 'frac': frac, 'seed': seed, 'clock': spec[5] if fam == 'hist' else 'mono'}
    off0 = time.localtime(T0).tm_gmtoff
    with harness_env(tz):
        if fam == 'hist':
            explore_hist(cfg, spec[4], depth_for(tier, frac, spec[5], tz), stats, scratch)
        elif fam == 'dirs':
            cfg.update(alpha='dirs', kinds=KINDS[spec[6]])
            explore_hist(cfg, spec[4], spec[7], stats, scratch)
        elif fam == 'opts':
            cfg.update(alpha='opts', hashes=spec[8])
            explore_hist(cfg, spec[4], spec[6], stats, scratch, max_tree_ops=spec[7])
        elif fam == 'multi':
            cfg.update(order=spec[7])
            part, parts = spec[4]
            explore_multi(cfg, list(range(part, len(multi_initial_choices()), parts)), spec[6], stats, scratch)
        else:
            explore_inflight(cfg, spec[4], stats, scratch)
    if time.localtime(T0).tm_gmtoff != off0 or gemato.cli.datetime is not _dt:
        raise HarnessError('time zone or clock seam not restored')
    return stats


def finish_dirs(total, tier):
    """Vacuity guards of family 'dirs'."""
    errs = []
    c = total.counters
    kinds = [k for k in KINDS['wide'] if any(k in KINDS[kset] for _tz, kset, _depth in DIRS_PLAN[tier])]
    for op in DIR_MC_OPS:
        for mc in MCLASSES:
            if not c.get(f'dirs/round:{op}:{mc}'):
                errs.append(f'vacuity: dirs: no round with {op} x {mc}')
    for op in DIR_PLAIN_OPS:
        if not c.get(f'dirs/round:{op}:None'):
            errs.append(f'vacuity: dirs: no {op} round')
    want = [('dir_add', f'{loc}:{kind}') for loc in LOCS for kind in kinds]
    want += [('dir_remove', w) for w in LOCS + ('slotdir',)]
    want += [('dir_replace', f'{loc}:{how}') for loc in LOCS for how in HOWS]
    want += [('mani_appear', f'{w}:{content}:{kind}') for w in LOCS + ('slotdir',) for content in CONTENTS
             for kind in kinds if kind != 'plain']
    want += [(op, loc) for op in ('pkg_modify_same_size', 'pkg_modify_other_size', 'pkg_delete', 'pkg_add')
             for loc in LOCS]
    for op, arg in want:
        if not c.get(f'dirs/arg:{op}:{arg}'):
            errs.append(f'vacuity: dirs: operation {op} never applied with {arg}')
    for tz in TZS:
        if not c.get(f'dirs/tz:{tz}'):
            errs.append(f'vacuity: dirs: time zone {tz} not exercised')
    for layout in LAYOUTS:
        if not c.get(f'dirs/layout:{layout}'):
            errs.append(f'vacuity: dirs: layout {layout} not exercised')
    # Manifest files that nothing referred to when the updates started, in rounds judged MUST, per compression
    for kind in kinds:
        if kind != 'plain':
            comp = KIND_COMP[kind] or 'plain'
            if not any(v for k, v in c.items()
                       if k.startswith(f'dirs/unregistered_manifest_before_round:must:{comp}:')):
                errs.append(f'vacuity: dirs: no MUST round that started with an unreferenced '
                            f'{manifest_file_name(kind)} in the tree')
    for k in ('dirs/pre_true', 'dirs/pre_false'):
        if not c.get(k):
            errs.append(f'vacuity: counter {k} is zero')
    labels = [k for k, v in total.outcomes.items() if k.startswith('dirs/') and v]
    if not total.outcomes.get('dirs/must/equal'):
        errs.append('vacuity: dirs: no MUST round ended with equal Manifests')
    if len(labels) < 2:
        errs.append(f'vacuity: dirs: a single outcome class ({labels})')
    return errs


def finish_opts(total, tier):
    """Vacuity guards of family 'opts'."""
    errs = []
    c = total.counters
    plan = OPTS_PLAN[tier]
    for op in OPT_TREE_OPS:
        if not any(v for k, v in c.items() if k.startswith(f'opts/round:{op}:')):
            errs.append(f'vacuity: opts: no round with tree operation {op}')
    for h in sorted({h for _tz, _d, _m, menu in plan for h in OPT_HASHES[menu]}):
        if not c.get(f'opts/hashes:{h}'):
            errs.append(f'vacuity: opts: no round with --hashes {h!r}')
    for x in OPT_EXTRAS:
        if not c.get(f'opts/extra:{x}'):
            errs.append(f'vacuity: opts: no round with the options {x!r}')
    deep = any(d >= 2 for _tz, d, _m, _menu in plan)
    rels = ['same', 'superset', 'disjoint'] + (['subset'] if deep else [])
    if any(d >= 2 and menu == 'wide' for _tz, d, _m, menu in plan):
        rels.append('overlap')
    for rel in rels:
        if not any(v for k, v in c.items() if k.startswith('opts/must:') and k.endswith(f':hash_set_{rel}')):
            errs.append(f'vacuity: opts: no MUST round whose requested hash set is related to the previous one as {rel!r}')
        # the full update must have followed the option, or comparing the incremental one with it shows nothing
        if not c.get(f'opts/after_full_update:hash_set_{rel}:every_entry_carries_the_requested_hash_set'):
            errs.append(f'vacuity: opts: after no full update with a hash set related to the previous one as {rel!r} '
                        'did every entry carry the requested hash set')
        for x in OPT_EXTRAS:
            if not any(c.get(f'opts/round{r}:hash_set_{rel}:{x}') for r in (1, 2, 3)):
                errs.append(f'vacuity: opts: no round with hash set relation {rel!r} and options {x!r}')
    for op in OPT_TREE_OPS:
        if not any(c.get(f'opts/must:{op}:hash_set_{rel}') for rel in HASH_RELATIONS if rel != 'same'):
            errs.append(f'vacuity: opts: tree operation {op} never judged MUST in a round with a changed hash set')
    want = ['opts/after_full_update:MANIFEST_entries_follow_changed_hash_set',
            'opts/full_update_changed_hash_set_of_MANIFEST_entry_for_old_unchanged_sub_manifest',
            'opts/full_update_compressed_a_sub_manifest:c0', 'opts/round_ended_with_compressed_sub_manifest:flat',
            'opts/round_ended_with_compressed_sub_manifest:nested',
            'opts/incr:force:top_manifest_written', 'opts/full:force:top_manifest_written',
            'opts/incr:plain:top_manifest_not_written', 'opts/full:plain:top_manifest_not_written',
            'opts/pre_true']
    if deep:
        want += ['opts/round_started_with_compressed_sub_manifest',
                 'opts/full_update_uncompressed_a_sub_manifest:cbig']
    for k in want:
        if not c.get(k):
            errs.append(f'vacuity: counter {k} is zero')
    for tz in TZS:
        if not c.get(f'opts/tz:{tz}'):
            errs.append(f'vacuity: opts: time zone {tz} not exercised')
    for layout in LAYOUTS:
        if not c.get(f'opts/layout:{layout}'):
            errs.append(f'vacuity: opts: layout {layout} not exercised')
    if not total.outcomes.get('opts/must/equal'):
        errs.append('vacuity: opts: no MUST round ended with equal Manifests')
    return errs


def finish(total, tier):
    errs = []
    c = total.counters
    for op in EXISTING_OPS + ('add',):
        for mc in MCLASSES:
            if not c.get(f'round:{op}:{mc}'):
                errs.append(f'vacuity: no round with {op} x {mc}')
    if not c.get('round:delete:None'):
        errs.append('vacuity: no delete round')
    for op in MANI_OPS:
        for mc in MCLASSES:
            if not c.get(f'round:{op}:{mc}'):
                errs.append(f'vacuity: no round with {op} x {mc}')
    # the sub-Manifest edits must be judged: MUST rounds (counted by what replica A's parent entry looked like
    # afterwards; every edit changes the bytes of the file, so the entry from before the round cannot match)
    if not (c.get('sub_manifest_edit:must:parent_entry_current_in_A')
            or c.get('sub_manifest_edit:must:parent_entry_stale_in_A')):
        errs.append('vacuity: no MUST round with a sub-Manifest edit')
    if c.get('round_started_with_stale_manifest_entry_in_A'):
        errs.append(f'{c["round_started_with_stale_manifest_entry_in_A"]} rounds started with a MANIFEST entry in '
                    'replica A that did not match the sub-Manifest (the re-synchronisation did not work)')
    for clock in CLOCKS:
        if not c.get(f'clock:{clock}'):
            errs.append(f'vacuity: clock schedule {clock} not exercised')
    # stepped-back rounds: with and without a rewrite of the top-level Manifest, for the step before round 1 and
    # the step between two updates
    for clock, rnd in (('back1', 1), ('back2', 2)):
        for w in ('top_manifest_written', 'nothing_written'):
            if not c.get(f'stepback_round:{clock}:round{rnd}:{w}'):
                errs.append(f'vacuity: no stepped-back round ({clock}, round {rnd}) with {w}')
    for k in c:
        if k.startswith('stepback_round:mono:'):
            errs.append(f'clock schedule mono had a round before the previous TIMESTAMP: {k}')
    # the continuation after a stepped-back update: same-size modifications dated after the TIMESTAMP that update
    # wrote and before the future TIMESTAMP it replaced, judged MUST (files and, nested, the sub-Manifest)
    for op in ('modify_same_size', 'mani_edit_dist'):
        if not c.get(f'round_with_mtime_between_written_and_stale_timestamp:must:{op}'):
            errs.append(f'vacuity: no MUST round with {op} dated between the TIMESTAMP written by a stepped-back '
                        'update and the stale future TIMESTAMP')
    if c.get('round_relative_to_model_timestamp_after_timestamp_violation') and not any(
            v['sig'].get('check') == 'timestamp_later_than_scan_start' for v in total.violations):
        errs.append('model TIMESTAMP used without a timestamp_later_than_scan_start violation')
    for k in ('pre_true', 'pre_false', 'inflight_pre_true', 'inflight_pre_false',
              'timestamp_refreshed', 'timestamp_kept', 'resync_full_update_on_A',
              'update_with_clock_before_previous_timestamp:top_manifest_written',
              'future_timestamp_kept_by_update_that_did_not_write',
              'inflight_running_update_refreshed_timestamp', 'inflight_running_update_kept_timestamp',
              'cli_calls_through_main', 'cli_calls_with_hoisted_parser'):
        if not c.get(k):
            errs.append(f'vacuity: counter {k} is zero')
    for tz in TZS:
        if not c.get(f'tz:{tz}'):
            errs.append(f'vacuity: time zone {tz} not exercised')
    for layout in LAYOUTS:
        if not c.get(f'layout:{layout}'):
            errs.append(f'vacuity: layout {layout} not exercised')
        # the schedule quantifier ("a modification injected after each individual file has been hashed"), judged by
        # what the running update left in the Manifests: for every file there must be an injection that came too
        # late for a running full update (it recorded the file as it was before the edit) and one that it still
        # saw; how many calls the implementation needs per file is not the harness's business
        for j in range(3):
            if not c.get(f'inflight:{layout}:j{j}'):
                errs.append(f'vacuity: no in-flight case for file slot {j} in layout {layout}')
            for seen, text in (('old', 'after the running full update had recorded the file'),
                               ('new', 'before the running full update recorded the file')):
                if not c.get(f'inflight_running_update_recorded:{layout}:full:j{j}:{seen}'):
                    errs.append(f'vacuity: no in-flight edit of file slot {j} injected {text} (layout {layout})')
    errs += finish_dirs(total, tier)
    errs += finish_opts(total, tier)
    errs += finish_multi(total, tier)
    if c.get('clock_seam_mismatch'):
        errs.append(f'clock seam: {c["clock_seam_mismatch"]} updates left a TIMESTAMP that is neither the previous '
                    'one nor the fake scan start (real time leaked, or the TIMESTAMP is not the UTC scan start); '
                    'see notes')
    if not total.outcomes.get('must/equal') or not total.outcomes.get('inflight/must/picked_up'):
        errs.append('vacuity: no MUST round ended with equal Manifests')
    return errs
