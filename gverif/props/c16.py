"""C16 — tree walks always terminate and respect filesystem boundaries.

Bounded-exhaustive enumeration of small directory trees with directory symlinks among
their own directories, run through the real walkers of gemato.recursiveloader

    verify strict      ManifestRecursiveLoader.assert_directory_verifies (default handler)
    verify keep-going  the same with a handler returning False
    update             update_entries_for_directory + save_manifests (stale Manifest first)
    create             `gemato create --hashes SHA1 [-x] ROOT` (no Manifest first)
    unregistered       load_unregistered_manifests
    (device family additionally: `gemato verify [-x]`, `gemato update [-x]`)

each under an ITERATION BUDGET: os.scandir (what os.walk calls) is replaced for the duration
of one execution by a counting wrapper that raises the private BudgetExceeded once more than
20*n*n+50 directories have been opened; signal.alarm backs that up.  Non-termination thus
becomes a reported violation instead of a hang.

Oracle = ref_walk(): a DFS over an abstract model of the tree (real sub-directories and
directory symlinks), carrying the identities of the directories on the current path;
hidden names and IGNOREd paths (whole components, path as reached through the links) are
pruned; a directory whose identity is already on the current path is a loop.  The model is
cross-checked against the materialised tree by disk_walk(), the same DFS driven by
os.listdir/os.stat and (st_dev, st_ino).  Nothing of gemato's bookkeeping (directory_ids
keyed by dirpath, looked up through dirname, recorded only `if dirnames`) is copied.

Family P ("pairs") puts TWO extra entries next to each other into one directory (tree root or
a sub-directory), each from the grid {loop link, link to a sibling, real directory holding a
loop link, link to the second filesystem} x {plain, IGNOREd, dot-named}, named so that they are
adjacent in the listing, and runs every ordered pair under BOTH listing orders (sorted and
reversed scandir enumeration) whatever VERIF_SEED is: pruning of one entry must not depend on
what stands next to it.

Family R ("root spellings") re-runs small trees of families L, S and X with the tree root NAMED
differently: the top-level Manifest path handed to ManifestRecursiveLoader / the path argument
of the CLI is relative to a cwd inside the tree ('Manifest', './Manifest', '../Manifest', no
argument at all, '.', '..', '../sib'), contains doubled and trailing slashes, goes through '..'
('sub/../Manifest', 'a/b/../../Manifest', 'c/../..' from the parent of c: what the CLI builds
when run on a sub-directory) or through a symlinked prefix directory.  The oracle is the SAME
reference walk: the verdict is a function of the tree, not of the spelling of its root.

Family U ("sub-Manifests on the way") extends the foreign-device family: a valid sub-Manifest
(plain / gzip; not yet registered, or registered by a MANIFEST entry) sits in a directory walked
before / after / above / beside the foreign object, for every walker that loads Manifests on its
way, plus histories of TWO walks on ONE loader (scan / update / keep-going verify from any
directory, then from the root).  Every walk is judged on its own: with crossing disallowed it
must raise ManifestCrossDevice iff the reference walk from its start meets a non-IGNOREd foreign
object, whatever Manifests were loaded before.

Family V ("single-path APIs") runs the entry points of the loader that look at ONE path instead of
walking a directory - verify_path, assert_path_verifies, update_entry_for_path (+ save_manifests) -
over the foreign-device trees: called on the foreign object itself (a file, or a directory standing
in the place of a file), on a file / directory / missing name beneath a foreign directory, on a
home-device file reached through the foreign directory, on the home-device files of the tree and
on a missing name next to the foreign object; with the entry present / stale / absent, kept in the
top-level Manifest or in a registered sub-Manifest inside the foreign directory; IGNOREd (on the
path, on each directory above it) or not; allow_xdev on / off.  Oracle = the same sentence of the
property: the object named by the path is on another device, not IGNOREd, crossing disallowed =>
ManifestCrossDevice, neither a verdict nor a written entry; otherwise the ordinary single-path
verdict derived from the model (entry and content agree / differ / stray / vanished).
"""

import contextlib
import errno
import itertools
import logging
import os
import shutil
import signal
import tempfile

import gemato.recursiveloader as grl

from gverif import gem, refmanifest as rm
from gverif.treemodel import compress, decompress
from gverif.common import fresh_root, rot
from gverif.evidence import Stats

PID = 'C16'
LEVEL = 'model_checking'
RULE = (
    'n = number of real directories INCLUDING the tree root.  Shapes = all unordered rooted trees on n '
    'nodes (1, 1, 2, 4, 9 shapes for n = 1..5: chains, stars and every mixed shape), node 0 = tree root '
    'holding the Manifest; every directory holds one regular file.  Family L (start = tree root): n <= 4 '
    'quick / n <= 5 thorough; ALL (n+1)^n link sets (every directory, the root too, holds no link or ONE '
    'directory symlink to any of the n directories: self, parent, ancestor, root, sibling, descendant, '
    'mutual pairs, chains) x IGNORE variants {none; IGNORE exactly on one link (every link in turn); '
    'IGNORE on one real directory at or above a link holder (every such non-root directory in turn); one '
    'link dot-named/hidden (every link in turn; n <= 3 quick / <= 4 thorough); for n <= 4 (quick: not for '
    'n = 4 with all four links present) additionally "alias" IGNOREs: every path that the unpruned '
    'reference walk reaches THROUGH a link (incl. loop-closing ones) and every sub-directory one level '
    'behind a loop-closing path} x walkers {verify strict, verify keep-going, unregistered scan, update '
    'from a stale Manifest + save + fresh verify, `gemato create` (variants without IGNORE lines only)}; '
    'for n = 5 the variants WITH an IGNORE line run verify strict and update (which runs the unregistered '
    'scan first) only.  Family S (n <= 3 quick / <= 4 thorough): the same link sets x IGNORE {none, on '
    'link, on directory} not covering the start, started at every non-root directory (sub-path verify '
    'strict / keep-going / update / unregistered).  Family X (n <= 3 quick / <= 4 thorough): a REAL '
    'second filesystem (mkdtemp on tempfile.gettempdir(), scratch on /dev/shm) reached through a symlink '
    '"x" held by every directory in turn x kind {directory with a file; directory with a sub-directory; '
    'empty directory; a regular file; directory holding a link back to the holder (loop through the '
    'other device); directory whose st_ino is made equal to the holder\'s (virtual, see assumptions)} x '
    'in-forest link sets with <= 1 link (n = 3 thorough: all link sets) x IGNORE {none, on x, on each '
    'directory at or above the holder, on the in-forest link} x allow_xdev {on, off} x walkers {the five '
    'above + `gemato verify [-x]` + `gemato verify -k [-x]` + `gemato update [-x]`}, plus every case '
    'started AT the foreign directory itself (library sub-path verify / update / scan of ".../x").  Family P '
    '(n = 2..3 quick / 2..4 thorough, no other links): TWO extra entries in one holder directory (every '
    'directory, tree root and sub-directories, for which a loop-free link target exists: its first child, else '
    'the first directory that is neither itself nor one of its ancestors) x ALL 144 ORDERED pairs from the '
    'grid {link back to an ancestor (loop); link to that sibling directory; real directory '
    'that contains a loop link; link to the second filesystem} x {plain; IGNOREd; dot-named}, i.e. incl. every '
    'pair of {IGNOREd loop link, IGNOREd sibling link, IGNOREd directory with a loop link, dot-directory with '
    'a loop link, dot-named loop link, IGNOREd foreign link} and the unpruned controls x loop target {the '
    'holder itself, the tree root} x listing order {sorted, reversed} (both ALWAYS, independent of VERIF_SEED; '
    'the entries are named "+p"/".p" and ".q"/"0q" so that they sort next to each other before every other '
    'directory: each entry of a pair is listed first once, nothing between them, checked per case) x '
    'allow_xdev {on; off too when a foreign link is in the pair} x the five walkers (create: pairs without '
    'IGNORE line).  Family R (root spellings; n <= 2 quick / <= 3 thorough): part L = ALL link sets, start = tree '
    'root, IGNORE {none, on each link, on each directory at or above a link holder} x walkers {the five + `gemato '
    'verify`, `gemato verify -k`, `gemato update`}; part S = the same started at every non-root directory (library '
    'sub-path walkers + the three CLI commands run on the sub-directory); part X = foreign object (quick: kinds '
    'dir, file, back; thorough: all six) held by every directory, no in-forest link, IGNORE {none, on x, on each '
    'directory at or above the holder} x allow_xdev {on, off} x the eight walkers, and the library walkers started '
    'at the foreign directory; each x EVERY non-canonical spelling of the tree root (R = root as a string, top-level '
    'Manifest = R/Manifest, CLI argument = R[/start]): "bare" cwd = root, "Manifest" / CLI without path argument (or '
    'the bare relative sub-path); "cwd:c" for every directory c: cwd = c, R = relpath(root, c) = ".", "..", "../.."; '
    '"slash": a doubled slash inside the prefix plus a trailing slash; "dd:c" for every non-root c: absolute through '
    '"..", R = c/.. x depth(c); "ddrel:c": the same relative to cwd = parent of c ("c/..", "c/../.."); "ddbase": '
    'R = root/../basename(root); "sym": R = a symlink to the root standing in another directory; "rel:c" (the three '
    'CLI commands, sub-path starts): cwd = c, argument = relpath(start, c) (".", "..", "../sib", "x/y"); the canonical '
    'spelling is added for the CLI walkers that parts L and S do not otherwise run.  For n = 3 quick / n = 4 '
    'thorough only the chain shape, link sets with <= 1 (quick) / <= 2 (thorough) links and only the spellings '
    'through a directory at depth n-1 (they do not exist in smaller trees).  Oracle: the unchanged reference walk '
    '(same verdict as under the canonical spelling).  Family U (sub-Manifests on the way; n = 2..3 quick / 2..4 '
    'thorough, no in-forest link, start = tree root): foreign {directory with a file, regular file} held by every '
    'directory x one VALID sub-Manifest in every non-root directory (same directory, above, below, unrelated) x '
    '{plain, gzip} x listing order {sorted, reversed} (both always) x IGNORE {none, on x} x allow_xdev {off, on} x '
    '(walker, sub-Manifest state) in {update, `gemato update`, unregistered scan} x {unregistered, registered} + '
    '`gemato create` (unregistered, no IGNORE) + {verify strict, verify keep-going, `gemato verify`} (registered); '
    'plus, for n <= 3, allow_xdev off, no IGNORE, {unregistered, registered} (quick, n = 3: plain only), ALL '
    'two-call histories on ONE loader: (op1 from every directory) ; (op2 from the tree root), op in {scan = '
    'load_unregistered_manifests, update = update_entries_for_directory, verify = assert_directory_verifies with a '
    'handler returning False}, nothing saved.  Family V (single-path APIs; n = 1..3 quick / 1..4 thorough, no '
    'in-forest link): foreign kind {dir, dirsub, empty, file, back} held by every directory x TARGET path {the '
    'foreign object itself "x"; beneath a foreign directory: its file "x/g", (dirsub) its sub-directory "x/s" and '
    'the file "x/s/g2", (back) the home-device file "x/back/f" reached through it, a missing name "x/nope"; the '
    'file "f" of EVERY directory of the tree (the one next to x and all others); a missing name next to x} x '
    'entry state {present = correct DATA entry (regular files only); stale = DATA entry with another size and '
    'digest; absent} x entry location {top-level Manifest; for targets beneath a foreign directory also a valid, '
    'registered sub-Manifest "x/Manifest" that lists the files beneath x} x IGNORE {none; on the sibling (the file '
    'next to x for targets at or beneath x, x itself for the others); on EVERY prefix of the target path incl. the '
    'path itself (= x, the directories at or above the holder, x/s ...); a covered target has no entry, prefixes '
    'covering the sub-Manifest are not combined with it} x allow_xdev {on, off} x API {verify_path, '
    'assert_path_verifies, update_entry_for_path + save_manifests (not for IGNOREd targets and not for a missing '
    'target without entry: documented preconditions)}.  A case = (family, shape, link set, IGNORE variant, start, foreign '
    'placement, pair + holder + loop target + listing order, allow_xdev, walker, root spelling, sub-Manifest '
    'placement/compression/state, history, target path + entry state/location); distinct by construction (finish() '
    'checks digests == executions and the execution counts of families P, R, U and V against a re-enumeration).  Non-trivial = at '
    'least one directory symlink or foreign object is present and the reference verdict is definite.')
ASSUMPTIONS = [
    'ref_walk() is an independent restatement of the statement (DFS, identities of the directories on the '
    'current path, pruning of hidden names and IGNOREd paths as reached); it is cross-checked on every '
    'case of the quick tier and every 8th case of the thorough tier against disk_walk(), the same DFS over '
    'the materialised tree with os.listdir/os.stat and (st_dev, st_ino); trusted base: CPython os, '
    'gverif/refmanifest.py (writer + parser + SHA1 table)',
    'IGNORE is matched against the path by which the walk reaches an object (Manifest namespace), not '
    'against the real path of a symlink: an IGNOREd link that is reached a second time through another, '
    'non-IGNOREd path still counts',
    'termination is observed as "at most 20*n*n+50 os.scandir calls per execution" (n = directories incl. '
    'foreign ones; the reference needs < 1/4 of that on every enumerated case, checked) with a 60 s '
    'signal.alarm behind it; ELOOP/ENAMETOOLONG from the kernel is classified as non-termination saved by '
    'the kernel.  This assumes the walkers enumerate directories through os.walk/os.scandir',
    'the Manifest given to verify is written by the reference writer and lists exactly the files the '
    'reference walk reaches before any loop-closing directory; update starts from a stale Manifest '
    '(wrong digest, entry for a vanished file, the IGNORE lines), create from no Manifest',
    'DONT_CARE: which of several loops / which of loop and cross-device error is reported and the path '
    'attribute of the exception; the level at which a loop is found as long as no other error is reported '
    'first; sub-path starts from which the tree root is re-entered before the loop closes (the top-level '
    'Manifest is then visible under an alias path: strict verify / update / unregistered scan are not '
    'judged, keep-going verify still must raise the loop error); the unregistered-Manifest scan meeting '
    'only a foreign regular FILE (the scan does not look at plain files)',
    'second filesystem: real (tmpfs scratch vs tempfile.gettempdir()); only the equal-inode-number kind '
    '"ino" is virtual: the name "os" inside gemato.recursiveloader is replaced by a pass-through proxy '
    'whose stat() rewrites st_ino of that one foreign directory; a self-check counts the rewrites',
    'small scope: <= 5 directories, <= 1 link per directory (family P: exactly two extra entries in ONE '
    'directory and no other link), one foreign object per case (family P: up to two links to the same '
    'foreign directory), sub-Manifests only in family U (exactly one, valid, in a real non-root directory of the '
    'home device, never inside the foreign directory), hidden objects only as a hidden link or a family-P '
    'dot-directory, scandir order fixed by the harness (sorted; reversed for odd VERIF_SEED; families P, U: both)',
    'family R: every spelling resolves (through the kernel) to the same directory as the canonical root; "..": only '
    'behind REAL directories of the tree or the scratch, the symlinked prefix is one link in the scratch directory; '
    'spellings are not crossed with families P and U, with hidden links or alias IGNOREs, and above the stated n '
    'only the depth-(n-1) spellings run; the cwd of the worker process is changed for the one execution and restored',
    'family U: the sub-Manifest lists exactly the files of its sub-tree that the reference reaches (device crossing '
    'allowed, current IGNOREs), the top-level Manifest the rest; IGNORE lines live in the top-level Manifest.  After a '
    'successful update/create the UNION of the DATA/IGNORE entries of both Manifests (paths re-based to the tree '
    'root) must equal the reached files and a fresh loader must verify the tree; how the sub-Manifest gets '
    'registered and what the scan returns is not judged.  Histories: every call is judged by the reference walk '
    'from its own start; return values are judged only in the registered state (keep-going verify must not return '
    'False).  DONT_CARE: a call after a FAILED earlier call that raises something else than the cross-device error '
    '(a loader that refuses further work); a keep-going verify meeting a foreign regular file that no loaded '
    'Manifest lists (unregistered state): stray-file mismatch vs. cross-device error, no precedence stated',
    'family P observes listing-order dependence only through os.scandir order (what os.walk hands to the '
    'walkers as dirnames); three or more adjacent prunable entries are not enumerated',
    'family V: what a path names (regular file / directory / nothing; on the home or the foreign device; reached through '
    'a foreign directory) is derived from the model by resolve() and cross-checked against os.stat of the materialised '
    'tree by disk_resolve() (every case quick, every 8th thorough).  Reference verdict: IGNOREd path => accepted '
    '(verify_path returns a true first element, assert_path_verifies returns); object on the foreign device, not '
    'IGNOREd, crossing disallowed => ManifestCrossDevice and the Manifest on disk unchanged; otherwise the ordinary '
    'verdict: accepted iff (regular file, entry present with the SHA1 and size of its content) or (nothing there, no '
    'entry), else rejected (verify_path: false first element; assert_path_verifies: ManifestMismatch); a successful '
    'update_entry_for_path + save_manifests leaves exactly the other entries plus a correct DATA entry for an existing '
    'regular file / no entry for a vanished one (union of top-level and sub-Manifest), and a fresh loader accepts the '
    'path.  DONT_CARE (an outcome outside the stated alternatives is still reported): a foreign object WITHOUT entry '
    'under verify_path / assert_path_verifies with crossing disallowed (stray-file rejection or cross-device error, no '
    'precedence stated; accepting it is a violation); a path that leads THROUGH a foreign directory to something that is '
    'not itself on the foreign device (the home-device file x/back/f, the missing name x/nope) with crossing disallowed '
    '(cross-device error or the ordinary verdict; whether a Manifest was written is not judged there); '
    'update_entry_for_path of a DIRECTORY when the cross-device rule does not apply (documented precondition "regular '
    'file"; only ManifestCrossDevice is excluded).  The diff list of verify_path, the attributes of the exceptions, '
    'whether the loading of the foreign sub-Manifest itself should already raise, and single-path calls combined with '
    'in-forest links, root spellings or earlier calls on the same loader are not judged / not enumerated',
]

TOP = 'Manifest'
HASHES = ('SHA1',)
DIRNAMES = ['d', 'e f', 'dé', 'g\\', 'sub', 'zz']
ALARM_S = 60
FOREIGN_G = b'foreign-g'
FOREIGN_G2 = b'foreign-g2'
FOREIGN_F = b'foreign-file'
KINDS = ('dir', 'dirsub', 'empty', 'file', 'back', 'ino')
KIND_DIR = {'dir': 'D', 'dirsub': 'DS', 'empty': 'E', 'file': 'F', 'back': 'B', 'ino': 'D'}
WALKERS_L = ('verify_strict', 'verify_keepgoing', 'unregistered', 'update', 'create')
WALKERS_L5 = ('verify_strict', 'update')     # n = 5 with an IGNORE line (cost): one verify + the update chain
WALKERS_S = ('verify_strict', 'verify_keepgoing', 'unregistered', 'update')
WALKERS_X = WALKERS_L + ('cli_verify', 'cli_verify_k', 'cli_update')
WALKERS_XS = ('verify_strict', 'verify_keepgoing', 'unregistered', 'update')    # library only: `gemato verify
# ROOT/p/x` looks for the top-level Manifest above the link TARGET (C15's subject), not above ROOT/p
MAX_N = {'quick': {'L': 4, 'S': 3, 'X': 3, 'P': 3, 'R': 2, 'RX': 2, 'U': 3, 'UH': 3, 'V': 3},
         'thorough': {'L': 5, 'S': 4, 'X': 4, 'P': 4, 'R': 3, 'RX': 3, 'U': 4, 'UH': 3, 'V': 4}}
# R = trees run under every root spelling (n = R+1: only the spellings through a directory at depth n-1);
# RX = the same for foreign placements; U = sub-Manifest family, UH = its two-call histories
RX_KINDS = {'quick': ('dir', 'file', 'back'), 'thorough': KINDS}     # family R, foreign placements
DEEP_LINKS = {'quick': 1, 'thorough': 2}       # family R, n = R+1: link sets with at most that many links
CLI3 = ('cli_verify', 'cli_verify_k', 'cli_update')
CLI_WALKERS = CLI3 + ('create',)
WALKERS_RL = WALKERS_L + CLI3
WALKERS_RS = WALKERS_S + CLI3
SPELL_CLASSES = ('bare', 'cwd', 'slash', 'dd', 'ddrel', 'ddbase', 'sym', 'rel')
SUBM_COMPS = (None, 'gz')
U_KINDS = ('dir', 'file')
U_SINGLES = (('update', False), ('update', True), ('cli_update', False), ('cli_update', True),
             ('unregistered', False), ('unregistered', True), ('create', False),
             ('verify_strict', True), ('verify_keepgoing', True), ('cli_verify', True))   # (walker, sub-Manifest registered)
HIST_OPS = ('scan', 'update', 'verify')
SUBM_NAMES = tuple(TOP + ('.' + c if c else '') for c in SUBM_COMPS)
# family V: the single-path entry points of the loader
V_KINDS = ('dir', 'dirsub', 'empty', 'file', 'back')      # ('ino' is the same tree as 'dir' for an API that does not walk)
V_APIS = ('verify_path', 'assert_path_verifies', 'update_entry_for_path')
V_VERIFY = ('verify_path', 'assert_path_verifies')
V_BENEATH = ('below', 'xsub', 'below2', 'back', 'xmissing')     # targets beneath the foreign directory
V_STALE = b'old-content-of-another-length'
V_MISSING = 'nope'

# family P: item = prune prefix ('' plain | 'I' IGNOREd | 'H' dot-named) + kind letter
#   L link back to an ancestor (loop)   S link to a sibling directory (no loop)
#   D real directory holding a file and a loop link "up"   X link to the second filesystem
PAIR_ITEMS = tuple(p + k for k in 'LSDX' for p in ('', 'I', 'H'))
PAIR_PRUNABLE = ('IL', 'IS', 'ID', 'HD', 'HL', 'IX')      # the six entries no walker may descend into
PAIR_NAMES = (('+p', '.p'), ('0q', '.q'))                 # slot -> (visible, dot-named); '+' < '.' < '0' < letters
PAIR_ORDERS = ('sorted', 'reversed')
PAIR_LOOPS = ('self', 'root')
PAIR_CONTENT = (b'pair-dir-0', b'pair-dir-1')


class BudgetExceeded(BaseException):
    pass


class HardTimeout(BaseException):
    pass


class HarnessError(RuntimeError):
    pass


# ---------------------------------------------------------------- seams: scandir budget, alarm, os proxy

_REAL_SCANDIR = os.scandir


class _Iter:
    def __init__(self, ents):
        self._it = iter(ents)

    def __iter__(self):
        return self

    def __next__(self):
        return next(self._it)

    def __enter__(self):
        return self

    def __exit__(self, *a):
        return False

    def close(self):
        pass


class _Budget:
    limit = None
    calls = 0
    reverse = False


BUDGET = _Budget()


def _counting_scandir(path='.'):
    b = BUDGET
    b.calls += 1
    if b.limit is not None and b.calls > b.limit:
        raise BudgetExceeded(f'more than {b.limit} os.scandir calls')
    with _REAL_SCANDIR(path) as it:
        ents = sorted(it, key=lambda e: e.name, reverse=b.reverse)
    return _Iter(ents)


def _on_alarm(signum, frame):
    raise HardTimeout(f'execution still running after {ALARM_S} s')


@contextlib.contextmanager
def budget(limit, reverse):
    BUDGET.limit, BUDGET.calls, BUDGET.reverse = limit, 0, reverse
    signal.signal(signal.SIGALRM, _on_alarm)
    os.scandir = _counting_scandir
    signal.alarm(ALARM_S)
    try:
        yield BUDGET
    finally:
        signal.alarm(0)
        os.scandir = _REAL_SCANDIR
        BUDGET.limit = None


def limit_for(ndirs):
    return 20 * ndirs * ndirs + 50


class _FakeStat:
    __slots__ = ('_st', 'st_ino')

    def __init__(self, st, ino):
        self._st = st
        self.st_ino = ino

    def __getattr__(self, name):
        return getattr(self._st, name)


class OsProxy:
    """Stands in for the name ``os`` inside gemato.recursiveloader.  Pass-through except
    that, while ``fake`` = ((dev, ino), new_ino) is set, stat() of that one object reports
    new_ino (same inode NUMBER on two filesystems)."""

    def __init__(self):
        self.fake = None
        self.calls = 0
        self.rewrites = 0

    def __getattr__(self, name):
        return getattr(os, name)

    def stat(self, path, *a, **kw):
        st = os.stat(path, *a, **kw)
        self.calls += 1
        f = self.fake
        if f is not None and (st.st_dev, st.st_ino) == f[0]:
            self.rewrites += 1
            return _FakeStat(st, f[1])
        return st


PROXY = OsProxy()


def install_proxy():
    if grl.os is not PROXY:
        if grl.os is not os:
            raise HarnessError('gemato.recursiveloader.os is already patched by someone else')
        grl.os = PROXY


class _ErrObjs(logging.Handler):
    """What `gemato` logs at ERROR level: the CLI logs the exception OBJECT."""

    def __init__(self):
        super().__init__(level=logging.ERROR)
        self.items = []

    def emit(self, record):
        m = record.msg
        if isinstance(m, BaseException):
            self.items.append((type(m).__name__, getattr(m, 'path', None)))
        else:
            self.items.append(('<text>', None))


_ERRS = _ErrObjs()
logging.getLogger().addHandler(_ERRS)


# ---------------------------------------------------------------- shapes

def _canon(parents, i=0):
    return tuple(sorted(_canon(parents, c) for c in range(len(parents)) if parents[c] == i))


def shapes(n):
    """One parent vector per unordered rooted tree on n nodes (node 0 = root, parent < child)."""
    seen = {}
    for par in itertools.product(*[range(i) for i in range(1, n)]):
        parents = (None,) + tuple(par)
        seen.setdefault(_canon(parents), parents)
    return sorted(seen.values(), key=lambda p: tuple(-1 if x is None else x for x in p))


def shape_name(parents):
    n = len(parents)
    if n == 1:
        return 'root-only'
    if all(parents[i] == i - 1 for i in range(1, n)):
        return 'chain'
    if all(parents[i] == 0 for i in range(1, n)):
        return 'star'
    return 'mixed'


def shape_text(parents, names=None):
    def rec(i):
        kids = [c for c in range(len(parents)) if parents[c] == i]
        nm = ('r' if i == 0 else (names[i] if names else str(i)))
        return nm + ('{' + ' '.join(rec(c) for c in kids) + '}' if kids else '')
    return rec(0)


def names_for(seed, n):
    return [''] + rot(DIRNAMES, seed)[:max(0, n - 1)]


def linksets(n, prefix=()):
    """All link vectors; element None or target node."""
    opts = [None] + list(range(n))
    rest = n - len(prefix)
    for tail in itertools.product(opts, repeat=rest):
        yield tuple(prefix) + tail


# ---------------------------------------------------------------- abstract model

def _j(a, b):
    return a + '/' + b if a else b


def pair_kind(item):
    return item[-1]


def pair_prune(item):
    return {'': 'plain', 'I': 'ignore', 'H': 'hidden'}[item[:-1]]


def pair_name(slot, item):
    return PAIR_NAMES[slot][1 if pair_prune(item) == 'hidden' else 0]


def pair_sibling(parents, h):
    """The directory a family-P "sibling" link in holder h points to: a child of h (a true
    sibling of the link), else a sibling/cousin of h; never h or one of its ancestors."""
    n = len(parents)
    kids = [c for c in range(n) if parents[c] == h]
    if kids:
        return kids[0]
    anc = set()
    d = h
    while d is not None:
        anc.add(d)
        d = parents[d]
    rest = [j for j in range(n) if j not in anc]
    return rest[0] if rest else None


class Model:
    """parents/links over nodes 0..n-1; foreign = None | {'at': holder, 'kind': KIND};
    pair = None | {'at': holder, 'items': [a, b], 'loop': 'self'|'root', 'sib': node} (family P).
    Identities: real directory i -> i; foreign directories -> 'X', 'XS'; the real directory
    of pair slot s -> ('P', s)."""

    def __init__(self, parents, links, names, hidden=(), foreign=None, pair=None, subm=None):
        self.n = len(parents)
        self.subm = subm            # family U: {'at': node != 0, 'comp': None|'gz', 'reg': bool}
        self.parents = tuple(parents)
        self.links = tuple(links)
        self.names = list(names)
        self.hidden = frozenset(hidden)
        self.foreign = foreign
        self.pair = pair
        self.kids = [[c for c in range(self.n) if parents[c] == i] for i in range(self.n)]
        self.rpath = [''] * self.n
        for i in range(1, self.n):
            self.rpath[i] = _j(self.rpath[parents[i]], names[i])

    def lname(self, i):
        return ('.k%d' if i in self.hidden else 'k%d') % i

    def depth(self, i):
        d = 0
        while i != 0:
            i = self.parents[i]
            d += 1
        return d

    def subm_name(self):
        return TOP + ('.' + self.subm['comp'] if self.subm['comp'] else '')

    def subm_path(self):
        return _j(self.rpath[self.subm['at']], self.subm_name())

    def link_path(self, i):
        return _j(self.rpath[i], self.lname(i))

    def content(self, i):
        return b'c%d' % i

    def path_of(self, node):
        if isinstance(node, int):
            return self.rpath[node]
        if node == 'X':
            return _j(self.rpath[self.foreign['at']], 'x')
        raise ValueError(node)

    def is_ancestor(self, a, b):
        """a is a proper ancestor of b (real tree)."""
        while b != 0:
            b = self.parents[b]
            if b == a:
                return True
        return False

    @staticmethod
    def is_foreign(node):
        return node in ('X', 'XS')

    def xkind(self):
        if self.foreign is not None:
            return self.foreign['kind']
        if self.pair is not None and any(pair_kind(it) == 'X' for it in self.pair['items']):
            return 'dir'
        return None

    def pair_loop_target(self):
        return self.pair['at'] if self.pair['loop'] == 'self' else 0

    def pair_entries(self):
        """-> [(slot, item, name, target identity)] of the two family-P entries"""
        out = []
        pr = self.pair
        if pr is None:
            return out
        for slot, item in enumerate(pr['items']):
            k = pair_kind(item)
            tgt = self.pair_loop_target() if k == 'L' else pr['sib'] if k == 'S' else \
                ('P', slot) if k == 'D' else 'X'
            out.append((slot, item, pair_name(slot, item), tgt))
        return out

    def pair_ignores(self):
        return tuple(_j(self.rpath[self.pair['at']], name) for _s, item, name, _t in self.pair_entries()
                     if pair_prune(item) == 'ignore')

    def children(self, node):
        """-> [(name, kind, payload)], kind in dir|file|xfile|manifest"""
        fo = self.foreign
        if isinstance(node, tuple) and node[0] == 'P':
            return [('f', 'file', PAIR_CONTENT[node[1]]), ('up', 'dir', self.pair_loop_target())]
        if isinstance(node, int):
            out = [(self.names[c], 'dir', c) for c in self.kids[node]]
            out.append(('f', 'file', self.content(node)))
            if self.links[node] is not None:
                out.append((self.lname(node), 'dir', self.links[node]))
            if fo is not None and fo['at'] == node:
                if fo['kind'] == 'file':
                    out.append(('x', 'xfile', FOREIGN_F))
                else:
                    out.append(('x', 'dir', 'X'))
            if self.pair is not None and self.pair['at'] == node:
                out.extend((name, 'dir', tgt) for _s, _it, name, tgt in self.pair_entries())
            if node == 0:
                out.append((TOP, 'manifest', None))
            if self.subm is not None and self.subm['at'] == node:
                out.append((self.subm_name(), 'subm', None))
            return out
        if node == 'X':
            xk = self.xkind()
            out = [] if xk == 'empty' else [('g', 'xfile', FOREIGN_G)]
            if xk == 'dirsub':
                out.append(('s', 'dir', 'XS'))
            if xk == 'back':
                out.append(('back', 'dir', fo['at']))
            return out
        if node == 'XS':
            return [('g2', 'xfile', FOREIGN_G2)]
        raise ValueError(node)

    def ndirs(self):
        xk = self.xkind()
        extra = sum(1 for _s, it, _n, _t in self.pair_entries() if pair_kind(it) == 'D')
        return self.n + extra + (0 if xk is None or xk == 'file' else 2)

    def text(self):
        t = shape_text(self.parents, self.names)
        ls = [f'{self.link_path(i)}->{"r" if j == 0 else self.rpath[j]}'
              for i, j in enumerate(self.links) if j is not None]
        s = t + ('  links: ' + ', '.join(ls) if ls else '  no links')
        if self.foreign:
            s += f'  foreign {self.foreign["kind"]} at {_j(self.rpath[self.foreign["at"]], "x")}'
        if self.pair:
            lt = self.pair_loop_target()
            what = {'L': 'link->' + ('r' if lt == 0 else self.rpath[lt]),
                    'S': 'link->' + self.rpath[self.pair['sib']],
                    'D': 'dir{f up->' + ('r' if lt == 0 else self.rpath[lt]) + '}', 'X': 'link->OTHER-FS/D'}
            s += '  pair in ' + (self.rpath[self.pair['at']] or 'r') + ': ' + ', '.join(
                f'{name!r}={pair_prune(it)} {what[pair_kind(it)]}' for _s, it, name, _t in self.pair_entries())
        if self.subm:
            s += f'  {"registered" if self.subm["reg"] else "UNREGISTERED"} valid sub-Manifest {self.subm_path()}'
        return s


class Ref:
    __slots__ = ('visits', 'loops', 'xhits', 'xhit_dirs', 'files', 'alias_manifests', 'subms')

    def __init__(self):
        self.visits = []            # (relpath, node) of directories walked
        self.loops = []             # (relpath, identity) of loop-closing directories
        self.xhits = []             # relpaths of non-IGNOREd foreign objects (crossing disallowed)
        self.xhit_dirs = []
        self.files = {}             # relpath -> content
        self.alias_manifests = []   # top-level Manifest seen under another path
        self.subms = []             # relpaths of sub-Manifest files met (family U); never DATA files

    def key(self):
        return (sorted(r for r, _ in self.visits), sorted(r for r, _ in self.loops),
                sorted(self.xhits), sorted(self.files), sorted(self.alias_manifests), sorted(self.subms))


def ref_walk(model, start, ignores, allow_xdev):
    """The property's walk.  start = node; ignores = set of paths relative to the tree root."""
    r = Ref()

    def visit(node, rel, anc):
        if node in anc:
            r.loops.append((rel, node))
            return
        if model.is_foreign(node) and not allow_xdev:
            r.xhits.append(rel)
            r.xhit_dirs.append(rel)
            return
        r.visits.append((rel, node))
        anc2 = anc + (node,)
        for name, kind, payload in model.children(node):
            if name.startswith('.'):
                continue
            cr = _j(rel, name)
            if cr in ignores:
                continue
            if kind == 'dir':
                visit(payload, cr, anc2)
            elif kind == 'file':
                r.files[cr] = payload
            elif kind == 'xfile':
                if not allow_xdev:
                    r.xhits.append(cr)
                else:
                    r.files[cr] = payload
            elif kind == 'manifest':
                if cr != TOP:
                    r.alias_manifests.append(cr)
            elif kind == 'subm':
                r.subms.append(cr)

    visit(start, model.path_of(start), ())
    return r


def disk_walk(root, start_rel, ignores, allow_xdev):
    """The same walk over the materialised tree: os.listdir / os.stat, (st_dev, st_ino)."""
    r = Ref()
    home = os.stat(root).st_dev

    def visit(full, rel, anc):
        st = os.stat(full)
        ident = (st.st_dev, st.st_ino)
        if ident in anc:
            r.loops.append((rel, ident))
            return
        if st.st_dev != home and not allow_xdev:
            r.xhits.append(rel)
            return
        r.visits.append((rel, ident))
        anc2 = anc + (ident,)
        for name in sorted(os.listdir(full)):
            if name.startswith('.'):
                continue
            cr = _j(rel, name)
            if cr in ignores:
                continue
            p = os.path.join(full, name)
            if os.path.isdir(p):
                visit(p, cr, anc2)
            else:
                if cr == TOP:
                    continue
                if name == TOP and os.path.exists(os.path.join(root, TOP)) \
                        and os.path.samefile(p, os.path.join(root, TOP)):
                    r.alias_manifests.append(cr)
                    continue
                if name in SUBM_NAMES:
                    r.subms.append(cr)
                    continue
                if os.stat(p).st_dev != home and not allow_xdev:
                    r.xhits.append(cr)
                else:
                    with open(p, 'rb') as f:
                        r.files[cr] = f.read()

    visit(os.path.join(root, start_rel) if start_rel else root, start_rel, ())
    return r


# ---------------------------------------------------------------- disk

class Disk:
    def __init__(self, scratch, parents, names, seed, other=None):
        self.root = fresh_root(scratch)
        self.parents = parents
        self.names = names
        self.absolute = bool((seed // 2) % 2)
        self.other = other
        m = Model(parents, (None,) * len(parents), names)
        self.abs = [os.path.join(self.root, p) if p else self.root for p in m.rpath]
        for i in range(1, len(parents)):
            os.mkdir(self.abs[i])
        for i in range(len(parents)):
            with open(os.path.join(self.abs[i], 'f'), 'wb') as f:
                f.write(m.content(i))
        self.cur = {}            # symlink path -> target
        self.curdirs = {}        # extra real directory (family P) -> content of its file "f"
        self.subms = set()       # directories that may hold a sub-Manifest file (family U)
        self.scratch = scratch
        self.link = os.path.join(scratch, 'lnk')     # family R: symlinked prefix directory  lnk -> t
        if os.path.lexists(self.link):
            os.unlink(self.link)

    def prefix_link(self):
        if not os.path.lexists(self.link):
            os.symlink(os.path.basename(self.root), self.link)
        return self.link

    def write_subm(self, rel, data):
        path = os.path.join(self.root, rel)
        self.subms.add(os.path.dirname(path))
        with open(path, 'wb') as f:
            f.write(data)

    def read_subm(self, rel):
        try:
            with open(os.path.join(self.root, rel), 'rb') as f:
                return f.read()
        except FileNotFoundError:
            return None

    def remove_subms(self):
        for d in self.subms:
            for nm in SUBM_NAMES:
                try:
                    os.unlink(os.path.join(d, nm))
                except FileNotFoundError:
                    pass
        self.subms = set()

    def _want_dirs(self, model):
        return {os.path.join(self.abs[model.pair['at']], name): PAIR_CONTENT[slot]
                for slot, it, name, _t in model.pair_entries() if pair_kind(it) == 'D'}

    def _want(self, model):
        want = {}
        for slot, it, name, tgt in model.pair_entries():
            k = pair_kind(it)
            here = self.abs[model.pair['at']]
            lp = os.path.join(here, name)
            if k == 'D':
                here, lp, tgt = lp, os.path.join(lp, 'up'), model.pair_loop_target()
            if k == 'X':
                if self.other is None:
                    raise HarnessError('foreign link requested without a second filesystem')
                want[lp] = os.path.join(self.other, 'D')
            else:
                want[lp] = self.abs[tgt] if self.absolute else os.path.relpath(self.abs[tgt], here)
        for i, j in enumerate(model.links):
            if j is None:
                continue
            p = os.path.join(self.abs[i], model.lname(i))
            want[p] = self.abs[j] if self.absolute else os.path.relpath(self.abs[j], self.abs[i])
        fo = model.foreign
        if fo is not None:
            if self.other is None:
                raise HarnessError('foreign object requested without a second filesystem')
            want[os.path.join(self.abs[fo['at']], 'x')] = os.path.join(self.other, KIND_DIR[fo['kind']])
            if fo['kind'] == 'back':
                want[os.path.join(self.other, 'B', 'back')] = self.abs[fo['at']]
        return want

    def apply(self, model):
        self.remove_subms()
        want = self._want(model)
        wdirs = self._want_dirs(model)
        for p in [p for p, t in self.cur.items() if want.get(p) != t]:
            os.unlink(p)
            del self.cur[p]
        for d in [d for d in self.curdirs if d not in wdirs]:
            for p in [p for p in self.cur if p.startswith(d + '/')]:
                os.unlink(p)
                del self.cur[p]
            os.unlink(os.path.join(d, 'f'))
            os.rmdir(d)
            del self.curdirs[d]
        for d, data in wdirs.items():
            if d not in self.curdirs:
                os.mkdir(d)
                with open(os.path.join(d, 'f'), 'wb') as f:
                    f.write(data)
                self.curdirs[d] = data
        for p, t in want.items():
            if p not in self.cur:
                os.symlink(t, p)
                self.cur[p] = t

    def clear(self):
        for p in list(self.cur):
            os.unlink(p)
        self.cur = {}
        for d in list(self.curdirs):
            os.unlink(os.path.join(d, 'f'))
            os.rmdir(d)
        self.curdirs = {}
        self.remove_subms()
        if os.path.lexists(self.link):
            os.unlink(self.link)
        self.remove_manifest()

    def write_manifest(self, text):
        with open(os.path.join(self.root, TOP), 'w', encoding='utf8') as f:
            f.write(text)

    def read_manifest(self):
        try:
            with open(os.path.join(self.root, TOP), encoding='utf8') as f:
                return f.read()
        except FileNotFoundError:
            return None

    def remove_manifest(self):
        try:
            os.unlink(os.path.join(self.root, TOP))
        except FileNotFoundError:
            pass


def second_fs(scratch):
    """mkdtemp on tempfile.gettempdir() when that is another device than the scratch, else None."""
    tmp = tempfile.gettempdir()
    try:
        if os.stat(tmp).st_dev == os.stat(scratch).st_dev:
            return None
    except OSError:
        return None
    other = tempfile.mkdtemp(prefix='gverif-c16-fs2-', dir=tmp)
    for d in ('D', 'DS', 'DS/s', 'B', 'E'):
        os.mkdir(os.path.join(other, d))
    for p, data in (('D/g', FOREIGN_G), ('DS/g', FOREIGN_G), ('DS/s/g2', FOREIGN_G2),
                    ('B/g', FOREIGN_G), ('F', FOREIGN_F)):
        with open(os.path.join(other, p), 'wb') as f:
            f.write(data)
    return other


# ---------------------------------------------------------------- Manifests

def ignore_entries(ignores):
    return [('IGNORE', p) for p in sorted(ignores)]


def data_entries(files):
    return [rm.file_entry('DATA', p, files[p], HASHES) for p in sorted(files)]


def stale_entries(model, start):
    """Entries of the Manifest an update starts from (besides the IGNORE lines)."""
    sp = model.path_of(start)
    out = [rm.file_entry('DATA', _j(sp, 'f'), b'old-content', HASHES),
           rm.file_entry('DATA', _j(sp, 'gone'), b'vanished', HASHES)]
    if start != 0:
        # entries outside the updated sub-path must be left alone
        out.append(rm.file_entry('DATA', 'f', b'untouched-stale', HASHES))
    return out


def under(path, prefix):
    return prefix == '' or path == prefix or path.startswith(prefix + '/')


# ---------------------------------------------------------------- one execution

def _argv(cmd, allow_xdev, target):
    a = [cmd]
    if cmd != 'verify':
        a += ['--hashes', ' '.join(HASHES)]
    if not allow_xdev:
        a.append('-x')
    return a + ([target] if target is not None else [])      # no path argument: the CLI's default, '.'


class Spelled:
    """One way of naming the tree root: ``top`` = path of the top-level Manifest handed to
    ManifestRecursiveLoader, ``target`` = path argument of the CLI (None: none given), ``cwd`` =
    working directory during the execution (None: unchanged, all paths absolute)."""
    __slots__ = ('name', 'top', 'target', 'cwd')

    def __init__(self, name, top, target, cwd):
        self.name, self.top, self.target, self.cwd = name, top, target, cwd


def spelled(spell, disk, model, start, start_rel):
    """Root spellings (family R).  R = the tree root as a string ('' = the cwd itself):
      abs      canonical absolute path (what every other family uses)
      bare     cwd = root; 'Manifest' / CLI without path argument (or the bare relative sub-path)
      cwd:c    cwd = real directory c; R = relpath(root, c): '.', '..', '../..'
      slash    a doubled slash inside the prefix and a trailing slash: '/a//b/t/' + '/Manifest'
      dd:c     absolute through '..': R = <c>/.. x depth(c)        ('sub/../Manifest', 'a/b/../../Manifest')
      ddrel:c  the same relative to cwd = parent of c: 'c/..', 'c/../..'  (what the CLI run on c builds)
      ddbase   R = root/../<basename of root>
      sym      R = a symlink to the root in another directory (symlinked prefix)
      rel:c    CLI only: cwd = c, path argument = relpath(start, c)       ('.', '..', '../sib', 'x/y')"""
    root = disk.root
    kind, _, arg = (spell or 'abs').partition(':')
    c = int(arg) if arg else None
    cwd = None
    if kind == 'abs':
        return Spelled('abs', os.path.join(root, TOP), os.path.join(root, start_rel) if start_rel else root, None)
    if kind == 'rel':
        cwd = disk.abs[c]
        return Spelled(spell, None, os.path.relpath(disk.abs[start], cwd), cwd)
    if kind == 'bare':
        r, cwd = '', root
    elif kind == 'cwd':
        cwd = disk.abs[c]
        r = os.path.relpath(root, cwd)
    elif kind == 'slash':
        i = root.index('/', 1)
        r = root[:i] + '/' + root[i:] + '/'
    elif kind == 'dd':
        r = disk.abs[c] + '/..' * model.depth(c)
    elif kind == 'ddrel':
        cwd = disk.abs[model.parents[c]]
        r = model.names[c] + '/..' * model.depth(c)
    elif kind == 'ddbase':
        r = root + '/../' + os.path.basename(root)
    elif kind == 'sym':
        r = disk.prefix_link()
    else:
        raise ValueError(spell)
    top = r + '/' + TOP if r else TOP
    target = (r + '/' + start_rel if r else start_rel) if start_rel else (r or None)
    return Spelled(spell, top, target, cwd)


def spellings_for(model, start, walker, deep_only=False, with_abs=False):
    """Names of the root spellings one (tree, start, walker) is run under in family R."""
    nodes = range(model.n)
    out = ['abs'] if with_abs else []
    out += ['bare'] + [f'cwd:{c}' for c in nodes] + ['slash'] + [f'dd:{c}' for c in nodes if c] \
        + [f'ddrel:{c}' for c in nodes if c] + ['ddbase', 'sym']
    if walker in CLI3 and isinstance(start, int) and start != 0:
        out += [f'rel:{c}' for c in nodes if c]
    if deep_only:
        out = [sp for sp in out if ':' in sp and model.depth(int(sp.split(':')[1])) == model.n - 1]
    return out


def spell_class(spell):
    return (spell or 'abs').split(':')[0]


@contextlib.contextmanager
def in_cwd(cwd):
    if cwd is None:
        yield
        return
    old = os.getcwd()
    os.chdir(cwd)
    try:
        yield
    finally:
        os.chdir(old)


def tree_rel(path, sp, disk):
    """Path attribute of a loop / cross-device error -> relative to the tree root (diagnostics only)."""
    if not isinstance(path, str):
        return path
    full = os.path.normpath(os.path.join(sp.cwd or '/', path))
    for b in (disk.root, disk.link):
        if full.startswith(b + '/'):
            return full[len(b) + 1:]
    return path


def _lib_res(o, is_verify, sp, disk):
    if o['kind'] == 'ret':
        v = o['value']
        if is_verify:
            return ('ok', None) if v is True else ('fail',) if v is False else ('exc', f'returned {v!r}', None, None)
        return ('ok', v)
    path = o.get('path')
    if o['exc'] in ('ManifestSymlinkLoop', 'ManifestCrossDevice'):
        path = tree_rel(path, sp, disk)
    if o.get('class') == 'internal' and o['exc'] not in ('BudgetExceeded', 'HardTimeout'):
        return ('internal', o['exc'], o.get('where'), o.get('msg'))
    return ('exc', o['exc'], o.get('errno'), path)


def execute(walker, disk, sp, start_rel, allow_xdev, limit, reverse):
    """-> (res, calls, extra) with res = ('ok', value) | ('fail',) | ('exc', name, errno, path)"""
    kw = {} if allow_xdev else {'allow_xdev': False}
    handler_paths = []
    cli = None
    if walker == 'verify_strict':
        def fn():
            return grl.ManifestRecursiveLoader(sp.top, **kw).assert_directory_verifies(start_rel)
    elif walker == 'verify_keepgoing':
        def handler(e):
            handler_paths.append(e.path)
            return False

        def fn():
            return grl.ManifestRecursiveLoader(sp.top, **kw).assert_directory_verifies(
                start_rel, fail_handler=handler)
    elif walker == 'unregistered':
        def fn():
            return grl.ManifestRecursiveLoader(sp.top, **kw).load_unregistered_manifests(start_rel)
    elif walker == 'update':
        def fn():
            m = grl.ManifestRecursiveLoader(sp.top, hashes=list(HASHES), **kw)
            m.update_entries_for_directory(start_rel)
            m.save_manifests()
    elif walker == 'create':
        cli = _argv('create', allow_xdev, sp.target)
    elif walker == 'cli_verify':
        cli = _argv('verify', allow_xdev, sp.target)
    elif walker == 'cli_verify_k':
        cli = _argv('verify', allow_xdev, sp.target)
        cli.insert(1, '-k')
    elif walker == 'cli_update':
        cli = _argv('update', allow_xdev, sp.target)
    else:
        raise ValueError(walker)
    if (cli is None and sp.top is None):
        raise HarnessError(f'spelling {sp.name} is for the CLI only')
    _ERRS.items = []
    with in_cwd(sp.cwd):
        with budget(limit, reverse) as b:
            o = gem.cli(cli) if cli is not None else gem.call(fn)
    calls = b.calls
    errs, _ERRS.items = _ERRS.items, []
    if cli is not None:
        if o['kind'] == 'exc' and o.get('class') != 'exit':
            res = ('exc', o['exc'], o.get('errno'), o.get('path'))
        elif o['exit'] == 0:
            res = ('ok', None)
        elif o['exit'] == 1 and errs:
            hard = [e for e in errs if e[0] not in ('ManifestMismatch', '<text>')]
            name, path = (hard or errs)[0]
            if name in ('ManifestSymlinkLoop', 'ManifestCrossDevice'):
                path = tree_rel(path, sp, disk)
            res = ('exc', name, None, path)
        else:
            res = ('exc', f'exit{o["exit"]}', None, None)
    else:
        res = _lib_res(o, walker.startswith('verify'), sp, disk)
    return res, calls, {'handler_paths': handler_paths}


def execute_history(hist, rels, disk, sp, allow_xdev, limit, reverse):
    """Family U: several walks on ONE ManifestRecursiveLoader.  hist = [(op, start node)], rels = the
    start paths.  -> ([res per call], scandir calls of the most expensive call)"""
    kw = {} if allow_xdev else {'allow_xdev': False}
    out = []
    worst = 0
    _ERRS.items = []
    with in_cwd(sp.cwd):
        o = gem.call(lambda: grl.ManifestRecursiveLoader(sp.top, hashes=list(HASHES), **kw))
        if o['kind'] != 'ret':
            return [_lib_res(o, False, sp, disk)] * len(hist), 0
        m = o['value']
        for (op, _st), rel in zip(hist, rels):
            if op == 'scan':
                def fn():
                    return m.load_unregistered_manifests(rel)
            elif op == 'update':
                def fn():
                    return m.update_entries_for_directory(rel)
            elif op == 'verify':
                def fn():
                    return m.assert_directory_verifies(rel, fail_handler=lambda e: False)
            else:
                raise ValueError(op)
            with budget(limit, reverse) as b:
                o = gem.call(fn)
            worst = max(worst, b.calls)
            out.append(_lib_res(o, op == 'verify', sp, disk))
    _ERRS.items = []
    return out, worst


def brief(res):
    if res[0] == 'ok':
        return 'ok'
    if res[0] == 'fail':
        return 'ret:False'
    if res[0] == 'internal':
        return 'internal:' + res[1]
    if res[1] == 'OSError' or res[2] is not None:
        return f'exc:{res[1]}:{errno.errorcode.get(res[2], res[2])}'
    return 'exc:' + res[1]


class Case:
    """Everything that identifies one execution."""

    def __init__(self, fam, parents, links, hidden, ignores, ilabel, start, foreign, allow_xdev, walker, seed,
                 pair=None, order=None, spell=None, subm=None, hist=None, target=None, entry=None):
        self.fam = fam
        self.parents = tuple(parents)
        self.links = tuple(links)
        self.hidden = tuple(sorted(hidden))
        self.ignores = tuple(sorted(ignores))
        self.ilabel = ilabel
        self.start = start
        self.foreign = foreign
        self.allow_xdev = allow_xdev
        self.walker = walker
        self.seed = seed
        self.pair = pair            # family P: {'at', 'items', 'loop', 'sib'}
        self.order = order          # family P, U: 'sorted' | 'reversed'; None = by seed parity
        self.spell = spell          # family R: root spelling (None = canonical absolute)
        self.subm = subm            # family U: {'at', 'comp', 'reg'}
        self.hist = [tuple(h) for h in hist] if hist else None      # family U, walker 'hist': [(op, start node)]
        self.target = target        # family V: label of the path handed to the single-path API (v_target_path)
        self.entry = entry          # family V: 'present' | 'stale' | 'absent', + '@sub' = kept in the sub-Manifest x/Manifest

    def model(self):
        return Model(self.parents, self.links, names_for(self.seed, len(self.parents)), self.hidden, self.foreign,
                     self.pair, self.subm)

    def reverse(self):
        """scandir enumeration order of this execution"""
        return bool(self.seed % 2) if self.order is None else self.order == 'reversed'

    def desc(self):
        fo = None if self.foreign is None else (self.foreign['at'], self.foreign['kind'])
        d = (self.fam, self.parents, self.links, self.hidden, self.ilabel, self.ignores, self.start, fo,
             self.allow_xdev, self.walker)
        if self.pair is not None:
            pr = self.pair
            d += ((pr['at'], tuple(pr['items']), pr['loop'], pr['sib']), self.order)
        if self.spell is not None:
            d += (('spell', self.spell),)
        if self.subm is not None:
            sm = self.subm
            d += (('subm', sm['at'], sm['comp'], sm['reg']), self.order, self.hist)
        if self.target is not None:
            d += (('path', self.target, self.entry),)
        return d

    def to_json(self):
        return {'fam': self.fam, 'parents': [(-1 if p is None else p) for p in self.parents],
                'links': [(-1 if x is None else x) for x in self.links], 'hidden': list(self.hidden),
                'ignores': list(self.ignores), 'ilabel': self.ilabel, 'start': self.start,
                'foreign': self.foreign, 'allow_xdev': self.allow_xdev, 'walker': self.walker,
                'seed': self.seed, 'pair': self.pair, 'order': self.order, 'spell': self.spell,
                'subm': self.subm, 'hist': [list(h) for h in self.hist] if self.hist else None,
                'target': self.target, 'entry': self.entry}

    @classmethod
    def from_json(cls, j):
        return cls(j['fam'], [(None if p == -1 else p) for p in j['parents']],
                   [(None if x == -1 else x) for x in j['links']], j.get('hidden', ()), j.get('ignores', ()),
                   j.get('ilabel', '?'), j.get('start', 0), j.get('foreign'), j.get('allow_xdev', True),
                   j['walker'], j.get('seed', 0), j.get('pair'), j.get('order'), j.get('spell'),
                   j.get('subm'), j.get('hist'), j.get('target'), j.get('entry'))

    def text(self, model):
        return (f'{model.text()}  IGNORE {list(self.ignores)}  start={model.path_of(self.start)!r} '
                f'allow_xdev={self.allow_xdev} walker={self.walker}'
                + (' history=' + ' ; '.join(f'{op}({model.path_of(st)!r})' for op, st in self.hist)
                   if self.hist else '')
                + (f' listing={self.order}' if self.order else '')
                + (f' root-spelling={self.spell}' if self.spell else '')
                + (f' path={v_target_path(model, self.target)!r} ({self.target}; entry {self.entry})'
                   if self.target else ''))


UNLISTED = ('keep-going verify meets a foreign regular file that no loaded Manifest lists (unregistered sub-Manifest): '
            'stray-file mismatch or cross-device error, the statement gives no precedence')


def hist_call_open(case, model, op):
    """Family U histories: reason why a call's outcome is left open, or None."""
    if op == 'verify' and not model.subm['reg'] and case.foreign['kind'] == 'file' \
            and under(model.rpath[case.foreign['at']], model.rpath[model.subm['at']]):
        return UNLISTED
    return None


def expectation(case, model, ref):
    """-> (verdict, must_raise set, reason).  verdict in must|dontcare."""
    loops = bool(ref.loops)
    scan = case.walker == 'unregistered' or bool(case.hist and case.hist[-1][0] == 'scan')
    xd = ref.xhit_dirs if scan else ref.xhits
    must = set()
    if loops:
        must.add('ManifestSymlinkLoop')
    if xd:
        must.add('ManifestCrossDevice')
    if ref.alias_manifests and case.walker not in ('verify_keepgoing', 'cli_verify_k'):
        return 'dontcare', must, 'tree root re-entered below the start: top-level Manifest visible under an alias path'
    if ref.alias_manifests and not loops:
        return 'dontcare', must, 'tree root re-entered below the start: top-level Manifest visible under an alias path'
    if case.hist and xd and hist_call_open(case, model, case.hist[-1][0]):
        return 'dontcare', must, UNLISTED
    if scan and ref.xhits and not ref.xhit_dirs and not loops:
        return 'dontcare', must, 'unregistered-Manifest scan meets only a foreign regular file'
    return 'must', must, None


def pair_listing(case, model):
    """Names of the directory entries of the pair holder in the order this execution's
    scandir wrapper hands them out (same key as _counting_scandir)."""
    return sorted((name for name, kind, _p in model.children(case.pair['at']) if kind == 'dir'),
                  reverse=case.reverse())


def check_pair_listing(case, model):
    """Family P by construction: the two entries stand next to each other, slot 0 first under
    sorted enumeration and slot 1 first under reversed enumeration."""
    names = [name for _s, _it, name, _t in model.pair_entries()]
    lst = pair_listing(case, model)
    i, j = lst.index(names[0]), lst.index(names[1])
    if abs(i - j) != 1 or (i < j) != (case.order == 'sorted') or case.order not in PAIR_ORDERS:
        raise HarnessError(f'family P entries {names} not adjacent / not in the intended order in {lst}')


def u_manifests(case, model, listing, ign, disk):
    """Family U: write the valid sub-Manifest (entries for the files of its sub-tree that the reference
    reaches, device crossing allowed) and return the entries of the matching top-level Manifest for
    the rest of the tree (+ the MANIFEST entry when the sub-Manifest is registered)."""
    sm = model.subm
    mdir = model.rpath[sm['at']]
    sub = {p[len(mdir) + 1:]: d for p, d in listing.files.items() if under(p, mdir)}
    rest = {p: d for p, d in listing.files.items() if not under(p, mdir)}
    data = compress(rm.write(data_entries(sub)).encode('utf8'), sm['comp'])
    disk.write_subm(model.subm_path(), data)
    reg = [rm.file_entry('MANIFEST', model.subm_path(), data, HASHES)] if sm['reg'] else []
    return data_entries(rest), reg


def termination_violation(res, calls, limit, ref, viol, got):
    exc = res[1] if res[0] == 'exc' else None
    if exc == 'BudgetExceeded':
        return viol({'check': 'does_not_terminate', 'how': 'scandir_budget'},
                    f'walk did not end within {limit} os.scandir calls (reference walk: {len(ref.visits)} directories, '
                    f'{"loop expected" if ref.loops else "no loop"})')
    if exc == 'HardTimeout':
        return viol({'check': 'does_not_terminate', 'how': 'alarm'}, f'execution still running after {ALARM_S} s')
    if res[0] == 'exc' and res[2] in (errno.ELOOP, errno.ENAMETOOLONG):
        return viol({'check': 'does_not_terminate', 'how': 'stopped_by_kernel_' + errno.errorcode[res[2]]},
                    f'walk was only stopped by the kernel ({got}) after {calls} os.scandir calls')
    if res[0] == 'internal':
        return viol({'check': 'internal_error', 'exc': res[1], 'where': res[2]},
                    f'{res[1]} escaped from {res[2]}: {res[3]}')
    return None


def judge_history(case, model, ignores, results, calls, limit, viol):
    """Family U, several walks on one loader.  Every call is a walk of its own: with crossing
    disallowed it must raise ManifestCrossDevice iff the reference walk from ITS start meets a
    non-IGNOREd foreign object, whatever the loader did before.  -> (violation | None, label)"""
    failed_before = False
    labels = []
    v = None
    ops = ','.join(op for op, _st in case.hist)
    for i, ((op, st), res) in enumerate(zip(case.hist, results)):
        ref = ref_walk(model, st, ignores, case.allow_xdev)
        got = brief(res)
        labels.append(got)
        exc = res[1] if res[0] == 'exc' else None
        xd = ref.xhit_dirs if op == 'scan' else ref.xhits
        where = f'call {i + 1} ({op} of {model.path_of(st)!r})'
        w = termination_violation(res, calls, limit, ref, viol, got)
        if w is None and xd:
            if exc == 'ManifestCrossDevice' or hist_call_open(case, model, op):
                pass
            elif res[0] == 'exc' and failed_before:
                pass            # a loader that refuses further work after a failed call: not this property's subject
            else:
                w = viol({'check': 'xdev_not_reported', 'got': got, 'foreign': case.foreign['kind'],
                          'sub_manifest': 'registered' if model.subm['reg'] else 'unregistered', 'history': ops},
                         f'{where}{" (an earlier call on this loader failed)" if failed_before else ""}: reference: foreign object at {ref.xhits[:3]} with crossing disallowed => '
                         f'ManifestCrossDevice; gemato: {got}')
        elif w is None and not (op == 'scan' and ref.xhits):
            if exc == 'ManifestCrossDevice':
                w = viol({'check': 'false_xdev', 'history': ops},
                         f'{where}: reference: nothing foreign below this start (or crossing allowed); gemato: {got} '
                         f'for {res[3]!r}')
            elif exc == 'ManifestSymlinkLoop':
                w = viol({'check': 'false_loop', 'shape': 'plain', 'history': ops},
                         f'{where}: reference: no loop; gemato: {got} for {res[3]!r}')
            elif res[0] == 'exc' and not failed_before:
                w = viol({'check': 'rejected_loop_free_tree', 'got': got, 'history': ops},
                         f'{where}: reference: walk ends without loop / cross-device error; gemato: {got}')
            elif res[0] == 'fail' and model.subm['reg'] and not failed_before:
                w = viol({'check': 'rejected_loop_free_tree', 'got': got, 'history': ops},
                         f'{where}: the tree matches its Manifests, keep-going verify returned False')
        v = v or w
        failed_before = failed_before or res[0] not in ('ok', 'fail')
    return v, ' ; '.join(labels)


def check_case(case, disk, stats=None, crosscheck=True):
    """Materialise the links of ``case`` on ``disk``, run its walker, judge.  -> (violation|None, info)"""
    if case.fam == 'V':
        return check_path_case(case, disk, stats, crosscheck)
    model = case.model()
    ignores = set(case.ignores)
    start = case.start
    start_rel = model.path_of(start)
    ref = ref_walk(model, start, ignores, case.allow_xdev)
    listing = ref if case.allow_xdev else ref_walk(model, start, ignores, True)
    ndirs = model.ndirs()
    limit = limit_for(ndirs)
    need = 2 * (len(ref.visits) + len(ref.loops) + len(ref.xhits)) + 2
    if need * 4 > limit:
        raise HarnessError(f'budget {limit} too tight for the reference walk ({need}) of {case.text(model)}')
    disk.apply(model)
    if case.pair is not None:
        check_pair_listing(case, model)

    def cross():
        if crosscheck and not (case.foreign and case.foreign['kind'] == 'ino'):
            dk = disk_walk(disk.root, start_rel, ignores, case.allow_xdev)
            if dk.key() != ref.key() or any(dk.files[p] != ref.files[p] for p in ref.files):
                raise HarnessError(f'model and materialised tree disagree for {case.text(model)}: '
                                   f'{ref.key()} vs {dk.key()}')

    verdict, must, reason = expectation(case, model, ref)
    walker = case.walker
    sp = spelled(case.spell, disk, model, start, start_rel)

    # ---- Manifest(s) the walker starts from
    ign = ignore_entries(ignores)
    outside = []
    reg = []
    if case.subm is not None:
        if start != 0:
            raise HarnessError('family U starts at the tree root')
        rest_entries, reg = u_manifests(case, model, listing, ign, disk)
    else:
        rest_entries = data_entries(listing.files)
    if walker in ('verify_strict', 'verify_keepgoing', 'unregistered', 'cli_verify', 'cli_verify_k', 'hist'):
        before = rm.write(ign + rest_entries + reg)
        disk.write_manifest(before)
    elif walker in ('update', 'cli_update'):
        stale = stale_entries(model, start)
        outside = [e for e in stale if not under(e[1], start_rel)]
        before = rm.write(ign + stale + reg)
        disk.write_manifest(before)
    else:
        before = None
        disk.remove_manifest()
    cross()         # (after the Manifests are in place: alias paths of the top-level Manifest, sub-Manifests)

    if case.foreign and case.foreign['kind'] == 'ino':
        fst = os.stat(os.path.join(disk.other, 'D'))
        PROXY.fake = ((fst.st_dev, fst.st_ino), os.stat(disk.abs[case.foreign['at']]).st_ino)
    results = None
    try:
        if walker == 'hist':
            results, calls = execute_history(case.hist, [model.path_of(st) for _op, st in case.hist], disk, sp,
                                             case.allow_xdev, limit, case.reverse())
            res, extra = results[-1], {'handler_paths': []}
        else:
            res, calls, extra = execute(walker, disk, sp, start_rel, case.allow_xdev, limit, case.reverse())
    finally:
        PROXY.fake = None
    got = brief(res)
    after = disk.read_manifest()
    info = {'ref': ref, 'verdict': verdict, 'must': must, 'got': got, 'calls': calls, 'limit': limit,
            'model': model, 'spelled': sp, 'root': disk.root}

    def viol(sig, msg, with_walker=True):
        if with_walker:
            sig = dict(sig, walker=walker)
        if case.spell is not None:
            sig = dict(sig, root_spelling=spell_class(case.spell))
        return {'sig': sig, 'case': case.to_json(), 'message': f'{msg} :: {case.text(model)}'}

    if results is not None:
        v, got = judge_history(case, model, ignores, results, calls, limit, viol)
        info['got'] = got
        if v is None and after != before:
            v = viol({'check': 'manifest_written_despite_error', 'got': got},
                     'the Manifest on disk changed although nothing was saved')
        return _account(case, stats, v, info, verdict, reason, must, walker, got, calls, limit, None)

    exc = res[1] if res[0] == 'exc' else None
    # ---- termination (judged always, DONT_CARE included)
    v = termination_violation(res, calls, limit, ref, viol, got)
    if v is not None:
        pass
    elif verdict == 'dontcare':
        pass
    elif must:
        if exc in must:
            bad = [p for p in extra['handler_paths'] if any(under(p, x) for x in ref.xhits)]
            if bad:
                v = viol({'check': 'verdict_on_foreign_object'},
                         f'handler was called for {bad[:3]} (foreign, crossing disallowed) before {got}')
        else:
            where = f' for {res[3]!r}' if exc and res[3] else ''
            missed = None
            if 'ManifestSymlinkLoop' in must:
                # classify WHICH loop went unreported (the defect), not how it surfaced
                at_start = [lr for lr, ident in ref.loops if ident == start]
                behind = res[0] == 'exc' and res[3] is not None and any(under(res[3], lr) for lr in at_start)
                if behind or (len(at_start) == len(ref.loops) and 'ManifestCrossDevice' not in must):
                    missed = 'link_to_start_dir'
                elif at_start:
                    missed = 'mixed'
                else:
                    missed = 'link_to_other_ancestor'
            lp = [lr for lr, _ in ref.loops][:3]
            if missed == 'link_to_start_dir':
                # one defect -> one signature: walker and the way it surfaces are in the message only
                v = viol({'check': 'loop_not_reported', 'missed': missed,
                          'start': 'tree_root' if start == 0 else 'sub_path'},
                         f'reference: {lp} lead(s) back to the start directory outside IGNORE => ManifestSymlinkLoop; '
                         f'{walker}: {got}{where}', with_walker=False)
            elif 'ManifestCrossDevice' not in must:
                v = viol({'check': 'loop_not_reported', 'got': got, 'missed': missed},
                         f'reference: loop at {lp} outside IGNORE => ManifestSymlinkLoop; gemato: {got}{where}')
            elif 'ManifestSymlinkLoop' not in must:
                kind = case.foreign['kind'] if case.foreign else 'pair_link' if case.pair else '?'
                sig = {'check': 'xdev_not_reported', 'got': got, 'foreign': kind}
                if case.subm is not None:
                    sig['sub_manifest'] = 'registered' if case.subm['reg'] else 'unregistered'
                v = viol(sig,
                         f'reference: foreign object at {ref.xhits[:3]} with crossing disallowed => ManifestCrossDevice; '
                         f'gemato: {got}{where}')
            else:
                v = viol({'check': 'loop_or_xdev_not_reported', 'got': got},
                         f'reference: loop at {lp} and foreign object at {ref.xhits[:3]} => ManifestSymlinkLoop or '
                         f'ManifestCrossDevice; gemato: {got}{where}')
        if v is None and after != before:
            v = viol({'check': 'manifest_written_despite_error', 'got': got},
                     'the Manifest on disk changed although the operation failed')
    else:
        feats = sorted(f for f in features(model, ref) if f in ('diamond', 'chain', 'ino_collision'))
        if exc == 'ManifestSymlinkLoop':
            v = viol({'check': 'false_loop', 'shape': feats or 'plain'},
                     f'reference: no directory is its own ancestor on any walked path; gemato: {got} for {res[3]!r}')
        elif exc == 'ManifestCrossDevice':
            v = viol({'check': 'false_xdev'}, f'reference: nothing foreign (or crossing allowed); gemato: {got} for {res[3]!r}')
        elif res[0] != 'ok':
            v = viol({'check': 'rejected_loop_free_tree', 'got': got},
                     f'reference: walk ends without loop, tree matches its Manifest; gemato: {got}'
                     + (f' for {res[3]!r}' if exc and res[3] else ''))
        elif walker == 'unregistered' and case.subm is None and res[1] != []:
            v = viol({'check': 'unregistered_scan_reports_manifest'},
                     f'no sub-Manifest exists, scan returned {res[1]!r}')
        elif walker == 'verify_keepgoing' and extra['handler_paths']:
            v = viol({'check': 'handler_called_on_matching_tree'},
                     f'handler called for {extra["handler_paths"][:3]}')
        elif walker in ('update', 'create', 'cli_update'):
            v = judge_written(case, model, ref, disk, after, ign, outside, start_rel, limit, viol, stats)
    return _account(case, stats, v, info, verdict, reason, must, walker, got, calls, limit, exc)


def _account(case, stats, v, info, verdict, reason, must, walker, got, calls, limit, exc):
    if stats is not None:
        stats.evaluations += 1
        stats.transitions += len(case.hist) if case.hist else 1
        c = stats.counters
        if verdict == 'must':
            stats.compared += 1
            cls = 'raise:' + '|'.join(sorted(x[8:] for x in must)) if must else 'pass'
        else:
            stats.dontcare[reason] += 1
            cls = 'dontcare'
        stats.outcomes[f'{walker}/{cls}/{got}'] += 1
        use = calls * 100 // limit
        c['budget_use_' + ('lt10' if use < 10 else 'lt25' if use < 25 else 'lt50' if use < 50 else 'ge50')] += 1
        if exc == 'BudgetExceeded' or 'BudgetExceeded' in got:
            c['budget_exceeded'] += 1
        if v:
            stats.violation(v['sig'], v['case'], v['message'])
    return v, info


def judge_written(case, model, ref, disk, after, ign, outside, start_rel, limit, viol, stats):
    """After a successful update/create: the Manifest must list exactly the reached files
    (one entry per path), and a fresh loader must verify the tree."""
    if after is None:
        return viol({'check': 'no_manifest_written'}, 'operation succeeded but there is no Manifest')
    st, ents = rm.parse(after)
    if st != 'ok':
        return viol({'check': 'written_manifest_unparsable', 'why': str(ents)}, f'reference parser: {st} {ents}')
    if model.subm is not None:
        # family U: the union of the two Manifests, each path in the namespace of the tree root; how the
        # sub-Manifest is registered (its MANIFEST entry) is left to the fresh verify below
        mdir = model.rpath[model.subm['at']]
        raw = disk.read_subm(model.subm_path())
        try:
            st2, sub = rm.parse(decompress(raw, model.subm['comp']).decode('utf8')) if raw is not None else ('gone', ())
        except Exception as e:      # noqa: BLE001 - a damaged compressed stream is a verdict, not a harness error
            st2, sub = f'undecodable ({type(e).__name__})', ()
        if st2 != 'ok':
            return viol({'check': 'written_manifest_unparsable', 'why': 'sub-Manifest ' + st2},
                        f'sub-Manifest {model.subm_path()} after the update: {st2}')
        ents = [e for e in ents if e[0] != 'MANIFEST'] + [
            (e[0], _j(mdir, e[1])) + tuple(e[2:]) for e in sub if e[0] not in ('MANIFEST', 'TIMESTAMP')]
    want = sorted(ign + outside + data_entries(ref.files), key=repr)
    have = sorted((e for e in ents if e[0] != 'TIMESTAMP'), key=repr)
    if have != want:
        wp = {(e[0], e[1]) for e in want}
        hp = {(e[0], e[1]) for e in have}
        missing = sorted(p for _t, p in wp - hp)
        extra = sorted(p for _t, p in hp - wp)
        what = 'missing' if missing and not extra else 'extra' if extra and not missing else \
            'missing+extra' if missing else 'wrong_data_or_duplicate'
        return viol({'check': 'written_entries_wrong', 'what': what},
                    f'written Manifest: missing {missing[:4]}, unexpected {extra[:4]}')
    with budget(limit, case.reverse()):
        kw = {} if case.allow_xdev else {'allow_xdev': False}
        o = gem.call(lambda: gem.loader(disk.root, **kw).assert_directory_verifies(start_rel))
    if stats is not None:
        stats.transitions += 1
    if not (o['kind'] == 'ret' and o['value'] is True):
        return viol({'check': 'fresh_verify_fails', 'got': gem.brief(o)},
                    f'tree does not verify after the update: {gem.brief(o)} {o.get("path")!r}')
    return None


# ---------------------------------------------------------------- family V: single-path APIs

def v_targets(model):
    """Labels of the paths family V hands to the single-path APIs for this foreign placement."""
    kind = model.foreign['kind']
    out = ['xobj']
    if kind in ('dir', 'dirsub', 'back'):
        out.append('below')
    if kind == 'dirsub':
        out += ['xsub', 'below2']
    if kind == 'back':
        out.append('back')
    if kind != 'file':
        out.append('xmissing')
    out += [f'home:{i}' for i in range(model.n)]
    out.append('missing')
    return out


def v_target_path(model, label):
    hp = model.rpath[model.foreign['at']]
    if label.startswith('home:'):
        return _j(model.rpath[int(label[5:])], 'f')
    return _j(hp, {'xobj': 'x', 'below': 'x/g', 'xsub': 'x/s', 'below2': 'x/s/g2', 'back': 'x/back/f',
                   'xmissing': 'x/' + V_MISSING, 'missing': V_MISSING}[label])


def resolve(model, relpath):
    """What ``relpath`` (relative to the tree root) names, from the model alone:
    -> (what, payload, foreign, through) with what = 'file' (payload = content) | 'dir' (payload = identity) |
    'missing'; foreign = the named object is on the second filesystem; through = the path passes a
    directory on the second filesystem before it gets there."""
    node = 0
    through = False
    comps = relpath.split('/')
    for i, comp in enumerate(comps):
        found = [(kind, payload) for name, kind, payload in model.children(node) if name == comp]
        if not found:
            return 'missing', None, False, through
        kind, payload = found[0]
        last = i == len(comps) - 1
        if kind == 'dir':
            if last:
                return 'dir', payload, model.is_foreign(payload), through
            node = payload
            through = through or model.is_foreign(node)
        elif kind in ('file', 'xfile'):
            if not last:
                raise HarnessError(f'{relpath!r} goes through the regular file {comp!r}')
            return 'file', payload, kind == 'xfile', through
        else:
            raise HarnessError(f'{relpath!r} names a Manifest')
    raise HarnessError('empty path')


def disk_resolve(root, relpath):
    """The same from the materialised tree: os.stat and st_dev."""
    home = os.stat(root).st_dev
    through = False
    p = root
    for comp in relpath.split('/')[:-1]:
        p = os.path.join(p, comp)
        try:
            through = through or os.stat(p).st_dev != home
        except FileNotFoundError:
            break
    full = os.path.join(root, relpath)
    try:
        st = os.stat(full)
    except FileNotFoundError:
        return 'missing', None, False, through
    if os.path.isdir(full):
        return 'dir', None, st.st_dev != home, through
    with open(full, 'rb') as f:
        return 'file', f.read(), st.st_dev != home, through


def v_ignore_variants(model, label):
    """-> [(label, ignore paths)]: none; the sibling of the target; every prefix of the target path."""
    path = v_target_path(model, label)
    hp = model.rpath[model.foreign['at']]
    beside = _j(hp, 'f') if (label == 'xobj' or label in V_BENEATH) else _j(hp, 'x')
    comps = path.split('/')
    out = [('none', ()), ('beside', (beside,))]
    for k in range(1, len(comps) + 1):
        out.append((f'pre:{k}', ('/'.join(comps[:k]),)))
    return out


def v_runs(model):
    """Everything family V runs for one foreign placement:
    -> (target label, IGNORE label, ignore paths, entry state[@sub], allow_xdev, API)"""
    xpath = _j(model.rpath[model.foreign['at']], 'x')
    for label in v_targets(model):
        path = v_target_path(model, label)
        what = resolve(model, path)[0]
        states = {'file': ('present', 'stale', 'absent'), 'dir': ('stale', 'absent'),
                  'missing': ('stale', 'absent')}[what]
        for ilabel, ignores in v_ignore_variants(model, label):
            covered = any(under(path, ig) for ig in ignores)
            for loc in (('', '@sub') if label in V_BENEATH else ('',)):
                if loc and any(under(xpath, ig) for ig in ignores):
                    continue            # the sub-Manifest itself would be IGNOREd
                for st in (('absent',) if covered else states):
                    for axd in (True, False):
                        for api in V_APIS:
                            if api == 'update_entry_for_path' and (covered or (what == 'missing' and st == 'absent')):
                                continue        # documented preconditions of update_entry_for_path
                            yield label, ilabel, ignores, st + loc, axd, api


V_OPEN_STRAY = ('single-path verify of a foreign object that no Manifest lists, crossing disallowed: stray-file '
                'rejection or cross-device error, the statement gives no precedence')
V_OPEN_THROUGH = ('single path that leads through a foreign directory to something not on the foreign device, crossing '
                  'disallowed: cross-device error or the ordinary verdict')
V_OPEN_UPDATE_DIR = 'update_entry_for_path of a directory (precondition: regular file); only the cross-device error is excluded'


def v_expect(case, what, foreign, through, covered):
    """-> (allowed outcome classes, reason when more than one, class of the case for the bookkeeping).
    Outcome classes: ok | fail (false verdict / ManifestMismatch) | xdev | other (another gemato exception)."""
    api = case.walker
    st = case.entry.split('@')[0]
    if api in V_VERIFY:
        if what == 'file':
            ordinary = 'ok' if st == 'present' else 'fail'
        elif what == 'dir':
            ordinary = 'fail'
        else:
            ordinary = 'ok' if st == 'absent' else 'fail'
    else:
        ordinary = None if what == 'dir' else 'ok'
    if covered:
        return {'ok'}, None, 'ignored_foreign' if foreign else 'ignored_through' if through else 'ignored_home'
    if foreign and not case.allow_xdev:
        if api in V_VERIFY and st == 'absent':
            return {'xdev', 'fail'}, V_OPEN_STRAY, 'foreign'
        return {'xdev'}, None, 'foreign'
    if through and not case.allow_xdev:
        return ({'xdev', ordinary} if ordinary else {'xdev', 'ok', 'other'}), V_OPEN_THROUGH, 'through'
    cls = 'foreign' if foreign else 'through' if through else 'home'
    if ordinary is None:
        return {'ok', 'other'}, V_OPEN_UPDATE_DIR, cls
    return {ordinary}, None, cls


def v_manifests(case, model, target, what, payload, ignores, disk):
    """Write the Manifest(s) a family-V case starts from.  -> (text of the top-level Manifest, entries that must
    be there after a successful update [tree-root namespace, without MANIFEST/TIMESTAMP])"""
    st, _, loc = case.entry.partition('@')
    listing = ref_walk(model, 0, ignores, True)
    files = {p: d for p, d in listing.files.items() if p != target}
    ign = ignore_entries(ignores)
    if st == 'present':
        if what != 'file':
            raise HarnessError('entry state "present" needs a regular file')
        tent = [rm.file_entry('DATA', target, payload, HASHES)]
    elif st == 'stale':
        tent = [rm.file_entry('DATA', target, V_STALE, HASHES)]
    else:
        tent = []
    after = ign + data_entries(files) + ([rm.file_entry('DATA', target, payload, HASHES)] if what == 'file' else [])
    if not loc:
        top = rm.write(ign + data_entries(files) + tent)
    else:
        xdir = _j(model.rpath[model.foreign['at']], 'x')
        if not under(target, xdir) or target == xdir:
            raise HarnessError('a sub-Manifest entry needs a target beneath the foreign directory')

        def cut(e):
            return (e[0], e[1][len(xdir) + 1:]) + tuple(e[2:])
        sub = [cut(e) for e in data_entries({p: d for p, d in files.items() if under(p, xdir)}) + tent]
        data = rm.write(sub).encode('utf8')
        spath = _j(xdir, TOP)
        disk.write_subm(spath, data)
        top = rm.write(ign + data_entries({p: d for p, d in files.items() if not under(p, xdir)})
                       + [rm.file_entry('MANIFEST', spath, data, HASHES)])
    disk.write_manifest(top)
    return top, after


def execute_path(api, top, target, allow_xdev, limit):
    kw = {} if allow_xdev else {'allow_xdev': False}
    if api == 'verify_path':
        def fn():
            return grl.ManifestRecursiveLoader(top, **kw).verify_path(target)
    elif api == 'assert_path_verifies':
        def fn():
            return grl.ManifestRecursiveLoader(top, **kw).assert_path_verifies(target)
    elif api == 'update_entry_for_path':
        def fn():
            m = grl.ManifestRecursiveLoader(top, hashes=list(HASHES), **kw)
            m.update_entry_for_path(target)
            m.save_manifests()
    else:
        raise ValueError(api)
    _ERRS.items = []
    with budget(limit, False) as b:
        o = gem.call(fn)
    _ERRS.items = []
    return o, b.calls


def v_outcome(api, o):
    """-> (outcome class, text)"""
    if o['kind'] == 'ret':
        v = o['value']
        if api == 'verify_path':
            if isinstance(v, tuple) and len(v) == 2 and isinstance(v[0], bool):
                return ('ok', 'returned (True, ...)') if v[0] else ('fail', 'returned (False, ...)')
            return 'odd', f'returned {v!r}'
        return ('ok', 'returned') if v is None else ('odd', f'returned {v!r}')
    if o['exc'] == 'ManifestCrossDevice':
        return 'xdev', 'ManifestCrossDevice'
    if o['exc'] == 'ManifestMismatch':
        return 'fail', 'ManifestMismatch'
    if o.get('class') == 'gemato':
        return 'other', o['exc']
    if o.get('class') == 'oserror':
        return 'oserror', f'{o["exc"]}:{errno.errorcode.get(o.get("errno"), o.get("errno"))}'
    return 'internal', o['exc']


def v_object(what, foreign, label):
    if label in ('below', 'below2'):
        return 'file_below_foreign_dir'
    return ('foreign_' if foreign else 'home_') + what


def check_path_case(case, disk, stats=None, crosscheck=True):
    """Family V: one call of a single-path API.  -> (violation|None, info)"""
    model = case.model()
    ignores = set(case.ignores)
    api = case.walker
    target = v_target_path(model, case.target)
    what, payload, foreign, through = resolve(model, target)
    covered = any(under(target, ig) for ig in ignores)
    limit = limit_for(model.ndirs())
    disk.apply(model)
    allowed, reason, vcls = v_expect(case, what, foreign, through, covered)
    before, want_after = v_manifests(case, model, target, what, payload, ignores, disk)
    if crosscheck:
        dk = disk_resolve(disk.root, target)
        if dk != (what, payload if what == 'file' else None, foreign, through):
            raise HarnessError(f'model and materialised tree disagree about {target!r}: '
                               f'{(what, payload, foreign, through)} vs {dk} for {case.text(model)}')
    top = os.path.join(disk.root, TOP)
    spath = _j(_j(model.rpath[model.foreign['at']], 'x'), TOP) if case.entry.endswith('@sub') else None
    sub_before = disk.read_subm(spath) if spath else None
    o, calls = execute_path(api, top, target, case.allow_xdev, limit)
    got, got_text = v_outcome(api, o)
    after = disk.read_manifest()
    sub_after = disk.read_subm(spath) if spath else None
    verdict = 'must' if len(allowed) == 1 else 'dontcare'
    info = {'ref': None, 'verdict': verdict, 'must': allowed, 'got': got, 'calls': calls, 'limit': limit,
            'model': model, 'root': disk.root, 'vcls': vcls, 'target_path': target,
            'object': v_object(what, foreign, case.target)}

    def viol(sig, msg):
        return {'sig': dict(sig, walker=api), 'case': case.to_json(), 'message': f'{msg} :: {case.text(model)}'}

    names = {'ok': 'accepted', 'fail': 'rejected (false verdict / ManifestMismatch)', 'xdev': 'ManifestCrossDevice',
             'other': 'another gemato exception'}
    want_text = ' or '.join(names[a] for a in sorted(allowed))
    where = ('the foreign object itself' if case.target == 'xobj' else
             'beneath the foreign directory' if through else 'on the home device')
    v = None
    if got == 'internal' or o.get('exc') in ('BudgetExceeded', 'HardTimeout'):
        res = _lib_res(o, False, spelled(None, disk, model, 0, ''), disk)
        v = termination_violation(res, calls, limit, Ref(), lambda sig, msg: viol(sig, msg), brief(res))
    elif got in allowed:
        if got == 'ok' and api == 'update_entry_for_path' and what != 'dir':
            v = v_judge_written(case, model, disk, after, want_after, target, what, limit, viol, stats)
        elif got != 'ok' and (after != before or sub_after != sub_before) and reason != V_OPEN_THROUGH:
            v = viol({'check': 'manifest_written_despite_error', 'got': got},
                     'a Manifest on disk changed although the operation failed')
    elif got == 'xdev':
        why = 'IGNOREd' if covered else 'on another device, but crossing is allowed' if foreign or through \
            else 'not on another device'
        v = viol({'check': 'false_xdev', 'target': info['object']},
                 f'reference: {target!r} is {why} => {want_text}; {api}: {got_text} for '
                 f'{tree_rel(o.get("path"), spelled(None, disk, model, 0, ""), disk)!r}')
    elif allowed == {'xdev'} or reason == V_OPEN_STRAY:
        v = viol({'check': 'xdev_not_reported', 'got': got, 'target': info['object']},
                 f'reference: {target!r} ({where}) is a {what} on another device, not IGNOREd, crossing disallowed => '
                 f'{want_text}; {api}: {got_text}')
    else:
        v = viol({'check': 'single_path_verdict_wrong', 'got': got, 'target': info['object']},
                 f'reference: {target!r} ({where}; {what}, entry {case.entry}{", IGNOREd" if covered else ""}) => '
                 f'{want_text}; {api}: {got_text}')
    if stats is not None:
        stats.evaluations += 1
        stats.transitions += 1
        if verdict == 'must':
            stats.compared += 1
            cls = next(iter(allowed))
        else:
            stats.dontcare[reason] += 1
            cls = 'dontcare'
        stats.outcomes[f'{api}/{cls}/{got}'] += 1
        stats.counters['budget_use_lt10'] += 1
        if v:
            stats.violation(v['sig'], v['case'], v['message'])
    return v, info


def v_judge_written(case, model, disk, after, want_after, target, what, limit, viol, stats):
    """After a successful update_entry_for_path + save_manifests: the Manifests (top-level + sub-Manifest, paths
    re-based to the tree root) hold exactly the other entries and a correct entry for an existing regular file /
    none for a vanished one; a fresh loader accepts the path."""
    if after is None:
        return viol({'check': 'no_manifest_written'}, 'operation succeeded but there is no Manifest')
    st, ents = rm.parse(after)
    if st != 'ok':
        return viol({'check': 'written_manifest_unparsable', 'why': str(ents)}, f'reference parser: {st} {ents}')
    if case.entry.endswith('@sub'):
        xdir = _j(model.rpath[model.foreign['at']], 'x')
        raw = disk.read_subm(_j(xdir, TOP))
        st2, sub = rm.parse(raw.decode('utf8')) if raw is not None else ('gone', ())
        if st2 != 'ok':
            return viol({'check': 'written_manifest_unparsable', 'why': 'sub-Manifest ' + st2},
                        f'sub-Manifest {_j(xdir, TOP)} after the update: {st2}')
        ents = [e for e in ents if e[0] != 'MANIFEST'] + [
            (e[0], _j(xdir, e[1])) + tuple(e[2:]) for e in sub if e[0] not in ('MANIFEST', 'TIMESTAMP')]
    want = sorted(want_after, key=repr)
    have = sorted((e for e in ents if e[0] != 'TIMESTAMP'), key=repr)
    if have != want:
        wp = {(e[0], e[1]) for e in want}
        hp = {(e[0], e[1]) for e in have}
        missing = sorted(p for _t, p in wp - hp)
        extra = sorted(p for _t, p in hp - wp)
        what_ = 'missing' if missing and not extra else 'extra' if extra and not missing else \
            'missing+extra' if missing else 'wrong_data_or_duplicate'
        return viol({'check': 'written_entries_wrong', 'what': what_},
                    f'written Manifest: missing {missing[:4]}, unexpected {extra[:4]}')
    kw = {} if case.allow_xdev else {'allow_xdev': False}
    with budget(limit, False):
        o = gem.call(lambda: gem.loader(disk.root, **kw).assert_path_verifies(target))
    if stats is not None:
        stats.transitions += 1
    if not (o['kind'] == 'ret' and o['value'] is None):
        return viol({'check': 'fresh_verify_fails', 'got': gem.brief(o)},
                    f'{target!r} does not verify after the update: {gem.brief(o)} {o.get("path")!r}')
    return None


def book_v(stats, case, info):
    """Family V vacuity bookkeeping."""
    c = stats.counters
    c['family_V_executions'] += 1
    xd = 'on' if case.allow_xdev else 'off'
    loc = 'sub' if case.entry.endswith('@sub') else 'top'
    if info['verdict'] != 'must':
        c[f'V_open/{info["vcls"]}/{case.walker}'] += 1
        return
    exp = next(iter(info['must']))
    c[f'V/{case.walker}/{xd}/{info["vcls"]}/{exp}'] += 1
    if exp == 'xdev':
        c[f'V_xdev_target/{case.target}/{case.walker}'] += 1
        c[f'V_xdev_entry/{case.entry}/{case.walker}'] += 1
        c[f'V_xdev_object/{info["object"]}'] += 1
        if case.ilabel != 'none':
            c['V_xdev_with_unrelated_ignore'] += 1
    c[f'V_loc/{loc}/{exp}'] += 1
    if len(stats.samples) < 1 and exp == 'xdev' and case.walker == 'verify_path' and case.target == 'below' \
            and case.entry == 'present':
        stats.sample({'case': case.text(info['model']), 'path_handed_to_the_api': info['target_path'],
                      'names': info['object'], 'expected': 'ManifestCrossDevice', 'gemato': info['got']})


# ---------------------------------------------------------------- features (vacuity bookkeeping)

def features(model, ref):
    out = set()
    links = model.links
    for i, j in enumerate(links):
        if j is None:
            continue
        if j == i:
            out.add('self')
        elif model.is_ancestor(j, i):
            out.add('root' if j == 0 else 'ancestor')
            if model.parents[i] == j:
                out.add('parent')
        elif model.is_ancestor(i, j):
            out.add('descendant')
        else:
            out.add('sibling_or_cousin')
        if j != i and links[j] == i:
            out.add('mutual')
    seen = {}
    for rel, node in ref.visits:
        seen[node] = seen.get(node, 0) + 1
    if any(k > 1 for k in seen.values()):
        out.add('diamond')
    lnames = {model.lname(i) for i in range(model.n)} | {'x', 'back', 'up'} | {
        name for _s, it, name, _t in model.pair_entries() if pair_kind(it) != 'D'}
    for rel, _node in ref.visits + ref.loops:
        if sum(1 for c in rel.split('/') if c in lnames) >= 2:
            out.add('chain')
    if model.foreign and model.foreign['kind'] == 'ino':
        out.add('ino_collision')
    return out


# ---------------------------------------------------------------- enumeration

def ignore_variants(model, fam, start=0, tier='thorough'):
    """-> [(label, ignore paths, hidden holders)]"""
    n = model.n
    out = [('none', (), ())]
    holders = [i for i in range(n) if model.links[i] is not None]
    for i in holders:
        out.append((f'link:{i}', (model.link_path(i),), ()))
    dirs = set()
    anchor = list(holders)
    if model.foreign is not None:
        anchor.append(model.foreign['at'])
        out.append(('x', (_j(model.rpath[model.foreign['at']], 'x'),), ()))
    for i in anchor:
        d = i
        while d != 0:
            dirs.add(d)
            d = model.parents[d]
    for d in sorted(dirs):
        out.append((f'dir:{d}', (model.rpath[d],), ()))
    if fam == 'L' and n <= (3 if tier == 'quick' else 4):
        for i in holders:
            out.append((f'hide:{i}', (), (i,)))
    if fam == 'L' and n <= 4 and not (tier == 'quick' and n == 4 and len(holders) == 4):
        # alias paths: reached through a link; plus one level behind loop-closing paths
        un = ref_walk(model, 0, set(), True)
        real = set(model.rpath) | {model.link_path(i) for i in holders}
        al = set()
        for rel, _node in un.visits + un.loops:
            if rel and rel not in real:
                al.add(rel)
        for rel, node in un.loops:
            for name, kind, _p in model.children(node):
                if kind == 'dir':
                    al.add(_j(rel, name))
        for p in sorted(al):
            out.append((f'alias:{p}', (p,), ()))
    if fam == 'S':
        sp = model.rpath[start]
        out = [v for v in out if not any(under(sp, ig) for ig in v[1])]
    return out


def x_linksets(n, tier):
    if n == 3 and tier == 'thorough':
        return list(linksets(n))
    out = [(None,) * n]
    for i in range(n):
        for j in range(n):
            ls = [None] * n
            ls[i] = j
            out.append(tuple(ls))
    return out


def pair_placements(tier):
    """-> [(n, shape index, holder, loop target kind)] of family P"""
    out = []
    for n in range(2, MAX_N[tier]['P'] + 1):
        for si, parents in enumerate(shapes(n)):
            for h in range(n):
                if pair_sibling(parents, h) is None:
                    continue
                for loop in PAIR_LOOPS:
                    if h == 0 and loop == 'root':
                        continue        # the same tree as 'self'
                    out.append((n, si, h, loop))
    return out


def pair_runs(have_other=True):
    """Everything family P runs in ONE placement: -> (a, b, order, allow_xdev, walker)"""
    for a in PAIR_ITEMS:
        for b in PAIR_ITEMS:
            has_x = 'X' in (pair_kind(a), pair_kind(b))
            if has_x and not have_other:
                continue
            has_ign = 'ignore' in (pair_prune(a), pair_prune(b))
            for order in PAIR_ORDERS:
                for axd in ((True, False) if has_x else (True,)):
                    for walker in WALKERS_L:
                        if walker == 'create' and has_ign:
                            continue
                        yield a, b, order, axd, walker


def r_parts(tier):
    """-> [(n, shape index, part, sub, deep_only)] of family R; part L/S: sub = link-set prefix, X: holder"""
    mx = MAX_N[tier]
    out = []
    for n in range(1, mx['R'] + 2):
        deep = n > mx['R']
        for si, parents in enumerate(shapes(n)):
            if deep and not any(Model(parents, (None,) * n, [''] * n).depth(c) == n - 1 for c in range(n)):
                continue
            k = 0 if n <= 1 else 1
            for part in ('L', 'S'):
                if part == 'S' and n < 2:
                    continue
                for prefix in itertools.product([None] + list(range(n)), repeat=k):
                    out.append((n, si, part, tuple(prefix), deep))
            if n <= mx['RX']:
                for at in range(n):
                    out.append((n, si, 'X', at, False))
    return out


def r_runs(tier, n, parents, part, sub, deep, names=None):
    """Everything family R runs in one part: -> (links, ignores, ilabel, start, foreign, allow_xdev, walker, spelling)"""
    names = names or [''] + [str(i) for i in range(1, n)]
    if part == 'X':
        foreigns = [{'at': sub, 'kind': k} for k in RX_KINDS[tier]]
        lsets = [(None,) * n]
    else:
        foreigns = [None]
        lsets = list(linksets(n, sub))
        if deep:
            lsets = [ls for ls in lsets if sum(1 for x in ls if x is not None) <= DEEP_LINKS[tier]]
    for foreign in foreigns:
        for links in lsets:
            base = Model(parents, links, names, (), foreign)
            starts = list(range(1, n)) if part == 'S' else [0]
            if part == 'X' and foreign['kind'] != 'file':
                starts.append('X')
            for start in starts:
                variants = [('none', (), ())] if start == 'X' else \
                    ignore_variants(base, 'S' if part == 'S' else 'R', start, tier)
                for ilabel, ignores, _hidden in variants:
                    for axd in ((True, False) if part == 'X' else (True,)):
                        walkers = WALKERS_XS if start == 'X' else WALKERS_X if part == 'X' else \
                            WALKERS_RL if part == 'L' else WALKERS_RS
                        for walker in walkers:
                            if walker == 'create' and ignores:
                                continue
                            for spell in spellings_for(base, start, walker, deep, walker in CLI3 and part != 'X'):
                                yield links, ignores, ilabel, start, foreign, axd, walker, spell


def u_placements(tier):
    """-> [(n, shape index, holder of the foreign link, directory of the sub-Manifest)]"""
    return [(n, si, at, m) for n in range(2, MAX_N[tier]['U'] + 1) for si, _p in enumerate(shapes(n))
            for at in range(n) for m in range(1, n)]


def u_runs(tier, n):
    """Everything family U runs in one placement:
    -> (foreign kind, compression, registered, listing order, IGNORE label, allow_xdev, walker, history)"""
    for kind in U_KINDS:
        for comp in SUBM_COMPS:
            for order in PAIR_ORDERS:
                for ilabel in ('none', 'x'):
                    for axd in (False, True):
                        for walker, reg in U_SINGLES:
                            if walker == 'create' and ilabel != 'none':
                                continue
                            yield kind, comp, reg, order, ilabel, axd, walker, None
                if n > MAX_N[tier]['UH'] or (tier == 'quick' and n > 2 and comp is not None):
                    continue
                for reg in (False, True):
                    for op1 in HIST_OPS:
                        for s1 in range(n):
                            for op2 in HIST_OPS:
                                yield kind, comp, reg, order, 'none', False, 'hist', ((op1, s1), (op2, 0))


def v_placements(tier):
    """-> [(n, shape index, holder of the foreign object, kind)] of family V"""
    return [(n, si, at, kind) for n in range(1, MAX_N[tier]['V'] + 1) for si, _p in enumerate(shapes(n))
            for at in range(n) for kind in V_KINDS]


def u_order(case, model):
    """Which of {sub-Manifest, foreign object} a top-down walk under this case's listing order meets
    first (a directory's files are looked at when the directory is visited)."""
    seen = {}
    tick = [0]

    def visit(node):
        tick[0] += 1
        t = tick[0]
        ch = model.children(node)
        for _name, kind, _p in ch:
            if kind == 'subm':
                seen.setdefault('subm', t)
            elif kind == 'xfile':
                seen.setdefault('foreign', t)
        for _name, _kind, payload in sorted((x for x in ch if x[1] == 'dir'), key=lambda x: x[0],
                                            reverse=case.reverse()):
            if payload == 'X':
                tick[0] += 1
                seen.setdefault('foreign', tick[0])
            else:
                visit(payload)

    visit(0)
    a, b = seen.get('subm'), seen.get('foreign')
    if a is None or b is None:
        return 'n/a'
    return 'same_dir' if a == b else 'subm_first' if a < b else 'foreign_first'


def shards(tier, seed):
    out = []
    mx = MAX_N[tier]
    for n, si, part, sub, deep in r_parts(tier):
        out.append(('R', n, si, (part, sub, deep), sum(1 for _ in r_runs(tier, n, shapes(n)[si], part, sub, deep)) // 8))
    for n, si, at, m in u_placements(tier):
        out.append(('U', n, si, (at, m), sum(1 for _ in u_runs(tier, n)) // 6))
    per_placement = sum(1 for _ in pair_runs())
    for n, si, h, loop in pair_placements(tier):
        out.append(('P', n, si, (h, loop), per_placement // 5))
    for n in range(1, mx['L'] + 1):
        for si, _p in enumerate(shapes(n)):
            k = 0 if n <= 2 else 1 if n == 3 else 2
            for prefix in itertools.product([None] + list(range(n)), repeat=k):
                out.append(('L', n, si, tuple(prefix), ((n + 1) ** (n - k)) * (n ** 2 if n <= 4 else n)))
    for n in range(2, mx['S'] + 1):
        for si, _p in enumerate(shapes(n)):
            k = 0 if n <= 2 else 1
            for prefix in itertools.product([None] + list(range(n)), repeat=k):
                out.append(('S', n, si, tuple(prefix), ((n + 1) ** (n - k)) * n))
    for n in range(1, mx['X'] + 1):
        for si, _p in enumerate(shapes(n)):
            for at in range(n):
                for kind in KINDS:
                    out.append(('X', n, si, (at, kind), len(x_linksets(n, tier)) * 6))
    for n, si, at, kind in v_placements(tier):
        out.append(('V', n, si, (at, kind), 40 + 10 * n))
    # tiny trees first (their witnesses are the minimal ones and are retained first), then big shards first
    out.sort(key=lambda s: (s[1] > 2, s[0] != 'L', -s[1]) if s[1] <= 2 else (True, False, -s[4]))
    return [s[:4] for s in out]


def _sig_alarm_ready():
    signal.signal(signal.SIGALRM, _on_alarm)


def run_shard(spec, tier, seed, scratch):
    fam, n, si, sub = spec
    stats = Stats()
    install_proxy()
    _sig_alarm_ready()
    parents = shapes(n)[si]
    names = names_for(seed, n)
    other = None
    cross_every = 1 if tier == 'quick' else 8
    serial = 0
    try:
        if fam == 'X':
            other = second_fs(scratch)
            if other is None:
                stats.notes.append('family X skipped: tempfile.gettempdir() is on the same device as the scratch')
                stats.counters['xdev_skipped'] += 1
                return stats
        if fam == 'P':
            other = second_fs(scratch)
            if other is None:
                stats.notes.append('family P: pairs with a foreign link skipped (no second filesystem)')
                stats.counters['xdev_skipped'] += 1
        if fam in ('U', 'V') or (fam == 'R' and sub[0] == 'X'):
            other = second_fs(scratch)
            if other is None:
                stats.notes.append(f'family {fam}: foreign placements skipped (no second filesystem)')
                stats.counters['xdev_skipped'] += 1
                return stats
        disk = Disk(scratch, parents, names, seed, other)
        try:
            if fam == 'R':
                part, rsub, deep = sub
                for links, ignores, ilabel, start, foreign, axd, walker, spell in r_runs(
                        tier, n, parents, part, rsub, deep, names):
                    case = Case(fam, parents, links, (), ignores, ilabel, start, foreign, axd, walker, seed,
                                spell=spell)
                    serial += 1
                    v, info = check_case(case, disk, stats, crosscheck=(serial % cross_every == 0))
                    book(stats, case, info, v)
                lsets = ()
            elif fam == 'U':
                at, m = sub
                nolinks = (None,) * n
                for kind, comp, reg, order, ilabel, axd, walker, hist in u_runs(tier, n):
                    foreign = {'at': at, 'kind': kind}
                    subm = {'at': m, 'comp': comp, 'reg': reg}
                    ignores = (_j(Model(parents, nolinks, names).rpath[at], 'x'),) if ilabel == 'x' else ()
                    case = Case(fam, parents, nolinks, (), ignores, ilabel, 0, foreign, axd, walker, seed,
                                order=order, subm=subm, hist=hist)
                    serial += 1
                    v, info = check_case(case, disk, stats, crosscheck=(serial % cross_every == 0))
                    book(stats, case, info, v)
                lsets = ()
            elif fam == 'V':
                at, kind = sub
                nolinks = (None,) * n
                foreign = {'at': at, 'kind': kind}
                for label, ilabel, ignores, entry, axd, api in v_runs(Model(parents, nolinks, names, (), foreign)):
                    case = Case(fam, parents, nolinks, (), ignores, ilabel, 0, foreign, axd, api, seed,
                                target=label, entry=entry)
                    serial += 1
                    v, info = check_case(case, disk, stats, crosscheck=(serial % cross_every == 0))
                    book(stats, case, info, v)
                lsets = ()
            elif fam == 'P':
                holder, loop = sub
                nolinks = (None,) * n
                for a, b, order, axd, walker in pair_runs(other is not None):
                    pair = {'at': holder, 'items': [a, b], 'loop': loop, 'sib': pair_sibling(parents, holder)}
                    ignores = Model(parents, nolinks, names, (), None, pair).pair_ignores()
                    case = Case(fam, parents, nolinks, (), ignores, f'pair:{a}+{b}', 0, None, axd, walker, seed,
                                pair, order)
                    serial += 1
                    v, info = check_case(case, disk, stats, crosscheck=(serial % cross_every == 0))
                    book(stats, case, info, v)
                lsets = ()
            elif fam == 'X':
                at, kind = sub
                foreign = {'at': at, 'kind': kind}
                lsets = x_linksets(n, tier)
            else:
                foreign = None
                lsets = linksets(n, sub)
            for links in lsets:
                base = Model(parents, links, names, (), foreign)
                starts = [0] if fam != 'S' else list(range(1, n))
                if fam == 'X' and foreign['kind'] != 'file':
                    starts.append('X')
                for start in starts:
                    variants = ignore_variants(base, fam, start, tier) if start != 'X' else [('none', (), ())]
                    for ilabel, ignores, hidden in variants:
                        for axd in ((True, False) if fam == 'X' else (True,)):
                            walkers = WALKERS_XS if start == 'X' else WALKERS_X if fam == 'X' else \
                                WALKERS_L if fam == 'L' else WALKERS_S
                            if fam == 'L' and n >= 5 and ilabel != 'none':
                                walkers = WALKERS_L5
                            for walker in walkers:
                                if walker == 'create' and ignores:
                                    continue
                                case = Case(fam, parents, links, hidden, ignores, ilabel, start, foreign,
                                            axd, walker, seed)
                                serial += 1
                                v, info = check_case(case, disk, stats, crosscheck=(serial % cross_every == 0))
                                book(stats, case, info, v)
        finally:
            disk.clear()
    finally:
        PROXY.fake = None
        if other is not None:
            shutil.rmtree(other, ignore_errors=True)
    stats.counters['family_' + fam] += 1
    stats.counters['proxy_stat_calls'] += PROXY.calls
    stats.counters['proxy_ino_rewrites'] += PROXY.rewrites
    PROXY.calls = PROXY.rewrites = 0
    return stats


SAMPLE_WANT = ('mutual', 'diamond', 'self', 'root', 'chain', 'ino_collision')


def book(stats, case, info, v):
    ref, model = info['ref'], info['model']
    has_obj = any(x is not None for x in case.links) or case.foreign is not None or case.pair is not None
    stats.case(case.desc(), nontrivial=has_obj and info['verdict'] == 'must')
    c = stats.counters
    w = case.walker
    if case.pair is not None:
        book_pair(stats, case, info)
        return
    c['fam_got/%s/%s' % (case.fam, info['got'] if case.hist is None else 'hist')] += 1
    if case.fam == 'V':
        book_v(stats, case, info)
        return
    if case.subm is not None:
        book_u(stats, case, info)
        return
    if case.fam == 'R':
        book_spell(stats, case, info)
    if info['verdict'] == 'must':
        c[f'{w}/{"loop" if ref.loops else "noloop"}'] += 1
        if ref.xhits:
            c[f'{w}/xdev_must_raise'] += 1
            c['xdev_must_raise'] += 1
        if case.foreign is not None and case.allow_xdev and not ref.loops:
            c['xdev_allowed_walked'] += 1
        if case.foreign is not None and not case.allow_xdev and not ref.xhits and not ref.loops:
            c['xdev_ignored'] += 1
    if w == 'verify_strict':
        fe = features(model, ref)
        tag = 'loop' if ref.loops else 'noloop'
        for f in fe:
            c[f'feat_{f}_{tag}'] += 1
        if case.ignores and not ref.loops and ref_walk(model, case.start, set(), True).loops:
            c['feat_loop_pruned_by_ignore'] += 1
        if case.ilabel.startswith('alias:') and ref.loops:
            c['feat_loop_survives_alias_ignore'] += 1
        if case.hidden:
            c['feat_hidden_link'] += 1
        if len(stats.samples) < 2 and has_obj:
            want = SAMPLE_WANT[(len(case.links) + sum(1 for x in case.links if x is not None)
                                + (case.foreign['at'] if case.foreign else 0)) % len(SAMPLE_WANT)]
            if want in fe:
                stats.sample({'case': case.text(model),
                              'reference_walk': [r or '.' for r, _ in ref.visits],
                              'loop_closing_paths': [r for r, _ in ref.loops],
                              'foreign_hits': ref.xhits,
                              'manifest_for_verify': rm.write(ignore_entries(case.ignores) + data_entries(
                                  ref_walk(model, case.start, set(case.ignores), True).files)),
                              'expected': sorted(info['must']) or 'terminates, no loop/cross-device error, files verify',
                              'gemato': info['got'], 'scandir_calls': info['calls'], 'budget': info['limit']})


def _no_scratch(x, disk_root):
    base = os.path.dirname(disk_root)
    return x.replace(base, '<scratch>') if isinstance(x, str) else x


def book_spell(stats, case, info):
    """Family R vacuity bookkeeping: per spelling class x {library, CLI} x reference verdict."""
    ref = info['ref']
    c = stats.counters
    c['family_R_executions'] += 1
    if info['verdict'] != 'must':
        return
    cls = spell_class(case.spell)
    how = 'cli' if case.walker in CLI_WALKERS else 'lib'
    kind = 'xdev' if ref.xhits and not case.allow_xdev else 'loop' if ref.loops else 'noloop'
    c[f'spell/{cls}/{how}/{kind}'] += 1
    c[f'spell_walker/{case.walker}/{kind}'] += 1
    if case.start != 0:
        c[f'spell_substart/{how}/{kind}'] += 1
    if (len(stats.samples) < 1 and ref.loops and cls in ('ddrel', 'cwd', 'rel') and case.walker in ('update', 'cli_update')
            and case.start != 0):
        sp = info['spelled']
        stats.sample({'case': case.text(info['model']), 'cwd': _no_scratch(sp.cwd, info['root']),
                      'top_level_Manifest_given_to_loader': _no_scratch(sp.top, info['root']),
                      'cli_path_argument': _no_scratch(sp.target, info['root']),
                      'loop_closing_paths': [r for r, _ in ref.loops],
                      'expected': sorted(info['must']), 'gemato': info['got']})


def book_u(stats, case, info):
    """Family U vacuity bookkeeping."""
    ref, model = info['ref'], info['model']
    c = stats.counters
    c['family_U_executions'] += 1
    if info['verdict'] != 'must':
        return
    w = case.walker
    cls = 'xdev' if info['must'] else 'pass'
    sm = case.subm
    if case.hist is not None:
        ops = ','.join(op for op, _st in case.hist)
        c[f'U_hist/{ops}/{cls}'] += 1
        first = ref_walk(model, case.hist[0][1], set(case.ignores), case.allow_xdev)
        if cls == 'xdev' and not first.xhits:
            c['U_hist_first_call_clean_then_must_raise'] += 1
            if first.subms:
                c['U_hist_first_call_loads_sub_manifest_only'] += 1
    else:
        c[f'U/{w}/{cls}'] += 1
    if cls == 'xdev':
        c[f'U_order/{u_order(case, model)}/{w}'] += 1
        c[f'U_subm/{"registered" if sm["reg"] else "unregistered"}/{sm["comp"] or "plain"}/{w}'] += 1
        rel = 'same' if sm['at'] == case.foreign['at'] else \
            'subm_above_foreign' if model.is_ancestor(sm['at'], case.foreign['at']) else \
            'foreign_above_subm' if model.is_ancestor(case.foreign['at'], sm['at']) else 'apart'
        c[f'U_position/{rel}'] += 1
    if len(stats.samples) < 1 and cls == 'xdev' and w == 'update' and not sm['reg'] \
            and u_order(case, model) == 'subm_first':
        stats.sample({'case': case.text(model), 'reference_walk': [r or '.' for r, _ in ref.visits],
                      'sub_manifests_met': ref.subms, 'foreign_hits': ref.xhits,
                      'met_first_in_a_top_down_walk': 'sub-Manifest',
                      'expected': sorted(info['must']), 'gemato': info['got']})


def book_pair(stats, case, info):
    """Family P vacuity bookkeeping.  "first" is the entry the scandir wrapper really lists
    first in this execution (derived from the names and the order, not from the slot)."""
    ref, model = info['ref'], info['model']
    c = stats.counters
    w = case.walker
    c['family_P_executions'] += 1
    if info['verdict'] != 'must':
        return
    by_name = {name: it for _s, it, name, _t in model.pair_entries()}
    listed = [by_name[nm] for nm in pair_listing(case, model) if nm in by_name]
    where = 'root' if case.pair['at'] == 0 else 'sub'
    if all(it in PAIR_PRUNABLE for it in listed):
        # nothing of the pair may be entered: the reference verdict must be a clean pass
        if info['must'] or ref.loops or ref.xhits:
            raise HarnessError(f'reference enters a pruned family-P entry: {case.text(model)}')
        c[f'pair/{w}/{case.order}/{where}'] += 1
        c[f'pair_first/{w}/{listed[0]}'] += 1
        c[f'pair_second/{w}/{listed[1]}'] += 1
        if ref_walk(Model(case.parents, case.links, model.names, (), None,
                          dict(case.pair, items=[it[-1] for it in case.pair['items']])),
                    0, set(), case.allow_xdev).key() != ref.key():
            c[f'pair_pruning_matters/{w}'] += 1
        if 'IX' in listed and not case.allow_xdev:
            c[f'pair_xdev_off_ignored/{w}'] += 1
    else:
        c['pair_control/' + ('loop' if ref.loops else 'xdev' if ref.xhits else 'walked')] += 1
    if len(stats.samples) < 2 and ((w == 'verify_strict' and listed == ['ID', 'IL'])
                                   or (w == 'update' and listed == ['HD', 'IX'] and not case.allow_xdev)):
        stats.sample({'case': case.text(model), 'listing_of_holder': pair_listing(case, model),
                      'reference_walk': [r or '.' for r, _ in ref.visits],
                      'loop_closing_paths': [r for r, _ in ref.loops], 'foreign_hits': ref.xhits,
                      'expected': sorted(info['must']) or 'terminates, no loop/cross-device error, files verify',
                      'gemato': info['got'], 'scandir_calls': info['calls'], 'budget': info['limit']})


# ---------------------------------------------------------------- replay

def replay(case, scratch):
    install_proxy()
    _sig_alarm_ready()
    cs = Case.from_json(case)
    other = None
    try:
        if cs.foreign is not None or (cs.pair is not None and cs.model().xkind() is not None):
            other = second_fs(scratch)
            if other is None:
                raise HarnessError('replay needs a second filesystem at tempfile.gettempdir()')
        disk = Disk(scratch, cs.parents, names_for(cs.seed, len(cs.parents)), cs.seed, other)
        try:
            v, _info = check_case(cs, disk, None, crosscheck=True)
        finally:
            disk.clear()
    finally:
        PROXY.fake = None
        if other is not None:
            shutil.rmtree(other, ignore_errors=True)
    return [v] if v else []


# ---------------------------------------------------------------- self checks

def setup(tier, seed, base):
    if os.path.realpath(base) != base:
        raise HarnessError(f'scratch base {base!r} contains symlinks')
    d = base
    while True:
        d = os.path.dirname(d)
        for nm in ('Manifest', 'Manifest.gz', 'Manifest.bz2', 'Manifest.lzma', 'Manifest.xz'):
            if os.path.lexists(os.path.join(d, nm)):
                raise HarnessError(f'{os.path.join(d, nm)!r} exists above the scratch directory '
                                   '(`gemato verify` would pick it up)')
        if d == '/':
            break


def finish(total, tier):
    errs = []
    c = total.counters
    for w in WALKERS_L:
        for k in ('loop', 'noloop'):
            if not c.get(f'{w}/{k}'):
                errs.append(f'vacuity: walker {w}: no case with reference verdict {k!r}')
    need = {
        'feat_self_loop': 'self-link loop', 'feat_parent_loop': 'link to the parent',
        'feat_ancestor_loop': 'link to a non-root ancestor', 'feat_root_loop': 'link to the tree root',
        'feat_mutual_loop': 'mutual pair of links (loop at the second level)',
        'feat_sibling_or_cousin_noloop': 'link to a sibling without loop',
        'feat_descendant_noloop': 'link to a descendant without loop',
        'feat_diamond_noloop': 'diamond: one directory reached by two paths, no loop',
        'feat_chain_noloop': 'chain of links without loop', 'feat_chain_loop': 'chain of links closing a loop',
        'feat_loop_pruned_by_ignore': 'loop removed by an IGNORE entry',
        'feat_loop_survives_alias_ignore': 'loop that survives an IGNORE on one of its alias paths',
        'feat_hidden_link': 'hidden (dot-named) link',
    }
    for k, what in need.items():
        if not c.get(k):
            errs.append(f'vacuity: never seen: {what}')
    if not c.get('xdev_skipped'):
        for k, what in {'xdev_must_raise': 'foreign object with crossing disallowed',
                        'xdev_allowed_walked': 'foreign object with crossing allowed',
                        'xdev_ignored': 'IGNOREd foreign object with crossing disallowed',
                        'feat_ino_collision_noloop': 'foreign directory with an ancestor\'s inode number',
                        'proxy_ino_rewrites': 'inode rewrite by the os proxy (proxy not in effect?)'}.items():
            if not c.get(k):
                errs.append(f'vacuity: never seen: {what}')
        for w in WALKERS_X:
            if not c.get(f'{w}/xdev_must_raise'):
                errs.append(f'vacuity: walker {w}: no cross-device case')
    else:
        errs.append('no second filesystem: tempfile.gettempdir() is on the scratch device, family X did not run')
    # ---- family P: every prunable entry listed first AND second next to another prunable one, under
    #      both listing orders, in the root and in a sub-directory, for every walker
    have_other = not c.get('xdev_skipped')
    for w in WALKERS_L:
        menu = [it for it in PAIR_PRUNABLE if (w != 'create' or pair_prune(it) == 'hidden')
                and (have_other or pair_kind(it) != 'X')]
        for order in PAIR_ORDERS:
            for where in ('root', 'sub'):
                if not c.get(f'pair/{w}/{order}/{where}'):
                    errs.append(f'vacuity: walker {w}: no pair of adjacent prunable entries in the {where} '
                                f'directory under {order} listing')
        for it in menu:
            for pos in ('first', 'second'):
                if not c.get(f'pair_{pos}/{w}/{it}'):
                    errs.append(f'vacuity: walker {w}: prunable entry {it} never listed {pos} of an adjacent pair')
        if not c.get(f'pair_pruning_matters/{w}'):
            errs.append(f'vacuity: walker {w}: no pair case whose verdict depends on the pruning')
        if have_other and w != 'create' and not c.get(f'pair_xdev_off_ignored/{w}'):
            errs.append(f'vacuity: walker {w}: no IGNOREd foreign link in a pair with crossing disallowed')
    for k in ('loop', 'walked') + (('xdev',) if have_other else ()):
        if not c.get(f'pair_control/{k}'):
            errs.append(f'vacuity: family P: no unpruned control pair with reference outcome {k!r}')
    want_p = len(pair_placements(tier)) * sum(1 for _ in pair_runs(have_other))
    # (count equalities hold for a complete exploration only: a shard that stops early on too many
    #  violations sets total.capped, and the framework then marks the evidence as not exhaustive)
    if c.get('family_P_executions', 0) != want_p and not total.capped:
        errs.append(f'family P ran {c.get("family_P_executions", 0)} executions, re-enumeration gives {want_p}')
    # ---- family R: every spelling class, through the library and through the CLI, with a loop expected, with
    #      none, and with a foreign object; sub-path starts; more than one observed outcome
    for cls in SPELL_CLASSES:
        for how in (('cli',) if cls == 'rel' else ('lib', 'cli')):
            for kind in ('loop', 'noloop') + (('xdev',) if have_other and cls != 'rel' else ()):
                if not c.get(f'spell/{cls}/{how}/{kind}'):
                    errs.append(f'vacuity: family R: spelling {cls!r} via {how}: no case with reference outcome {kind!r}')
    for w in WALKERS_X:
        for kind in ('loop', 'noloop') + (('xdev',) if have_other else ()):
            if not c.get(f'spell_walker/{w}/{kind}'):
                errs.append(f'vacuity: family R: walker {w}: no spelt case with reference outcome {kind!r}')
    for how in ('lib', 'cli'):
        for kind in ('loop', 'noloop'):
            if not c.get(f'spell_substart/{how}/{kind}'):
                errs.append(f'vacuity: family R: no sub-path start via {how} with reference outcome {kind!r}')
    want_r = sum(1 for n, si, part, sub, deep in r_parts(tier) if have_other or part != 'X'
                 for _ in r_runs(tier, n, shapes(n)[si], part, sub, deep))
    if c.get('family_R_executions', 0) != want_r and not total.capped:
        errs.append(f'family R ran {c.get("family_R_executions", 0)} executions, re-enumeration gives {want_r}')
    # ---- family U
    if have_other:
        for w in sorted({w for w, _reg in U_SINGLES}):
            for kind in ('xdev', 'pass'):
                if not c.get(f'U/{w}/{kind}'):
                    errs.append(f'vacuity: family U: walker {w}: no case with reference outcome {kind!r}')
            orders = ('subm_first', 'foreign_first') + (('same_dir',) if w != 'unregistered' else ())
            for o in orders:
                if not c.get(f'U_order/{o}/{w}'):
                    errs.append(f'vacuity: family U: walker {w}: no must-raise case where a top-down walk meets {o}')
        for w, isreg in U_SINGLES:
            reg = 'registered' if isreg else 'unregistered'
            for comp in ('plain', 'gz'):
                if not c.get(f'U_subm/{reg}/{comp}/{w}'):
                    errs.append(f'vacuity: family U: walker {w}: no must-raise case with a {reg} {comp} sub-Manifest')
        for o1 in HIST_OPS:
            for o2 in HIST_OPS:
                if not c.get(f'U_hist/{o1},{o2}/xdev'):
                    errs.append(f'vacuity: family U: no history {o1},{o2} whose last call must raise')
        for k, what in {'U_hist_first_call_clean_then_must_raise': 'a first call that meets nothing foreign',
                        'U_hist_first_call_loads_sub_manifest_only': 'a first call that only loads the sub-Manifest',
                        'U_position/same': 'sub-Manifest in the directory holding the foreign link',
                        'U_position/subm_above_foreign': 'sub-Manifest above the foreign link',
                        'U_position/foreign_above_subm': 'foreign link above the sub-Manifest',
                        'U_position/apart': 'sub-Manifest and foreign link in unrelated directories'}.items():
            if not c.get(k):
                errs.append(f'vacuity: family U: never seen: {what}')
        want_u = sum(1 for n, _si, _at, _m in u_placements(tier) for _ in u_runs(tier, n))
        if c.get('family_U_executions', 0) != want_u and not total.capped:
            errs.append(f'family U ran {c.get("family_U_executions", 0)} executions, re-enumeration gives {want_u}')
    # ---- family V: every API must-raise / accept / reject on the home device, on the foreign device with crossing
    #      allowed, with an IGNOREd foreign object; every target and entry state among the must-raise cases
    if have_other:
        for api in V_APIS:
            ver = api in V_VERIFY
            needs = [('off/foreign/xdev', 'foreign object, crossing disallowed: must raise'),
                     ('on/foreign/ok', 'foreign object accepted with crossing allowed'),
                     ('on/through/ok', 'path through a foreign directory accepted with crossing allowed'),
                     ('off/home/ok', 'home-device object accepted in one-file-system mode'),
                     ('on/home/ok', 'home-device object accepted')]
            if ver:
                needs += [('off/ignored_foreign/ok', 'IGNOREd foreign object in one-file-system mode'),
                          ('off/ignored_through/ok', 'IGNOREd path through a foreign directory in one-file-system mode'),
                          ('off/ignored_home/ok', 'IGNOREd home-device path'),
                          ('off/home/fail', 'home-device object rejected in one-file-system mode'),
                          ('on/foreign/fail', 'foreign object rejected with crossing allowed')]
            for k, what in needs:
                if not c.get(f'V/{api}/{k}'):
                    errs.append(f'vacuity: family V: {api}: never seen: {what}')
            for label in ('xobj', 'below', 'xsub', 'below2'):
                if not c.get(f'V_xdev_target/{label}/{api}'):
                    errs.append(f'vacuity: family V: {api}: no must-raise case for target {label!r}')
            for st in ('present', 'stale', 'present@sub', 'stale@sub') + (() if ver else ('absent', 'absent@sub')):
                if not c.get(f'V_xdev_entry/{st}/{api}'):
                    errs.append(f'vacuity: family V: {api}: no must-raise case with entry state {st!r}')
            for cls in ('foreign', 'through') if ver else ('through',):
                if not c.get(f'V_open/{cls}/{api}'):
                    errs.append(f'vacuity: family V: {api}: no open case of class {cls!r}')
        for obj in ('foreign_file', 'foreign_dir', 'file_below_foreign_dir'):
            if not c.get(f'V_xdev_object/{obj}'):
                errs.append(f'vacuity: family V: no must-raise case for a {obj}')
        for k in ('V_xdev_with_unrelated_ignore', 'V_loc/sub/xdev', 'V_loc/sub/ok', 'V_loc/sub/fail', 'V_loc/top/fail'):
            if not c.get(k):
                errs.append(f'vacuity: family V: never seen: {k}')
        want_v = 0
        for n, si, at, kind in v_placements(tier):
            want_v += sum(1 for _ in v_runs(Model(shapes(n)[si], (None,) * n, names_for(0, n), (),
                                                  {'at': at, 'kind': kind})))
        if c.get('family_V_executions', 0) != want_v and not total.capped:
            errs.append(f'family V ran {c.get("family_V_executions", 0)} executions, re-enumeration gives {want_v}')
    for fam in ('R', 'U', 'V'):
        if len([k for k in c if k.startswith(f'fam_got/{fam}/')]) < 2 and (fam == 'R' or have_other):
            errs.append(f'vacuity: family {fam} produced fewer than two outcome classes')
    if c.get('budget_exceeded'):
        errs.append(f'the os.scandir budget was exhausted {c["budget_exceeded"]} times: a walker that does not '
                    'terminate (see the violations) or a budget that is too small')
    if len(total.states) != total.evaluations and not total.capped:
        errs.append(f'case descriptors are not distinct: {len(total.states)} digests for {total.evaluations} executions')
    if total.compared < total.evaluations * 0.8:
        errs.append('vacuity: more than 20% of the executions are DONT_CARE')
    return errs


def extra_evidence(total, tier):
    c = total.counters
    mx = MAX_N[tier]
    return {
        'shapes_per_n': {str(n): [shape_text(p) for p in shapes(n)] for n in range(1, mx['L'] + 1)},
        'link_sets_family_L': {str(n): len(shapes(n)) * (n + 1) ** n for n in range(1, mx['L'] + 1)},
        'max_directories': mx,
        'family_P': {
            'placements (n, shape, holder, loop target)': [
                f'{shape_text(shapes(n)[si])} holder={h} loop->{lp}' for n, si, h, lp in pair_placements(tier)],
            'ordered_pairs': len(PAIR_ITEMS) ** 2, 'items': list(PAIR_ITEMS), 'prunable': list(PAIR_PRUNABLE),
            'listing_orders': list(PAIR_ORDERS), 'executions': c.get('family_P_executions', 0),
            'example_tree': Model((None, 0), (None, None), names_for(0, 2), (), None,
                                  {'at': 0, 'items': ['ID', 'IL'], 'loop': 'self', 'sib': 1}).text()
            + '  => IGNORE +p, IGNORE 0q; expected: every walker ends without loop error under both listing orders',
            'adjacent_prunable_pairs_per_walker': {
                w: sum(v for k, v in c.items() if k.startswith(f'pair/{w}/')) for w in WALKERS_L},
        },
        'family_R': {
            'executions': c.get('family_R_executions', 0),
            'spellings_of_a_3_directory_chain': spellings_for(
                Model((None, 0, 1), (None,) * 3, names_for(0, 3)), 1, 'cli_update', False, True),
            'per_spelling_class/how/reference_outcome': {
                k[6:]: v for k, v in sorted(c.items()) if k.startswith('spell/')},
            'sub_path_starts': {k[15:]: v for k, v in sorted(c.items()) if k.startswith('spell_substart/')},
            'parts (n, shape, part, sub, deep-only)': len(r_parts(tier)),
        },
        'family_U': {
            'executions': c.get('family_U_executions', 0),
            'placements (n, shape, foreign holder, sub-Manifest directory)': len(u_placements(tier)),
            'single_walkers (walker, sub-Manifest registered)': [list(x) for x in U_SINGLES],
            'histories': {k[7:]: v for k, v in sorted(c.items()) if k.startswith('U_hist/')},
            'first_call_meets_nothing_foreign_then_must_raise': c.get('U_hist_first_call_clean_then_must_raise', 0),
            'met_first_by_a_top_down_walk (must-raise cases)': {
                o: sum(v for k, v in c.items() if k.startswith(f'U_order/{o}/'))
                for o in ('subm_first', 'foreign_first', 'same_dir')},
            'positions': {k[11:]: v for k, v in sorted(c.items()) if k.startswith('U_position/')},
        },
        'family_V': {
            'executions': c.get('family_V_executions', 0),
            'placements (n, shape, holder, foreign kind)': len(v_placements(tier)),
            'apis': list(V_APIS),
            'targets_of_a_dirsub_placement': {
                lb: v_target_path(Model((None, 0), (None, None), names_for(0, 2), (), {'at': 1, 'kind': 'dirsub'}), lb)
                for lb in v_targets(Model((None, 0), (None, None), names_for(0, 2), (), {'at': 1, 'kind': 'dirsub'}))},
            'per api/allow_xdev/class of the named object/reference outcome': {
                k[2:]: v for k, v in sorted(c.items()) if k.startswith('V/')},
            'must_raise_by_target': {k[14:]: v for k, v in sorted(c.items()) if k.startswith('V_xdev_target/')},
            'must_raise_by_entry_state': {k[13:]: v for k, v in sorted(c.items()) if k.startswith('V_xdev_entry/')},
            'open (DONT_CARE) by class/api': {k[7:]: v for k, v in sorted(c.items()) if k.startswith('V_open/')},
        },
        'budget': '20*n*n+50 os.scandir calls per execution; use histogram: ' + ', '.join(
            f'{k[11:]}={v}' for k, v in sorted(c.items()) if k.startswith('budget_use_')),
        'budget_exceeded': c.get('budget_exceeded', 0),
        'second_filesystem': 'SKIPPED' if c.get('xdev_skipped') else 'real (tempfile.gettempdir() vs scratch)',
    }
